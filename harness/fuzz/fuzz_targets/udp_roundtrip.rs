//! bytes -> datagrams -> real 6.4 encoder == reference encoder; reference 6.3 encoding of the same
//! datagrams -> real decoder gives them back, for a fuzzer-chosen segmentation
#![no_main]
use arbitrary::Unstructured;
use bytes::Bytes;
use libfuzzer_sys::fuzz_target;
use std::collections::VecDeque;
use std::net::{IpAddr, Ipv4Addr, SocketAddr};
use trusttunnel::verif::codecs::{udp_encode, UdpDecoder, UdpOut};

#[path = "../../src/reference/udpmux.rs"]
#[allow(dead_code)]
mod udpmux;

fn addr(u: &mut Unstructured) -> arbitrary::Result<SocketAddr> {
    let ip = if u.arbitrary::<bool>()? {
        // 0.0.0.1 and ::1 share a wire form (11.2): normalise through the reference
        udpmux::decode_ip(&udpmux::encode_ip(&IpAddr::V4(Ipv4Addr::from(u.arbitrary::<[u8; 4]>()?))))
    } else {
        // 11.2: which 16-byte values are IPv4 on the wire is the reference's business
        udpmux::decode_ip(&u.arbitrary::<[u8; 16]>()?)
    };
    Ok(SocketAddr::new(ip, u.arbitrary()?))
}

fuzz_target!(|data: &[u8]| {
    let mut u = Unstructured::new(data);
    let mut grams = vec![];
    let Ok(n) = u.int_in_range(1..=6usize) else { return };
    for _ in 0..n {
        let (Ok(s), Ok(d)) = (addr(&mut u), addr(&mut u)) else { return };
        let Ok(app_len) = u.int_in_range(0..=40usize) else { return };
        let app: String = (0..app_len).map(|i| (b'a' + ((i * 7) % 26) as u8) as char).collect();
        let Ok(len) = u.int_in_range(0..=600usize) else { return };
        let Ok(payload) = u.bytes(len.min(u.len())) else { return };
        grams.push((s, d, app, payload.to_vec()));
    }
    // towards the client (6.4)
    for (s, d, _, p) in &grams {
        let out = UdpOut { source: *s, destination: *d, payload: Bytes::copy_from_slice(p) };
        let wire = udp_encode(&out).expect("a datagram that fits is encoded");
        assert_eq!(wire.as_ref(), udpmux::encode_out(s, d, p).as_slice(), "6.4 encoding");
        let back = udpmux::decode_out(&wire).expect("reference decodes it");
        assert_eq!((back.0, back.1, back.2.as_slice()), (*s, *d, p.as_slice()));
    }
    // from the client (6.3)
    let mut stream = vec![];
    for (s, d, app, p) in &grams {
        stream.extend_from_slice(&udpmux::encode_in(&udpmux::Datagram { source: *s, destination: *d, app_name: app.clone(), payload: p.clone() }));
    }
    let ncuts = u.int_in_range(0..=5usize).unwrap_or(0);
    let mut cuts: Vec<usize> = (0..ncuts).map(|_| u.int_in_range(0..=stream.len()).unwrap_or(0)).collect();
    cuts.sort();
    cuts.push(stream.len());
    let mut dec = UdpDecoder::default();
    let mut got = vec![];
    let mut prev = 0;
    for c in cuts {
        if c <= prev {
            continue;
        }
        let mut pending = VecDeque::from([Bytes::copy_from_slice(&stream[prev..c])]);
        prev = c;
        while let Some(chunk) = pending.pop_front() {
            if chunk.is_empty() {
                continue;
            }
            if let Some((d, tail)) = dec.decode_chunk(chunk) {
                got.push(d);
                if !tail.is_empty() {
                    pending.push_front(tail);
                }
            }
        }
    }
    assert_eq!(got.len(), grams.len(), "number of datagrams");
    for (g, (s, d, app, p)) in got.iter().zip(&grams) {
        assert_eq!((g.source, g.destination), (*s, *d), "addresses");
        assert_eq!(g.app_name.clone().unwrap_or_default(), *app, "application name");
        assert_eq!(g.payload.as_ref(), p.as_slice(), "payload");
    }
});
