//! server byte stream -> the SOCKS5 client dialogue must end with a classified result
#![no_main]
use libfuzzer_sys::fuzz_target;
use tokio::io::{AsyncReadExt, AsyncWriteExt};
use trusttunnel::verif::socks::{connect, SocksAddrView, SocksAuthView, SocksOutcome, SocksRequestView};

fuzz_target!(|data: &[u8]| {
    let rt = tokio::runtime::Builder::new_current_thread().enable_time().start_paused(true).build().unwrap();
    rt.block_on(async {
        let (client, mut server) = tokio::io::duplex(1 << 16);
        let head: Vec<u8> = data.iter().take(2).copied().collect();
        let data = data.to_vec();
        let srv = tokio::spawn(async move {
            let mut sink = vec![0u8; 4096];
            // feed the reply bytes in three phases, reading what the client sent in between
            let n = data.len();
            for part in [&data[..n.min(2)], &data[n.min(2)..n.min(4)], &data[n.min(4)..]] {
                let _ = tokio::time::timeout(std::time::Duration::from_millis(2), server.read(&mut sink)).await;
                if server.write_all(part).await.is_err() {
                    return;
                }
            }
            let _ = tokio::time::timeout(std::time::Duration::from_millis(2), server.read(&mut sink)).await;
        });
        let out = tokio::time::timeout(
            std::time::Duration::from_secs(30),
            connect(client, Some(SocksAuthView::UsernamePassword("user".into(), "pass".into())), SocksRequestView::Connect(SocksAddrView::Domain("a.test".into()), 80)),
        )
        .await
        .expect("the dialogue must end once the server has closed");
        if let SocksOutcome::Tcp(_) = out {
            // success needs: method 0 or 2 selected, (status 0), and a success reply
            assert!(head.len() >= 2 && head[0] == 5 && (head[1] == 0 || head[1] == 2), "success without an offered method");
        }
        let _ = srv.await;
    });
});
