//! bytes -> (cut positions, stream) -> real decoder vs the reference 6.3 decoder
#![no_main]
use bytes::Bytes;
use libfuzzer_sys::fuzz_target;
use std::collections::VecDeque;
use trusttunnel::verif::codecs::UdpDecoder;

#[path = "../../src/reference/udpmux.rs"]
#[allow(dead_code)]
mod udpmux;

fuzz_target!(|data: &[u8]| {
    if data.len() < 3 {
        return;
    }
    let ncuts = (data[0] % 5) as usize;
    if data.len() < 1 + ncuts {
        return;
    }
    let stream = &data[1 + ncuts..];
    let mut cuts: Vec<usize> = data[1..1 + ncuts].iter().map(|b| (*b as usize * (stream.len() + 1)) >> 8).collect();
    cuts.sort();
    cuts.push(stream.len());
    let (expected, _) = udpmux::decode_stream(stream);
    let mut dec = UdpDecoder::default();
    let mut got = vec![];
    let mut prev = 0;
    for c in cuts {
        if c <= prev {
            continue;
        }
        let mut pending = VecDeque::from([Bytes::copy_from_slice(&stream[prev..c])]);
        prev = c;
        while let Some(chunk) = pending.pop_front() {
            if chunk.is_empty() {
                continue;
            }
            if let Some((d, tail)) = dec.decode_chunk(chunk) {
                got.push(d);
                if !tail.is_empty() {
                    pending.push_front(tail);
                }
            }
        }
    }
    let mut gi = 0;
    for e in &expected {
        match e {
            udpmux::Outcome::Drop => {}
            udpmux::Outcome::Either(d) | udpmux::Outcome::Deliver(d) => {
                let matches = got.get(gi).is_some_and(|g| {
                    g.source == d.source && g.destination == d.destination && g.app_name.clone().unwrap_or_default() == d.app_name && g.payload.as_ref() == d.payload.as_slice()
                });
                if matches {
                    gi += 1;
                } else if matches!(e, udpmux::Outcome::Deliver(_)) {
                    panic!("decoder output differs from the reference at datagram {}", gi);
                }
            }
        }
    }
    assert_eq!(gi, got.len(), "decoder produced extra datagrams");
});
