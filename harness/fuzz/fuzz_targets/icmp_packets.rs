//! bytes -> ICMP / ICMPv6 receive path vs the reference parser; IP header skipping
#![no_main]
use bytes::Bytes;
use libfuzzer_sys::fuzz_target;
use trusttunnel::verif::codecs::{icmp_parse, skip_ipv4_header, skip_ipv6_header};

#[path = "../../src/reference/udpmux.rs"]
#[allow(dead_code)]
mod udpmux;
#[path = "../../src/reference/icmp.rs"]
#[allow(dead_code)]
mod icmp_impl;

use icmp_impl as icmp;

fuzz_target!(|data: &[u8]| {
    if data.is_empty() {
        return;
    }
    let v6 = data[0] & 1 == 1;
    let p = &data[1..];
    let peer = if v6 { "fe80::1".parse().unwrap() } else { "10.1.1.1".parse().unwrap() };
    let parsed = icmp_parse(v6, Bytes::copy_from_slice(p), peer);
    let reported = parsed.as_ref().ok().and_then(|x| x.responded.as_ref().map(|(id, seq, _)| (*id, *seq, x.type_id, x.code)));
    match icmp::expect(v6, p) {
        icmp::Expect::DontCare => {}
        icmp::Expect::Nothing => assert!(reported.is_none(), "unrelated packet reported"),
        icmp::Expect::Report { id, seq, type_id, code } => {
            assert_eq!(reported, Some((id, seq, type_id, code)), "response not matched");
            let enc = parsed.unwrap().encoded_reply.expect("7.4 record");
            assert_eq!(enc.as_ref(), icmp::reply_record(id, &peer, type_id, code, seq).as_slice());
        }
    }
    for f in [skip_ipv4_header, skip_ipv6_header] {
        if let Some((_, rest)) = f(Bytes::copy_from_slice(p)) {
            assert!(p.ends_with(&rest));
        }
    }
});
