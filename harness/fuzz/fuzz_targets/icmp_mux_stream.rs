//! bytes -> (cut positions, stream) -> real ICMP-mux request decoder vs the reference 7.3 decoder,
//! and every decoded request's serialised echo carries a valid Internet checksum
#![no_main]
use bytes::Bytes;
use libfuzzer_sys::fuzz_target;
use std::collections::VecDeque;
use trusttunnel::verif::codecs::IcmpDecoder;

#[path = "../../src/reference/udpmux.rs"]
#[allow(dead_code)]
mod udpmux;
#[path = "../../src/reference/icmp.rs"]
#[allow(dead_code)]
mod icmp_impl;

use icmp_impl as icmp;

fuzz_target!(|data: &[u8]| {
    if data.len() < 3 {
        return;
    }
    let ncuts = (data[0] % 6) as usize;
    if data.len() < 1 + ncuts {
        return;
    }
    let stream = &data[1 + ncuts..];
    // each request allocates its data size: 8 records are plenty for every boundary case
    let stream = &stream[..stream.len().min(8 * icmp::REQUEST_SIZE + 11)];
    let mut cuts: Vec<usize> = data[1..1 + ncuts].iter().map(|b| (*b as usize * (stream.len() + 1)) >> 8).collect();
    cuts.sort();
    cuts.push(stream.len());
    let expected: Vec<icmp::Request> = stream.chunks_exact(icmp::REQUEST_SIZE).map(icmp::decode_request).collect();
    let mut dec = IcmpDecoder::default();
    let mut got = vec![];
    let mut prev = 0;
    for c in cuts {
        if c <= prev {
            continue;
        }
        let mut pending = VecDeque::from([Bytes::copy_from_slice(&stream[prev..c])]);
        prev = c;
        while let Some(chunk) = pending.pop_front() {
            if chunk.is_empty() {
                continue;
            }
            if let Some((d, tail)) = dec.decode_chunk(chunk) {
                got.push(d);
                if !tail.is_empty() {
                    pending.push_front(tail);
                }
            }
        }
    }
    assert_eq!(expected.len(), got.len(), "number of requests");
    for (e, a) in expected.iter().zip(&got) {
        assert_eq!(a.peer, e.destination, "destination");
        assert!(a.is_echo_request && a.is_v6_message == e.destination.is_ipv6(), "message kind");
        assert_eq!((a.identifier, a.sequence_number, a.ttl, a.code), (e.id, e.seq, e.ttl, 0), "fields");
        assert_eq!(a.data.len(), e.data_size as usize, "data size");
        if !a.is_v6_message {
            assert!(icmp::verifies(&a.serialized), "ICMPv4 checksum");
        }
        assert_eq!(a.serialized.len(), 8 + e.data_size as usize, "wire length");
        assert_eq!(&a.serialized[4..8], &[(e.id >> 8) as u8, e.id as u8, (e.seq >> 8) as u8, e.seq as u8], "id/seq on the wire");
        assert_eq!(a.serialized[0], if a.is_v6_message { 128 } else { 8 }, "type on the wire");
    }
});
