//! bytes -> prefix monotonicity of extract_client_random and agreement with bytes 11..43
#![no_main]
use libfuzzer_sys::fuzz_target;
use trusttunnel::verif::tls::{extract_client_random, Extraction};

fuzz_target!(|data: &[u8]| {
    // reference: walk the handshake messages of the first record; the first ClientHello's random
    let mut truth = None;
    if data.len() >= 5 && data[0] == 22 {
        let end = 5 + (((data[3] as usize) << 8) | data[4] as usize);
        let mut pos = 5;
        while end <= data.len() && pos + 4 <= end {
            let len = ((data[pos + 1] as usize) << 16) | ((data[pos + 2] as usize) << 8) | data[pos + 3] as usize;
            if data[pos] == 1 {
                if pos + 4 + 34 <= end && len >= 34 {
                    truth = Some(&data[pos + 6..pos + 38]);
                }
                break;
            }
            pos += 4 + len;
        }
    }
    let mut found = false;
    let step = 1 + data.len() / 64;
    let mut n = 0;
    while n <= data.len() {
        match extract_client_random(&data[..n]) {
            Extraction::Found(x) => {
                assert_eq!(Some(x.as_slice()), truth, "wrong client random");
                found = true;
            }
            _ => assert!(!found, "Found turned into not found for a longer prefix"),
        }
        n += step;
    }
});
