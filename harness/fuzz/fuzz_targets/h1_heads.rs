//! bytes -> HTTP/1.1 request / response head decoders
#![no_main]
use libfuzzer_sys::fuzz_target;
use trusttunnel::verif::codecs::{h1_decode_request, h1_decode_response};

fuzz_target!(|data: &[u8]| {
    for f in [h1_decode_request, h1_decode_response] {
        match f(data) {
            Ok(Some(n)) => assert!(n <= data.len()),
            Ok(None) => assert!(data.len() < 1024, "partial head beyond the limit"),
            Err(_) => {}
        }
    }
});
