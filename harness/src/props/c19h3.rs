//! C19, "every ... session that registered before the submission observes it and winds down
//! gracefully (... QUIC close ...)": an HTTP/3 session with open CONNECT tunnels at the moment of
//! the shutdown. Winding down gracefully means the streams are finished - what was relayed so far
//! delivered, then FIN - before the connection is closed, not a close under open streams.

use crate::engine::networld::NetWorld;
use crate::engine::quic::{h3_tunnel, TunnelScript};
use crate::engine::world::{CoreSpec, Outcome, PeerMsg, Scripted};
use crate::engine::{aio, viol, Suite, Tier, Verdict};
use crate::ensure;
use crate::props::tunnelreq::b64;
use bytes::Bytes;
use proptest::prelude::*;
use serde::{Deserialize, Serialize};
use std::time::Duration;

#[derive(Serialize, Deserialize, Debug, Clone)]
pub struct Case {
    /// bytes the destination has sent when the shutdown is submitted
    pub greeting: u16,
    /// bytes the client has uploaded by then
    pub upload: u16,
    /// the shutdown is submitted this long after the greeting left the destination
    pub submit_after_ms: u8,
}

pub struct H3WindDownSuite;

fn pat(tag: u8, n: usize) -> Vec<u8> {
    (0..n).map(|i| ((i * 9 + (i >> 8)) as u8) ^ tag).collect()
}

impl Suite for H3WindDownSuite {
    type Case = Case;
    fn name(&self) -> &'static str {
        "h3-tunnel-wind-down"
    }
    fn rule(&self) -> String {
        "a quiche HTTP/3 client with an established CONNECT tunnel through the real QUIC listener of Core::listen (real time) to a scripted destination that has sent 1-20000 bytes, the client having uploaded 0-5000; Shutdown::submit() 0-120 ms after the destination's bytes left; oracle: the client is sent CONNECTION_CLOSE as an application close with code 0, and before it the response stream of the tunnel is finished (FIN, no reset) after exactly the bytes the destination had sent; completion() returns; non-trivial = every case".into()
    }
    fn strategy(&self, _: Tier) -> BoxedStrategy<Case> {
        (prop_oneof![1u16..200, 200u16..20000], prop_oneof![Just(0u16), 1u16..5000], 0u8..120)
            .prop_map(|(greeting, upload, submit_after_ms)| Case { greeting, upload, submit_after_ms })
            .boxed()
    }
    fn cases(&self, tier: Tier) -> u64 {
        tier.pick(320, 6_400)
    }
    fn classify(&self, _: &Case) -> Vec<&'static str> {
        vec!["nontrivial"]
    }
    fn check(&self, c: &Case) -> Verdict {
        let c = c.clone();
        aio::block_on_real(async move {
            let spec = CoreSpec { quic: true, ..CoreSpec::default() };
            let net = match NetWorld::start(&spec).await {
                Ok(n) => n,
                Err(e) => return viol("harness:networld", e),
            };
            let scripted = Scripted::new(|_| Outcome::Silent);
            let _g = scripted.install(&net.world);
            let headers = vec![
                (b":method".to_vec(), b"CONNECT".to_vec()),
                (b":authority".to_vec(), b"dest.example:443".to_vec()),
                (b"proxy-authorization".to_vec(), format!("Basic {}", b64("user:pass")).into_bytes()),
            ];
            let up = pat(0x31, c.upload as usize);
            let script = TunnelScript { up: if up.is_empty() { vec![] } else { vec![up.clone()] }, fin: false };
            let (_stop_tx, stop_rx) = tokio::sync::oneshot::channel();
            let addr = net.addr;
            let client = tokio::spawn(async move { h3_tunnel(addr, "main.x", headers, script, stop_rx, Duration::from_secs(8)).await });
            let mut origin = None;
            for _ in 0..3000 {
                if let Some((_, h)) = scripted.peers.lock().unwrap().first() {
                    origin = Some(h.clone());
                    break;
                }
                tokio::time::sleep(Duration::from_millis(1)).await;
            }
            let Some(origin) = origin else {
                return viol("harness:quic-client", "the tunnel was not established within 3 s");
            };
            // the upload has arrived, the greeting leaves
            for _ in 0..2000 {
                if origin.received.lock().unwrap().len() >= up.len() {
                    break;
                }
                tokio::time::sleep(Duration::from_millis(1)).await;
            }
            let greeting = pat(0xc7, c.greeting as usize);
            let _ = origin.to_client.send(PeerMsg::Data(Bytes::from(greeting.clone())));
            tokio::time::sleep(Duration::from_millis(c.submit_after_ms as u64)).await;
            let t0 = std::time::Instant::now();
            net.world.shutdown.lock().unwrap().submit();
            let seen = match tokio::time::timeout(Duration::from_secs(10), client).await {
                Ok(Ok(s)) => s,
                _ => return viol("harness:quic-client", "the client task did not end"),
            };
            let what = format!("HTTP/3 session with a tunnel that had relayed {} bytes down and {} up, shutdown {} ms after the destination's bytes left", greeting.len(), up.len(), c.submit_after_ms);
            if seen.status != Some(200) {
                return viol("harness:quic-client", format!("{}: CONNECT answered {:?} ({:?})", what, seen.status, seen.error));
            }
            ensure!(
                seen.peer_close.is_some(),
                "session:not-closed-gracefully:h3",
                "{}: no CONNECTION_CLOSE from the endpoint within 8 s of the submission",
                what
            );
            ensure!(
                seen.peer_close == Some((true, 0)),
                "session:not-closed-gracefully:h3",
                "{}: the endpoint closed the connection with {:?} (application close, code) instead of an application close with code 0",
                what,
                seen.peer_close
            );
            ensure!(
                seen.ended && !seen.reset,
                "session:h3-closed-under-an-open-stream",
                "{}: the connection was closed {} ms after the submission while the tunnel's response stream had not been finished (finished {}, reset {}, {} of {} bytes delivered)",
                what,
                t0.elapsed().as_millis(),
                seen.ended,
                seen.reset,
                seen.down.len(),
                greeting.len()
            );
            // what the destination had sent well before the submission must have been delivered
            if c.submit_after_ms >= 40 {
                ensure!(seen.down == greeting, "session:download-has-a-hole", "{}: the client has {} of {} bytes at the end of the stream", what, seen.down.len(), greeting.len());
            } else {
                ensure!(greeting.starts_with(&seen.down), "session:download-has-a-hole", "{}: the client's {} bytes are not a prefix of the destination's", what, seen.down.len());
            }
            Ok(())
        })
    }
}
