//! C14, third clause: a TLS handshake that does not complete within its timeout is dropped and
//! its socket released; a handshake that completes in time is served. Real `Core::listen` on
//! loopback, real time.

use crate::engine::networld::{ManualTls, NetWorld, TlsEnd};
use crate::engine::world::CoreSpec;
use crate::engine::{aio, idx, viol, Suite, Tier, Verdict};
use crate::props::tunnelreq::b64;
use proptest::prelude::*;
use serde::{Deserialize, Serialize};
use std::time::Duration;

const T_MS: u64 = 600;
const SLACK_MS: u64 = 1500;

#[derive(Serialize, Deserialize, Debug, Clone, PartialEq)]
pub enum Client {
    /// connects and never sends anything
    Silent,
    /// sends a proper prefix of its ClientHello and stalls
    PartialHello(u16),
    /// sends the whole ClientHello, reads the server's flight, never answers it
    HelloThenStall,
    /// sends the hello in two pieces with a pause of pct% of the timeout (<= 33), then completes
    SlowInTime(u16, u8),
    /// ordinary client
    Prompt,
}

#[derive(Serialize, Deserialize, Debug, Clone)]
pub struct Case {
    pub clients: Vec<Client>,
    pub h2_enabled: bool,
}

async fn health_check(c: &mut ManualTls) -> Result<(), String> {
    let req = format!(
        "CONNECT _check HTTP/1.1\r\nHost: _check\r\nProxy-Authorization: Basic {}\r\n\r\n",
        b64("user:pass")
    );
    c.send(req.as_bytes()).await.map_err(|e| format!("send: {:?}", e))?;
    let (got, end) = c
        .recv_until(Duration::from_secs(5), |b| b.windows(4).any(|w| w == b"\r\n\r\n"))
        .await;
    if got.starts_with(b"HTTP/1.1 200") {
        Ok(())
    } else {
        Err(format!("response {:?} end {:?}", String::from_utf8_lossy(&got), end))
    }
}

async fn one(addr: std::net::SocketAddr, client: Client) -> Verdict {
    let alpn = vec![b"http/1.1".to_vec()];
    let mut c = match ManualTls::connect(addr, Some("main.x"), &alpn).await {
        Ok(c) => c,
        Err(e) => return viol("harness:connect", e.to_string()),
    };
    let t = Duration::from_millis(T_MS);
    let limit = 2 * t + Duration::from_millis(SLACK_MS);
    let stalled = |what: &str, closed: Option<Duration>| -> Verdict {
        match closed {
            Some(_) => Ok(()),
            None => viol(
                "tls-handshake:stalled-connection-not-dropped",
                format!(
                    "{}: the endpoint still holds the connection {} ms after it was opened (tls_handshake_timeout = {} ms)",
                    what,
                    limit.as_millis(),
                    T_MS
                ),
            ),
        }
    };
    use tokio::io::AsyncWriteExt;
    match client {
        Client::Silent => stalled("client that never sends a byte", c.wait_closed(limit).await),
        Client::PartialHello(cut) => {
            let hello = c.pending_tls();
            let k = 1 + idx(cut, hello.len() - 1);
            if c.sock.write_all(&hello[..k]).await.is_err() {
                return Ok(());
            }
            stalled(&format!("client that sends {} of {} ClientHello bytes", k, hello.len()), c.wait_closed(limit).await)
        }
        Client::HelloThenStall => {
            let hello = c.pending_tls();
            if c.sock.write_all(&hello).await.is_err() {
                return Ok(());
            }
            stalled("client that sends its ClientHello and never answers the server's flight", c.wait_closed(limit).await)
        }
        Client::SlowInTime(cut, pct) => {
            let hello = c.pending_tls();
            let k = 1 + idx(cut, hello.len() - 1);
            let pause = Duration::from_millis(T_MS * (pct.min(33) as u64) / 100);
            let r = async {
                c.sock.write_all(&hello[..k]).await.map_err(|e| TlsEnd::Closed(e.to_string()))?;
                tokio::time::sleep(pause).await;
                c.sock.write_all(&hello[k..]).await.map_err(|e| TlsEnd::Closed(e.to_string()))?;
                c.handshake(Duration::from_secs(5)).await
            }
            .await;
            match r {
                Err(e) => viol(
                    "tls-handshake:timely-handshake-dropped",
                    format!("ClientHello sent as {} + {} bytes with a pause of {} ms (timeout {} ms): handshake failed: {:?}", k, hello.len() - k, pause.as_millis(), T_MS, e),
                ),
                Ok(()) => health_check(&mut c).await.or_else(|e| {
                    viol("tls-handshake:timely-handshake-dropped", format!("handshake completed after a {} ms pause but the session does not serve: {}", pause.as_millis(), e))
                }),
            }
        }
        Client::Prompt => match c.handshake(Duration::from_secs(5)).await {
            Err(e) => viol("tls-handshake:timely-handshake-dropped", format!("prompt handshake failed: {:?}", e)),
            Ok(()) => health_check(&mut c)
                .await
                .or_else(|e| viol("tls-handshake:timely-handshake-dropped", format!("prompt handshake completed but the session does not serve: {}", e))),
        },
    }
}

pub struct HandshakeSuite;

impl Suite for HandshakeSuite {
    type Case = Case;
    fn name(&self) -> &'static str {
        "tls-handshake-timeout"
    }
    fn rule(&self) -> String {
        format!("1-6 concurrent TCP clients against the real Core::listen on loopback (tls_handshake_timeout = {} ms, real time): silent, a proper prefix of the ClientHello at a generated cut, the complete ClientHello without ever answering the server's flight, the ClientHello in two pieces with a pause of at most a third of the timeout, or a prompt handshake; oracle: every stalled client sees its socket closed by the endpoint within 2 x timeout + {} ms, every timely client completes the handshake and gets 200 on CONNECT _check; non-trivial = at least one stalled client", T_MS, SLACK_MS)
    }
    fn strategy(&self, _: Tier) -> BoxedStrategy<Case> {
        let client = prop_oneof![
            2 => Just(Client::Silent),
            3 => any::<u16>().prop_map(Client::PartialHello),
            4 => Just(Client::HelloThenStall),
            3 => (any::<u16>(), 0u8..=33).prop_map(|(c, p)| Client::SlowInTime(c, p)),
            2 => Just(Client::Prompt),
        ];
        (prop::collection::vec(client, 1..=6), any::<bool>())
            .prop_map(|(clients, h2_enabled)| Case { clients, h2_enabled })
            .boxed()
    }
    fn cases(&self, tier: Tier) -> u64 {
        tier.pick(160, 4000)
    }
    fn classify(&self, c: &Case) -> Vec<&'static str> {
        let mut v = vec![];
        let mut stalled = false;
        for cl in &c.clients {
            match cl {
                Client::Silent => {
                    v.push("silent");
                    stalled = true;
                }
                Client::PartialHello(_) => {
                    v.push("partial-hello");
                    stalled = true;
                }
                Client::HelloThenStall => {
                    v.push("stall-after-hello");
                    stalled = true;
                }
                Client::SlowInTime(..) => v.push("slow-in-time"),
                Client::Prompt => v.push("prompt"),
            }
        }
        v.sort();
        v.dedup();
        if stalled {
            v.push("nontrivial");
        }
        v
    }
    fn required_classes(&self) -> Vec<&'static str> {
        vec!["nontrivial", "silent", "partial-hello", "stall-after-hello", "slow-in-time", "prompt"]
    }
    fn check(&self, c: &Case) -> Verdict {
        let c = c.clone();
        aio::block_on_real(async move {
            let spec = CoreSpec {
                h2: c.h2_enabled,
                handshake_timeout: Duration::from_millis(T_MS),
                ..CoreSpec::default()
            };
            let net = match NetWorld::start(&spec).await {
                Ok(n) => n,
                Err(e) => return viol("harness:networld", e),
            };
            let addr = net.addr;
            let results = futures::future::join_all(c.clients.iter().cloned().map(|cl| one(addr, cl))).await;
            for r in results {
                r?;
            }
            Ok(())
        })
    }
}
