//! C15 — SOCKS5 upstream dialogue is well-formed and faithful.

use crate::engine::{self, aio, idx, viol, Ctx, Suite, Tier, Verdict};
use crate::ensure;
use base64::Engine;
use proptest::prelude::*;
use serde::{Deserialize, Serialize};
use serde_json::Value;
use std::net::{IpAddr, Ipv4Addr, Ipv6Addr, SocketAddr};
use std::time::Duration;
use tokio::io::{AsyncReadExt, AsyncWriteExt, DuplexStream};
use trusttunnel::verif::session::AuthView;
use trusttunnel::verif::socks::{
    connect, make_auth, ExtValueView, SocksAddrView, SocksAuthView, SocksOutcome, SocksRequestView,
};

// ---------------------------------------------------------------------------------------------
// case

#[derive(Serialize, Deserialize, Debug, Clone)]
pub enum Creds {
    None,
    /// Proxy-Authorization token = base64(user:pass)
    Basic { user: String, pass: String },
    /// raw token that is not base64(user:pass)
    RawBasic(String),
    Sni(String),
}

#[derive(Serialize, Deserialize, Debug, Clone)]
pub enum Dest {
    V4([u8; 4]),
    V6([u8; 16]),
    Name(String),
}

#[derive(Serialize, Deserialize, Debug, Clone)]
pub struct Server {
    /// bytes of the method selection reply
    pub method_reply: Vec<u8>,
    pub auth_reply: Vec<u8>,
    pub reply: Vec<u8>,
    /// where the three replies are cut (positions mapped into each reply)
    pub cuts: Vec<u16>,
    /// close the connection after this many reply bytes in total (None = never)
    pub truncate_after: Option<u16>,
    /// the destination's first bytes, sent together with the final reply (a server-first protocol)
    #[serde(default)]
    pub trailing: Vec<u8>,
}

#[derive(Serialize, Deserialize, Debug, Clone)]
pub struct Case {
    pub creds: Creds,
    /// Some((tls domain, user agent)) = extended authentication enabled
    pub extended: Option<(String, Option<String>)>,
    pub client_v6: bool,
    pub dest: Dest,
    pub port: u16,
    pub udp: bool,
    pub server: Server,
}

fn b64(s: &str) -> String {
    base64::engine::general_purpose::STANDARD.encode(s.as_bytes())
}

fn text(max: usize) -> BoxedStrategy<String> {
    prop_oneof![
        6 => "[a-zA-Z0-9]{1,12}",
        2 => "\\PC{0,20}",
        1 => Just(String::new()),
        2 => (200usize..=max.max(201)).prop_map(|n| "x".repeat(n)),
        1 => (250usize..260).prop_map(|n| "y".repeat(n)),
        1 => (120usize..140).prop_map(|n| "é".repeat(n)),
    ]
    .boxed()
}

fn creds_strategy() -> BoxedStrategy<Creds> {
    prop_oneof![
        2 => Just(Creds::None),
        8 => (text(600), prop_oneof![4 => text(600), 1 => "[a-z]{0,5}:[a-z:]{0,8}"])
            .prop_map(|(user, pass)| Creds::Basic { user: user.replace(':', "_"), pass }),
        1 => prop::sample::select(vec!["!!!notbase64", "", "QUJD", "//79"]).prop_map(|s| Creds::RawBasic(s.to_string())),
        2 => text(300).prop_map(Creds::Sni),
    ]
    .boxed()
}

fn reply_bytes() -> BoxedStrategy<Vec<u8>> {
    // VER REP RSV ATYP ADDR PORT
    (
        prop_oneof![12 => Just(5u8), 1 => Just(4u8), 1 => Just(0u8)],
        prop_oneof![8 => Just(0u8), 6 => 1u8..=9, 1 => Just(0x10u8), 1 => Just(0xffu8)],
        prop_oneof![12 => Just(0u8), 1 => Just(1u8)],
        prop_oneof![6 => Just(1u8), 3 => Just(4u8), 2 => Just(3u8), 1 => Just(2u8), 1 => Just(0u8)],
        prop::collection::vec(any::<u8>(), 0..24),
        any::<u16>(),
    )
        .prop_map(|(ver, rep, rsv, atyp, junk, port)| {
            let mut v = vec![ver, rep, rsv, atyp];
            match atyp {
                1 => v.extend_from_slice(&[127, 0, 0, 1]),
                4 => v.extend_from_slice(&Ipv6Addr::LOCALHOST.octets()),
                3 => {
                    v.push(junk.len() as u8);
                    v.extend_from_slice(&junk);
                }
                _ => v.extend_from_slice(&junk),
            }
            v.extend_from_slice(&port.to_be_bytes());
            v
        })
        .boxed()
}

fn server_strategy() -> BoxedStrategy<Server> {
    (
        prop_oneof![
            6 => Just(vec![5u8, 0]),
            6 => Just(vec![5u8, 2]),
            6 => Just(vec![5u8, 0x80]),
            2 => Just(vec![5u8, 0xff]),
            1 => Just(vec![5u8, 1]),
            1 => Just(vec![5u8, 3]),
            1 => Just(vec![4u8, 0]),
            1 => Just(vec![5u8]),
            1 => Just(vec![]),
        ],
        prop_oneof![
            8 => Just(vec![1u8, 0]),
            3 => (1u8..=255).prop_map(|s| vec![1u8, s]),
            1 => Just(vec![5u8, 0]),
            1 => Just(vec![1u8]),
        ],
        reply_bytes(),
        prop::collection::vec(any::<u16>(), 0..4),
        prop_oneof![5 => Just(None), 2 => any::<u16>().prop_map(Some)],
        prop_oneof![1 => Just(vec![]), 2 => prop::collection::vec(any::<u8>(), 1..48)],
    )
        .prop_map(|(method_reply, auth_reply, reply, cuts, truncate_after, trailing)| Server {
            method_reply,
            auth_reply,
            reply,
            cuts,
            truncate_after,
            trailing,
        })
        .boxed()
}

pub fn case_strategy(udp: bool) -> BoxedStrategy<Case> {
    (
        creds_strategy(),
        prop_oneof![
            2 => Just(None),
            1 => (prop_oneof![4 => "[a-z]{1,10}\\.[a-z]{2,4}", 1 => (65_000usize..70_000).prop_map(|n| "d".repeat(n))],
                  prop_oneof![2 => Just(None), 3 => "[a-zA-Z0-9/. ]{1,30}".prop_map(Some), 1 => (65_500usize..70_000).prop_map(|n| Some("u".repeat(n)))])
                .prop_map(Some),
        ],
        any::<bool>(),
        prop_oneof![
            3 => any::<[u8; 4]>().prop_map(Dest::V4),
            2 => any::<[u8; 16]>().prop_map(Dest::V6),
            4 => "[a-z0-9.-]{1,40}".prop_map(Dest::Name),
            1 => (250usize..300).prop_map(|n| Dest::Name("n".repeat(n))),
            1 => Just(Dest::Name("n".repeat(255))),
        ],
        any::<u16>(),
        server_strategy(),
    )
        .prop_map(move |(creds, extended, client_v6, dest, port, server)| Case {
            creds,
            extended,
            client_v6,
            dest,
            port,
            udp,
            server,
        })
        .boxed()
}

// ---------------------------------------------------------------------------------------------
// reference

/// The (user, password) the endpoint must present under standard authentication,
/// or Err when the credentials cannot be turned into a pair.
fn expected_pair(c: &Creds) -> Option<Result<(String, String), ()>> {
    match c {
        Creds::None => None,
        Creds::Sni(x) => Some(Ok((x.clone(), x.clone()))),
        Creds::Basic { user, pass } => Some(Ok((user.clone(), pass.clone()))),
        Creds::RawBasic(tok) => Some(
            base64::engine::general_purpose::STANDARD
                .decode(tok)
                .ok()
                .and_then(|b| String::from_utf8(b).ok())
                .and_then(|s| s.split_once(':').map(|(a, b)| (a.to_string(), b.to_string())))
                .ok_or(()),
        ),
    }
}

fn source_of(c: &Creds) -> Option<AuthView> {
    match c {
        Creds::None => None,
        Creds::Sni(x) => Some(AuthView::Sni(x.clone())),
        Creds::Basic { user, pass } => Some(AuthView::ProxyBasic(b64(&format!("{}:{}", user, pass)))),
        Creds::RawBasic(t) => Some(AuthView::ProxyBasic(t.clone())),
    }
}

fn token_of(c: &Creds) -> Option<String> {
    match source_of(c) {
        Some(AuthView::ProxyBasic(t)) => Some(t),
        _ => None,
    }
}

#[derive(Debug, Default)]
struct Dialogue {
    greeting: Vec<u8>,
    auth: Vec<u8>,
    request: Vec<u8>,
    /// bytes the client wrote after the point where it must have stopped
    extra: Vec<u8>,
    replies_sent: usize,
    /// the final reply and the destination's first bytes were sent completely
    all_sent: bool,
}

async fn settle() {
    tokio::time::sleep(Duration::from_millis(1)).await;
}

async fn drain(io: &mut DuplexStream) -> Vec<u8> {
    let mut out = vec![];
    loop {
        settle().await;
        let mut buf = vec![0u8; 1 << 17];
        match tokio::time::timeout(Duration::from_millis(1), io.read(&mut buf)).await {
            Ok(Ok(n)) if n > 0 => out.extend_from_slice(&buf[..n]),
            _ => return out,
        }
    }
}

/// Send `bytes` in pieces; stop (and report false) when the budget is exhausted.
async fn send(io: &mut DuplexStream, bytes: &[u8], cuts: &[u16], budget: &mut Option<usize>) -> bool {
    let mut points: Vec<usize> = cuts.iter().map(|c| idx(*c, bytes.len() + 1)).collect();
    points.sort();
    points.push(bytes.len());
    let mut prev = 0;
    for p in points {
        if p <= prev {
            continue;
        }
        let mut piece = &bytes[prev..p];
        if let Some(b) = budget {
            if *b == 0 {
                return false;
            }
            if piece.len() > *b {
                piece = &piece[..*b];
            }
            *b -= piece.len();
        }
        if io.write_all(piece).await.is_err() {
            return false;
        }
        settle().await;
        if piece.len() < p - prev {
            return false;
        }
        prev = p;
    }
    true
}

/// The scripted server: answers at the protocol points, records what the client wrote.
async fn serve(mut io: DuplexStream, s: Server) -> Dialogue {
    let mut d = Dialogue::default();
    let mut budget = s.truncate_after.map(|t| t as usize % 24);
    d.greeting = drain(&mut io).await;
    if !send(&mut io, &s.method_reply, &s.cuts, &mut budget).await {
        drop(io);
        return d;
    }
    d.replies_sent = 1;
    let selected = if s.method_reply.len() >= 2 && s.method_reply[0] == 5 { Some(s.method_reply[1]) } else { None };
    let mut next = drain(&mut io).await;
    if matches!(selected, Some(2) | Some(0x80)) && !next.is_empty() {
        d.auth = next;
        if !send(&mut io, &s.auth_reply, &s.cuts, &mut budget).await {
            drop(io);
            return d;
        }
        d.replies_sent = 2;
        next = drain(&mut io).await;
    }
    d.request = next;
    if d.request.is_empty() {
        return d;
    }
    let mut last = s.reply.clone();
    last.extend_from_slice(&s.trailing);
    let reply_fits = budget.map_or(true, |b| b >= s.reply.len());
    if !send(&mut io, &last, &s.cuts, &mut budget).await {
        if reply_fits {
            d.replies_sent = 3; // cut inside the destination's bytes, the reply itself is complete
        }
        drop(io);
        return d;
    }
    d.replies_sent = 3;
    d.all_sent = true;
    d.extra = drain(&mut io).await;
    // keep the connection open until the client is done
    settle().await;
    d
}

#[derive(Debug, PartialEq)]
enum Res {
    Tcp,
    Udp,
    Failure(String),
    Io,
    Protocol(String),
    Authentication(String),
    /// make_auth refused the credentials before any dialogue
    NoDialogue(String),
}

fn judge(c: &Case, auth: &Result<Option<SocksAuthView>, String>, d: &Dialogue, res: &Res) -> Verdict {
    // ---- what the client offered
    let want_method: u8 = match (&c.creds, &c.extended) {
        (Creds::None, _) => 0,
        (_, Some(_)) => 0x80,
        (_, None) => 2,
    };
    if let Err(e) = auth {
        ensure!(d.greeting.is_empty(), "socks:dialogue-after-credential-failure", "credentials could not be derived ({}) but bytes were sent", e);
        return Ok(());
    }
    ensure!(
        d.greeting.len() >= 3 && d.greeting[0] == 5 && d.greeting[1] as usize == d.greeting.len() - 2 && d.greeting[1] >= 1,
        "socks:malformed-method-selection",
        "method selection message {}",
        engine::hex(&d.greeting)
    );
    let offered = &d.greeting[2..];
    ensure!(
        offered.contains(&want_method) && offered.iter().all(|m| *m == want_method || *m == 0),
        "socks:offered-methods-do-not-reflect-credentials",
        "offered methods {:?}, credentials call for {:#x}",
        offered,
        want_method
    );
    let selected = if c.server.method_reply.len() >= 2 && c.server.method_reply[0] == 5 {
        Some(c.server.method_reply[1])
    } else {
        None
    };
    // a selection reply that was cut short never reaches the client completely
    let proceeds = d.replies_sent >= 1 && matches!(selected, Some(m) if m != 0xff && offered.contains(&m));
    if !proceeds {
        ensure!(
            d.auth.is_empty() && d.request.is_empty(),
            "socks:proceeded-with-non-offered-method",
            "server selection {:?} (offered {:?}) but the client went on: auth {} request {}",
            c.server.method_reply,
            offered,
            engine::hex(&d.auth[..d.auth.len().min(16)]),
            engine::hex(&d.request[..d.request.len().min(16)])
        );
        ensure!(
            !matches!(res, Res::Tcp | Res::Udp),
            "socks:success-without-negotiation",
            "dialogue succeeded although the server selected {:?}",
            c.server.method_reply
        );
        return Ok(());
    }
    let selected = selected.unwrap();
    // ---- authentication message
    let mut auth_ok = true;
    if selected != 0 {
        match (selected, auth.as_ref().unwrap()) {
            (2, Some(SocksAuthView::UsernamePassword(u, p))) => {
                let in_range = |s: &str| (1..=255).contains(&s.len());
                if !in_range(u) || !in_range(p) {
                    if u.is_empty() || p.is_empty() {
                        // zero-length fields: outside RFC 1929 but unspecified here
                        return Ok(());
                    }
                    ensure!(
                        d.auth.is_empty(),
                        "socks:malformed-username-password-message",
                        "user name of {} and password of {} bytes cannot be expressed in RFC 1929, yet {} bytes were sent starting {}",
                        u.len(),
                        p.len(),
                        d.auth.len(),
                        engine::hex(&d.auth[..d.auth.len().min(8)])
                    );
                    ensure!(!matches!(res, Res::Tcp | Res::Udp), "socks:success-without-negotiation", "success without authentication");
                    return Ok(());
                }
                let mut want = vec![1u8, u.len() as u8];
                want.extend_from_slice(u.as_bytes());
                want.push(p.len() as u8);
                want.extend_from_slice(p.as_bytes());
                ensure!(
                    d.auth == want,
                    "socks:malformed-username-password-message",
                    "authentication message {} .. ({} bytes), RFC 1929 wants {} .. ({} bytes)",
                    engine::hex(&d.auth[..d.auth.len().min(12)]),
                    d.auth.len(),
                    engine::hex(&want[..want.len().min(12)]),
                    want.len()
                );
            }
            (0x80, Some(SocksAuthView::Extended(values))) => {
                let too_long = values.iter().any(|v| match v {
                    ExtValueView::Domain(x) | ExtValueView::UserAgent(x) | ExtValueView::BasicProxyAuth(x) => x.len() > 65535,
                    _ => false,
                });
                if too_long {
                    ensure!(d.auth.is_empty(), "socks:malformed-extended-message", "a value longer than 65535 bytes was sent");
                    return Ok(());
                }
                let mut want = vec![1u8];
                for v in values {
                    let (t, val): (u8, Vec<u8>) = match v {
                        ExtValueView::Domain(x) => (1, x.as_bytes().to_vec()),
                        ExtValueView::ClientAddress(IpAddr::V4(a)) => (2, a.octets().to_vec()),
                        ExtValueView::ClientAddress(IpAddr::V6(a)) => (2, a.octets().to_vec()),
                        ExtValueView::UserAgent(x) => (3, x.as_bytes().to_vec()),
                        ExtValueView::BasicProxyAuth(x) => (4, x.as_bytes().to_vec()),
                        ExtValueView::SniAuth => (5, vec![]),
                    };
                    want.push(t);
                    want.extend_from_slice(&(val.len() as u16).to_be_bytes());
                    want.extend_from_slice(&val);
                }
                want.extend_from_slice(&[0, 0, 0]);
                ensure!(
                    d.auth == want,
                    "socks:malformed-extended-message",
                    "extended authentication message differs from the documented TLV format ({} vs {} bytes)",
                    d.auth.len(),
                    want.len()
                );
            }
            _ => {
                return viol("socks:proceeded-with-non-offered-method", format!("method {:#x} selected, auth {:?}", selected, auth));
            }
        }
        auth_ok = c.server.auth_reply == [1, 0] && d.replies_sent >= 2;
        if !auth_ok {
            ensure!(
                d.request.is_empty(),
                "socks:request-after-failed-authentication",
                "authentication reply {:?} (sent: {}) but a request followed",
                c.server.auth_reply,
                d.replies_sent >= 2
            );
            ensure!(!matches!(res, Res::Tcp | Res::Udp), "socks:success-without-negotiation", "success after failed authentication");
            return Ok(());
        }
    }
    let _ = auth_ok;
    // ---- request
    if !c.udp {
        let (atyp, addr): (u8, Vec<u8>) = match &c.dest {
            Dest::V4(a) => (1, a.to_vec()),
            Dest::V6(a) => (4, a.to_vec()),
            Dest::Name(n) => {
                if n.len() > 255 {
                    ensure!(
                        d.request.is_empty(),
                        "socks:malformed-request",
                        "a domain name of {} bytes cannot be expressed, yet a request was sent",
                        n.len()
                    );
                    ensure!(!matches!(res, Res::Tcp), "socks:success-without-negotiation", "success without request");
                    return Ok(());
                }
                let mut v = vec![n.len() as u8];
                v.extend_from_slice(n.as_bytes());
                (3, v)
            }
        };
        let mut want = vec![5u8, 1, 0, atyp];
        want.extend_from_slice(&addr);
        want.extend_from_slice(&c.port.to_be_bytes());
        ensure!(
            d.request == want,
            "socks:malformed-request",
            "request {} , RFC 1928 wants {}",
            engine::hex(&d.request[..d.request.len().min(24)]),
            engine::hex(&want[..want.len().min(24)])
        );
    } else {
        ensure!(
            d.request.len() == 10 && d.request[..4] == [5, 3, 0, 1],
            "socks:malformed-request",
            "UDP ASSOCIATE request {}",
            engine::hex(&d.request)
        );
    }
    ensure!(d.extra.is_empty(), "socks:bytes-after-request", "client wrote {} more bytes after the request", d.extra.len());
    // ---- outcome
    let r = &c.server.reply;
    let complete = d.replies_sent == 3;
    let wellformed_success = complete
        && r.len() >= 4
        && r[0] == 5
        && r[1] == 0
        && r[2] == 0
        && matches!(r[3], 1 | 3 | 4)
        && (r[3] != 3 || std::str::from_utf8(&r[5..r.len() - 2]).is_ok());
    if matches!(res, Res::Tcp | Res::Udp) {
        ensure!(
            wellformed_success,
            "socks:success-on-failure-reply",
            "dialogue reported success, server reply was {} (sent completely: {})",
            engine::hex(r),
            complete
        );
    }
    if wellformed_success && !c.udp {
        ensure!(*res == Res::Tcp, "socks:failure-on-success-reply", "server replied success, client reports {:?}", res);
    }
    if complete && r.len() >= 4 && r[0] == 5 && r[2] == 0 && (1..=8).contains(&r[1]) && matches!(r[3], 1 | 4) {
        ensure!(
            matches!(res, Res::Failure(_)),
            "socks:failure-reply-not-reported",
            "reply code {} must fail the request, client reports {:?}",
            r[1],
            res
        );
    }
    Ok(())
}

pub struct DialogueSuite;

impl Suite for DialogueSuite {
    type Case = Case;
    fn name(&self) -> &'static str {
        "dialogue"
    }
    fn rule(&self) -> String {
        "credentials (none / Basic pair with halves of 0-600 bytes, any UTF-8, colons in the password / tokens that are not base64(user:pass) / SNI label), standard or extended authentication (domain and user agent up to 70 000 bytes), destinations (IPv4, IPv6, names of 1-300 bytes), and a scripted in-memory server: every interesting method byte, auth status, reply code 0-9 / 0x10 / 0xff, ATYP, wrong version / reserved byte, replies cut at generated points or truncated after 0-23 bytes, optionally followed in the same writes by 1-47 bytes of a destination that speaks first; make_auth and socks5_client::connect are the real ones; an independent RFC 1928/1929 + extended-format encoder says byte for byte what each client message must be (or that nothing may be sent), and the outcome must be success only for a fully received well-formed success reply after an offered method and status 0, and the tunnel's stream must start with exactly the bytes the server sent behind its reply; non-trivial = a field longer than 255 bytes, a non-offered method, or a truncated reply".into()
    }
    fn strategy(&self, _: Tier) -> BoxedStrategy<Case> {
        case_strategy(false)
    }
    fn cases(&self, tier: Tier) -> u64 {
        tier.pick(60_000, 1_200_000)
    }
    fn classify(&self, c: &Case) -> Vec<&'static str> {
        let mut v = vec![];
        let long = match &c.creds {
            Creds::Basic { user, pass } => user.len() > 255 || pass.len() > 255,
            Creds::Sni(x) => x.len() > 255,
            _ => false,
        } || matches!(&c.dest, Dest::Name(n) if n.len() > 255);
        let offered: Vec<u8> = match (&c.creds, &c.extended) {
            (Creds::None, _) => vec![0],
            (_, Some(_)) => vec![0x80, 0],
            _ => vec![2, 0],
        };
        let non_offered = c.server.method_reply.len() >= 2 && !offered.contains(&c.server.method_reply[1]);
        if long {
            v.push("field-longer-than-255");
        }
        if non_offered {
            v.push("non-offered-method");
        }
        if c.server.truncate_after.is_some() {
            v.push("truncated-reply");
        }
        if c.extended.is_some() {
            v.push("extended-auth");
        }
        if !c.server.trailing.is_empty() && !c.udp {
            v.push("destination-speaks-first");
        }
        if long || non_offered || c.server.truncate_after.is_some() {
            v.push("nontrivial");
        }
        v
    }
    fn required_classes(&self) -> Vec<&'static str> {
        vec!["nontrivial", "field-longer-than-255", "non-offered-method", "truncated-reply", "extended-auth"]
    }
    fn check(&self, c: &Case) -> Verdict {
        let client_addr: IpAddr = if c.client_v6 { "2001:db8::7".parse().unwrap() } else { "198.51.100.7".parse().unwrap() };
        let auth: Result<Option<SocksAuthView>, String> = match source_of(&c.creds) {
            None => Ok(None),
            Some(src) => engine::no_panic("socks:panic", || {
                make_auth(src, c.extended.as_ref().map(|(d, ua)| (d.clone(), client_addr, ua.clone())))
            })?
            .map(Some),
        };
        // make_auth itself
        match (&c.extended, expected_pair(&c.creds), &auth) {
            (None, Some(Ok((u, p))), Ok(Some(SocksAuthView::UsernamePassword(gu, gp)))) => ensure!(
                gu == &u && gp == &p,
                "socks:credentials-not-split-at-first-colon",
                "user/password {:?}/{:?} derived, want {:?}/{:?}",
                &gu[..gu.len().min(20)],
                &gp[..gp.len().min(20)],
                &u[..u.len().min(20)],
                &p[..p.len().min(20)]
            ),
            (None, Some(Err(())), Ok(Some(a))) => {
                return viol("socks:credentials-derived-from-garbage", format!("credentials {:?} derived from a token that is not base64(user:pass)", a))
            }
            (None, Some(Ok(_)), Err(e)) => return viol("socks:valid-credentials-refused", format!("make_auth failed: {}", e)),
            (Some((dom, ua)), Some(_), Ok(Some(SocksAuthView::Extended(vals)))) => {
                let mut want = vec![ExtValueView::Domain(dom.clone()), ExtValueView::ClientAddress(client_addr)];
                if let Some(ua) = ua {
                    want.push(ExtValueView::UserAgent(ua.clone()));
                }
                match &c.creds {
                    Creds::Sni(_) => want.push(ExtValueView::SniAuth),
                    _ => want.push(ExtValueView::BasicProxyAuth(token_of(&c.creds).unwrap())),
                }
                ensure!(vals == &want, "socks:extended-values-differ", "extended values {:?}", vals.len());
            }
            _ => {}
        }
        let case = c.clone();
        let auth2 = auth.clone();
        let (d, res, after_reply) = aio::block_on_paused(async move {
            let mut after_reply: Option<Vec<u8>> = None;
            let Ok(auth) = auth2 else {
                return (Dialogue::default(), Res::NoDialogue("credentials".into()), after_reply);
            };
            let (client, server) = tokio::io::duplex(1 << 18);
            let srv = tokio::spawn(serve(server, case.server.clone()));
            let req = if case.udp {
                SocksRequestView::UdpAssociate
            } else {
                SocksRequestView::Connect(
                    match &case.dest {
                        Dest::V4(a) => SocksAddrView::Ip(IpAddr::V4(Ipv4Addr::from(*a))),
                        Dest::V6(a) => SocksAddrView::Ip(IpAddr::V6(Ipv6Addr::from(*a))),
                        Dest::Name(n) => SocksAddrView::Domain(n.clone()),
                    },
                    case.port,
                )
            };
            let out = tokio::time::timeout(Duration::from_secs(30), connect(client, auth, req)).await;
            let res = match out {
                Err(_) => Res::Io,
                Ok(SocksOutcome::Tcp(mut io)) => {
                    // what the destination said right behind the reply must still be readable
                    let mut got = vec![0u8; case.server.trailing.len()];
                    let mut n = 0;
                    while n < got.len() {
                        match tokio::time::timeout(Duration::from_secs(5), io.read(&mut got[n..])).await {
                            Ok(Ok(k)) if k > 0 => n += k,
                            _ => break,
                        }
                    }
                    got.truncate(n);
                    after_reply = Some(got);
                    drop(io);
                    Res::Tcp
                }
                Ok(SocksOutcome::Udp(_)) => Res::Udp,
                Ok(SocksOutcome::Failure(c)) => Res::Failure(c),
                Ok(SocksOutcome::ErrIo(_)) => Res::Io,
                Ok(SocksOutcome::ErrProtocol(e)) => Res::Protocol(e),
                Ok(SocksOutcome::ErrAuthentication(e)) => Res::Authentication(e),
            };
            let d = tokio::time::timeout(Duration::from_secs(60), srv).await.ok().and_then(|r| r.ok()).unwrap_or_default();
            (d, res, after_reply)
        });
        judge(c, &auth, &d, &res)?;
        if let (Res::Tcp, Some(got)) = (&res, &after_reply) {
            if d.all_sent {
                ensure!(
                    got == &c.server.trailing,
                    "socks:bytes-after-reply-lost",
                    "the server sent {} bytes right behind its success reply ({}), the tunnel's stream starts with {} bytes ({})",
                    c.server.trailing.len(),
                    engine::hex(&c.server.trailing[..c.server.trailing.len().min(16)]),
                    got.len(),
                    engine::hex(&got[..got.len().min(16)])
                );
            }
        }
        Ok(())
    }
}

// ---------------------------------------------------------------------------------------------
// relayed UDP datagrams (RFC 1928 section 7), over real loopback UDP

#[derive(Serialize, Deserialize, Debug, Clone)]
pub struct UdpCase {
    pub out_dest: SocketAddr,
    pub out_payload: Vec<u8>,
    /// datagrams the relay sends back: raw bytes
    pub inbound: Vec<Vec<u8>>,
}

pub struct UdpSuite;

fn inbound_strategy() -> BoxedStrategy<Vec<u8>> {
    let valid = (any::<bool>(), any::<[u8; 16]>(), any::<u16>(), prop::collection::vec(any::<u8>(), 0..64)).prop_map(|(v6, a, port, data)| {
        let mut v = vec![0u8, 0, 0, if v6 { 4 } else { 1 }];
        if v6 {
            v.extend_from_slice(&a);
        } else {
            v.extend_from_slice(&a[..4]);
        }
        v.extend_from_slice(&port.to_be_bytes());
        v.extend_from_slice(&data);
        v
    });
    prop_oneof![
        6 => valid.clone(),
        2 => (valid.clone(), any::<u16>()).prop_map(|(mut v, k)| { let n = idx(k, v.len()); v.truncate(n); v }),
        1 => valid.clone().prop_map(|mut v| { v[2] = 1; v }),
        1 => valid.clone().prop_map(|mut v| { v[3] = 3; v }),
        1 => valid.prop_map(|mut v| { v[0] = 9; v }),
        1 => prop::collection::vec(any::<u8>(), 0..30),
    ]
    .boxed()
}

/// What a relayed datagram must yield: Some((source, payload)) or None = must be rejected;
/// Err(()) = unspecified (domain-name sources)
fn parse_relayed(b: &[u8]) -> Result<Option<(SocketAddr, Vec<u8>)>, ()> {
    if b.len() < 4 {
        return Ok(None);
    }
    if b[0] != 0 || b[1] != 0 || b[2] != 0 {
        return Ok(None);
    }
    match b[3] {
        1 => {
            if b.len() < 10 {
                return Ok(None);
            }
            Ok(Some((SocketAddr::new(IpAddr::V4(Ipv4Addr::new(b[4], b[5], b[6], b[7])), u16::from_be_bytes([b[8], b[9]])), b[10..].to_vec())))
        }
        4 => {
            if b.len() < 22 {
                return Ok(None);
            }
            let mut a = [0u8; 16];
            a.copy_from_slice(&b[4..20]);
            Ok(Some((SocketAddr::new(IpAddr::V6(Ipv6Addr::from(a)), u16::from_be_bytes([b[20], b[21]])), b[22..].to_vec())))
        }
        3 => Err(()),
        _ => Ok(None),
    }
}

impl Suite for UdpSuite {
    type Case = UdpCase;
    fn name(&self) -> &'static str {
        "udp-relay-header"
    }
    fn rule(&self) -> String {
        "a UDP association is established through the real dialogue against a scripted server whose BND address is a loopback UDP socket of the harness; one datagram is sent through send_to (IPv4 / IPv6 destination, 0-200 bytes) and must arrive with exactly the RFC 1928 section 7 header; 1-4 datagrams are relayed back: well-formed ones, truncated at every length, FRAG != 0, ATYP 3, bad reserved bytes, random bytes - recv_from must return source and payload exactly for the well-formed ones and an error (never a panic, never wrong data) for the others; non-trivial = an inbound datagram that must be rejected".into()
    }
    fn strategy(&self, _: Tier) -> BoxedStrategy<UdpCase> {
        (
            prop_oneof![
                (any::<[u8; 4]>(), any::<u16>()).prop_map(|(a, p)| SocketAddr::new(IpAddr::V4(Ipv4Addr::from(a)), p)),
                (any::<[u8; 16]>(), any::<u16>()).prop_map(|(a, p)| SocketAddr::new(IpAddr::V6(Ipv6Addr::from(a)), p)),
            ],
            prop::collection::vec(any::<u8>(), 0..200),
            prop::collection::vec(inbound_strategy(), 1..=4),
        )
            .prop_map(|(out_dest, out_payload, inbound)| UdpCase {
                out_dest,
                out_payload,
                inbound,
            })
            .boxed()
    }
    fn cases(&self, tier: Tier) -> u64 {
        tier.pick(4000, 80_000)
    }
    fn classify(&self, c: &UdpCase) -> Vec<&'static str> {
        if c.inbound.iter().any(|b| parse_relayed(b) == Ok(None)) {
            vec!["must-reject", "nontrivial"]
        } else {
            vec!["all-wellformed"]
        }
    }
    fn check(&self, c: &UdpCase) -> Verdict {
        let c = c.clone();
        aio::block_on_real(async move {
            let relay = tokio::net::UdpSocket::bind("127.0.0.1:0").await.map_err(|e| engine::Violation { sig: "harness:udp".into(), msg: e.to_string() })?;
            let relay_addr = relay.local_addr().unwrap();
            let (client, mut server) = tokio::io::duplex(4096);
            let srv = tokio::spawn(async move {
                let mut buf = [0u8; 64];
                let _ = server.read(&mut buf).await; // greeting
                let _ = server.write_all(&[5, 0]).await;
                let _ = server.read(&mut buf).await; // request
                let mut reply = vec![5u8, 0, 0, 1, 127, 0, 0, 1];
                reply.extend_from_slice(&relay_addr.port().to_be_bytes());
                let _ = server.write_all(&reply).await;
                // keep the control connection open
                let _ = server.read(&mut buf).await;
            });
            let out = tokio::time::timeout(Duration::from_secs(10), connect(client, None, SocksRequestView::UdpAssociate)).await;
            let Ok(SocksOutcome::Udp(assoc)) = out else {
                return viol("socks:udp-association-failed", "UDP ASSOCIATE against a well-behaved server did not succeed");
            };
            let r = assoc.send_to(&c.out_payload, c.out_dest).await;
            ensure!(r.is_ok(), "socks:udp-send-failed", "send_to failed: {:?}", r);
            let mut buf = vec![0u8; 2048];
            let (n, from) = tokio::time::timeout(Duration::from_secs(5), relay.recv_from(&mut buf))
                .await
                .map_err(|_| engine::Violation { sig: "socks:udp-datagram-not-sent".into(), msg: "nothing arrived at the relay".into() })?
                .map_err(|e| engine::Violation { sig: "harness:udp".into(), msg: e.to_string() })?;
            let mut want = vec![0u8, 0, 0];
            match c.out_dest.ip() {
                IpAddr::V4(a) => {
                    want.push(1);
                    want.extend_from_slice(&a.octets());
                }
                IpAddr::V6(a) => {
                    want.push(4);
                    want.extend_from_slice(&a.octets());
                }
            }
            want.extend_from_slice(&c.out_dest.port().to_be_bytes());
            want.extend_from_slice(&c.out_payload);
            ensure!(
                buf[..n] == want[..],
                "socks:udp-header-wrong",
                "relayed datagram {} .., RFC 1928 section 7 wants {} ..",
                engine::hex(&buf[..n.min(24)]),
                engine::hex(&want[..want.len().min(24)])
            );
            for dgram in &c.inbound {
                relay.send_to(dgram, from).await.map_err(|e| engine::Violation { sig: "harness:udp".into(), msg: e.to_string() })?;
                let mut data = vec![0u8; 256];
                let got = tokio::time::timeout(Duration::from_secs(5), assoc.recv_from(&mut data)).await;
                let Ok(got) = got else {
                    return viol("socks:udp-recv-hangs", "recv_from did not return for a delivered datagram");
                };
                match (parse_relayed(dgram), got) {
                    (Err(()), _) => {}
                    (Ok(None), Ok((n, src))) => {
                        return viol(
                            "socks:udp-malformed-datagram-accepted",
                            format!("malformed relayed datagram {} accepted as {} bytes from {}", engine::hex(dgram), n, src),
                        )
                    }
                    (Ok(None), Err(_)) => {}
                    (Ok(Some((src, payload))), Ok((n, gsrc))) => ensure!(
                        n == payload.len() && gsrc == src && data[..n.min(data.len())] == payload[..n.min(data.len())],
                        "socks:udp-unwrap-wrong",
                        "relayed datagram from {} with {} bytes unwrapped as from {} with {} bytes",
                        src,
                        payload.len(),
                        gsrc,
                        n
                    ),
                    (Ok(Some(_)), Err(e)) => return viol("socks:udp-wellformed-datagram-rejected", format!("{} rejected: {}", engine::hex(dgram), e)),
                }
            }
            srv.abort();
            Ok(())
        })
    }
}

pub fn run(ctx: &mut Ctx) {
    super::replay_corpus(ctx, replay);
    ctx.run_suite(&DialogueSuite);
    ctx.run_suite(&UdpSuite);
    ctx.run_suite(&super::c15fwd::ForwarderSuite);
    ctx.assume("zero-length user names / passwords and relayed datagrams with a domain-name source (ATYP 3) are don't-care");
    ctx.assume("the mapping of reply codes 3/4/6 to the unreachable / timed-out tunnel errors lives in Socks5Forwarder::TcpConnector::connect, which dials a real TCP socket; it is covered by the end-to-end suite when present");
}

pub fn replay(ctx: &mut Ctx, suite: &str, case: &Value) -> bool {
    match suite {
        "dialogue" => ctx.replay_suite(&DialogueSuite, case),
        "udp-relay-header" => ctx.replay_suite(&UdpSuite, case),
        "socks5-forwarder-end-to-end" => ctx.replay_suite(&super::c15fwd::ForwarderSuite, case),
        _ => false,
    }
}
