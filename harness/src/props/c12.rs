//! C12 — ClientHello random is extracted exactly and transparently.

use crate::engine::world::cert_path;
use crate::engine::{self, aio, idx, viol, Ctx, Suite, Tier, Verdict};
use crate::ensure;
use proptest::prelude::*;
use serde::{Deserialize, Serialize};
use serde_json::Value;
use std::io::{Read, Write};
use std::os::fd::{AsRawFd, FromRawFd, IntoRawFd};
use std::sync::Arc;
use std::time::Duration;
use tokio::io::{AsyncReadExt, AsyncWriteExt};
use trusttunnel::verif::session::Proto;
use trusttunnel::verif::tls::{extract_client_random, listen, Extraction};

// ---------------------------------------------------------------------------------------------
// ClientHello sources

struct NoVerify;

impl rustls::client::ServerCertVerifier for NoVerify {
    fn verify_server_cert(
        &self,
        _: &rustls::Certificate,
        _: &[rustls::Certificate],
        _: &rustls::ServerName,
        _: &mut dyn Iterator<Item = &[u8]>,
        _: &[u8],
        _: std::time::SystemTime,
    ) -> Result<rustls::client::ServerCertVerified, rustls::Error> {
        Ok(rustls::client::ServerCertVerified::assertion())
    }
}

#[derive(Serialize, Deserialize, Debug, Clone)]
pub struct RustlsSpec {
    pub sni: String,
    pub alpn: Vec<String>,
    /// 0 = default versions, 1 = TLS 1.2 only, 2 = TLS 1.3 only
    pub versions: u8,
    /// rustls max_fragment_size: splits the hello over several records when small
    pub fragment: Option<u16>,
    pub enable_sni: bool,
}

pub fn rustls_client(spec: &RustlsSpec) -> rustls::ClientConnection {
    let builder = rustls::ClientConfig::builder().with_safe_default_cipher_suites().with_safe_default_kx_groups();
    let builder = match spec.versions {
        1 => builder.with_protocol_versions(&[&rustls::version::TLS12]).unwrap(),
        2 => builder.with_protocol_versions(&[&rustls::version::TLS13]).unwrap(),
        _ => builder.with_safe_default_protocol_versions().unwrap(),
    };
    let mut cfg = builder.with_custom_certificate_verifier(Arc::new(NoVerify)).with_no_client_auth();
    cfg.alpn_protocols = spec.alpn.iter().map(|a| a.as_bytes().to_vec()).collect();
    cfg.enable_sni = spec.enable_sni;
    cfg.max_fragment_size = spec.fragment.map(|f| f as usize);
    let name = rustls::ServerName::try_from(spec.sni.as_str()).unwrap_or_else(|_| rustls::ServerName::try_from("main.x").unwrap());
    rustls::ClientConnection::new(Arc::new(cfg), name).expect("client connection")
}

pub fn first_flight(conn: &mut rustls::ClientConnection) -> Vec<u8> {
    let mut out = vec![];
    while conn.wants_write() {
        conn.write_tls(&mut out).unwrap();
    }
    out
}

#[derive(Serialize, Deserialize, Debug, Clone)]
pub struct SyntheticSpec {
    pub random: Vec<u8>,
    pub session_id_len: u8,
    pub cipher_suites: u16,
    /// (type, length) of each extension; bodies are zero bytes except SNI / ALPN built properly
    pub extensions: Vec<(u16, u16)>,
    pub sni: Option<String>,
    /// split the handshake message over records of at most this many bytes (None = one record)
    pub record_split: Option<u16>,
    /// extra bytes appended after the hello (another record, garbage)
    pub trailing: Vec<u8>,
    pub legacy_version: [u8; 2],
}

pub fn synthetic(spec: &SyntheticSpec) -> Vec<u8> {
    let mut body = vec![3u8, 3];
    body.extend_from_slice(&spec.random);
    body.push(spec.session_id_len.min(32));
    body.extend(std::iter::repeat(0xaa).take(spec.session_id_len.min(32) as usize));
    let n_cs = (spec.cipher_suites.clamp(1, 100)) as usize;
    body.extend_from_slice(&((n_cs * 2) as u16).to_be_bytes());
    for i in 0..n_cs {
        body.extend_from_slice(&(0x1301u16 + i as u16).to_be_bytes());
    }
    body.extend_from_slice(&[1, 0]);
    let mut exts = vec![];
    if let Some(sni) = &spec.sni {
        let mut e = vec![];
        e.extend_from_slice(&((sni.len() + 3) as u16).to_be_bytes());
        e.push(0);
        e.extend_from_slice(&(sni.len() as u16).to_be_bytes());
        e.extend_from_slice(sni.as_bytes());
        exts.extend_from_slice(&0u16.to_be_bytes());
        exts.extend_from_slice(&(e.len() as u16).to_be_bytes());
        exts.extend_from_slice(&e);
    }
    for (t, l) in &spec.extensions {
        exts.extend_from_slice(&t.to_be_bytes());
        exts.extend_from_slice(&l.to_be_bytes());
        exts.extend(std::iter::repeat(0u8).take(*l as usize));
    }
    let exts_len = exts.len().min(65535);
    body.extend_from_slice(&(exts_len as u16).to_be_bytes());
    body.extend_from_slice(&exts[..exts_len]);
    let mut hs = vec![1u8];
    hs.extend_from_slice(&(body.len() as u32).to_be_bytes()[1..]);
    hs.extend_from_slice(&body);
    let chunk = spec.record_split.map(|c| c.max(1) as usize).unwrap_or(16384).min(16384);
    let mut out = vec![];
    for piece in hs.chunks(chunk) {
        out.push(22);
        out.extend_from_slice(&spec.legacy_version);
        out.extend_from_slice(&(piece.len() as u16).to_be_bytes());
        out.extend_from_slice(piece);
    }
    out.extend_from_slice(&spec.trailing);
    out
}

/// The random field of the ClientHello that starts the stream, if the first record holds one
/// completely enough to contain it: bytes 11..43 of the stream.
pub fn truth(stream: &[u8]) -> Option<Vec<u8>> {
    if stream.len() < 43 || stream[0] != 22 || stream[5] != 1 {
        return None;
    }
    let rec_len = u16::from_be_bytes([stream[3], stream[4]]) as usize;
    if rec_len < 38 {
        return None;
    }
    Some(stream[11..43].to_vec())
}

/// The hello is one complete record that fits the peek buffer
pub fn single_record(stream: &[u8]) -> Option<usize> {
    if stream.len() < 9 || stream[0] != 22 || stream[5] != 1 {
        return None;
    }
    let rec_len = u16::from_be_bytes([stream[3], stream[4]]) as usize;
    let hs_len = u32::from_be_bytes([0, stream[6], stream[7], stream[8]]) as usize;
    if hs_len + 4 == rec_len && rec_len + 5 < 16384 && stream.len() >= rec_len + 5 {
        Some(rec_len + 5)
    } else {
        None
    }
}

#[derive(Serialize, Deserialize, Debug, Clone)]
pub enum Hello {
    Rustls(RustlsSpec),
    Synthetic(SyntheticSpec),
    /// (spec, byte position, xor mask, truncate?) mutation of a synthetic hello
    Mutated(SyntheticSpec, u16, u8, bool),
}

fn rustls_spec() -> BoxedStrategy<RustlsSpec> {
    (
        prop_oneof![3 => Just("main.x".to_string()), 1 => "[a-z]{1,20}\\.[a-z]{1,10}\\.x", 1 => "[a-z]{60}\\.[a-z]{60}\\.[a-z]{60}\\.x"],
        prop_oneof![
            5 => prop::collection::vec(prop_oneof![Just("h2".to_string()), Just("http/1.1".to_string()), Just("h3".to_string()), "[a-z]{1,40}"], 0..6),
            // hellos of 4-15 KiB in one record (the size of several post-quantum key shares / padding):
            // the peeked bytes are replayed to the TLS stack in more than one read
            1 => (90usize..330, prop_oneof![Just("h2".to_string()), Just("http/1.1".to_string())]).prop_map(|(n, last)| {
                let mut v: Vec<String> = (0..n).map(|i| format!("proto-{:04}-{}", i, "x".repeat(30))).collect();
                v.push(last);
                v
            }),
            // hellos of 16-24 KiB: the first record is a full one and does not complete within the
            // 16 KiB the listener peeks at
            1 => (380usize..560, prop_oneof![Just("h2".to_string()), Just("http/1.1".to_string())]).prop_map(|(n, last)| {
                let mut v: Vec<String> = (0..n).map(|i| format!("proto-{:04}-{}", i, "y".repeat(30))).collect();
                v.push(last);
                v
            }),
        ],
        0u8..3,
        prop_oneof![4 => Just(None), 1 => (40u16..300).prop_map(Some)],
        prop_oneof![6 => Just(true), 1 => Just(false)],
    )
        .prop_map(|(sni, alpn, versions, fragment, enable_sni)| RustlsSpec {
            sni,
            alpn,
            versions,
            fragment,
            enable_sni,
        })
        .boxed()
}

fn synthetic_spec() -> BoxedStrategy<SyntheticSpec> {
    (
        prop::collection::vec(any::<u8>(), 32),
        prop_oneof![Just(0u8), Just(32u8), 0u8..33],
        1u16..60,
        prop::collection::vec(
            (
                prop_oneof![Just(10u16), Just(11), Just(13), Just(16), Just(21), Just(43), Just(45), Just(51), Just(0x0a0a), any::<u16>()],
                prop_oneof![6 => 0u16..40, 2 => 40u16..1300, 1 => 1300u16..6000],
            ),
            0..8,
        ),
        prop_oneof![2 => Just(Some("main.x".to_string())), 1 => Just(None)],
        prop_oneof![5 => Just(None), 1 => (20u16..400).prop_map(Some), 1 => Just(Some(42)), 1 => Just(Some(43))],
        prop_oneof![3 => Just(vec![]), 1 => Just(vec![20, 3, 3, 0, 1, 1]), 1 => prop::collection::vec(any::<u8>(), 1..40)],
        prop_oneof![Just([3u8, 1]), Just([3u8, 3])],
    )
        .prop_map(|(random, session_id_len, cipher_suites, extensions, sni, record_split, trailing, legacy_version)| SyntheticSpec {
            random,
            session_id_len,
            cipher_suites,
            extensions,
            sni,
            record_split,
            trailing,
            legacy_version,
        })
        .boxed()
}

fn hello_bytes(h: &Hello) -> Vec<u8> {
    match h {
        Hello::Rustls(s) => first_flight(&mut rustls_client(s)),
        Hello::Synthetic(s) => synthetic(s),
        Hello::Mutated(s, pos, mask, trunc) => {
            let mut b = synthetic(s);
            if !b.is_empty() {
                let i = idx(*pos, b.len());
                if *trunc {
                    b.truncate(i);
                } else {
                    b[i] ^= mask | 1;
                }
            }
            b
        }
    }
}

// ---------------------------------------------------------------------------------------------
// extraction over prefixes

pub struct PrefixSuite;

impl Suite for PrefixSuite {
    type Case = Hello;
    fn name(&self) -> &'static str {
        "extraction-prefixes"
    }
    fn rule(&self) -> String {
        "first flights from the rustls client (varied SNI incl. 180-byte names, 0-5 ALPN entries, TLS 1.2-only / 1.3-only / both, max_fragment_size 40-300 so that the hello spans several records), from a synthetic builder (arbitrary extension lists up to 16 KiB incl. padding and key-share sized extensions, session ids, 1-59 cipher suites, handshake message split over records at any size, trailing extra records / garbage) and byte-level mutations or truncations of those; the real extract_client_random runs on every prefix (all prefixes up to 700 bytes, then every 61st and the neighbourhood of each record boundary); oracle: truth = bytes 11..43 of the first record; any Found must equal the truth and stays Found for longer prefixes; for a hello contained in one record smaller than the 16 KiB peek buffer every proper prefix must answer NeedMoreData (never NotFound, which makes the listener give up) and the complete record Found(truth); non-trivial = hello longer than 1024 bytes or spanning several records".into()
    }
    fn strategy(&self, _: Tier) -> BoxedStrategy<Hello> {
        prop_oneof![
            3 => rustls_spec().prop_map(Hello::Rustls),
            4 => synthetic_spec().prop_map(Hello::Synthetic),
            2 => (synthetic_spec(), any::<u16>(), any::<u8>(), any::<bool>()).prop_map(|(s, p, m, t)| Hello::Mutated(s, p, m, t)),
        ]
        .boxed()
    }
    fn cases(&self, tier: Tier) -> u64 {
        tier.pick(24_000, 240_000)
    }
    fn classify(&self, h: &Hello) -> Vec<&'static str> {
        let b = hello_bytes(h);
        let mut v = vec![];
        if b.len() > 1024 {
            v.push("longer-than-one-read");
        }
        let multi = single_record(&b).is_none();
        if multi {
            v.push("not-a-single-complete-record");
        } else {
            v.push("single-record");
        }
        match h {
            Hello::Rustls(_) => v.push("rustls"),
            Hello::Synthetic(_) => v.push("synthetic"),
            Hello::Mutated(..) => v.push("mutated"),
        }
        if b.len() > 1024 || multi {
            v.push("nontrivial");
        }
        v
    }
    fn required_classes(&self) -> Vec<&'static str> {
        vec!["nontrivial", "longer-than-one-read", "single-record", "not-a-single-complete-record", "rustls", "mutated"]
    }
    fn check(&self, h: &Hello) -> Verdict {
        let b = hello_bytes(h);
        let t = truth(&b);
        let single = if matches!(h, Hello::Mutated(..)) { None } else { single_record(&b) };
        let mut lens: Vec<usize> = (0..=b.len().min(700)).collect();
        lens.extend((700..b.len()).step_by(61));
        if let Some(n) = single {
            for d in 0..3 {
                lens.push(n.saturating_sub(d));
                lens.push((n + d).min(b.len()));
            }
        }
        lens.push(b.len());
        lens.sort();
        lens.dedup();
        engine::bump("prefixes", lens.len() as u64);
        let mut found: Option<Vec<u8>> = None;
        for n in lens {
            let r = engine::no_panic("extract:panic", || extract_client_random(&b[..n]))?;
            match &r {
                Extraction::Found(x) => {
                    ensure!(
                        Some(x) == t.as_ref(),
                        "extract:wrong-value",
                        "prefix of {} bytes: reported {} , the hello carries {:?}",
                        n,
                        engine::hex(x),
                        t.as_ref().map(|t| engine::hex(t))
                    );
                    found = Some(x.clone());
                }
                other => {
                    ensure!(
                        found.is_none(),
                        "extract:not-monotone",
                        "prefix of {} bytes answers {:?} after a shorter prefix had been answered Found",
                        n,
                        other
                    );
                }
            }
            if let Some(full) = single {
                if n < full {
                    ensure!(
                        r == Extraction::NeedMoreData,
                        "extract:gives-up-on-partial-hello",
                        "prefix of {} of {} bytes of a single-record hello answers {:?}",
                        n,
                        full,
                        r
                    );
                } else {
                    ensure!(
                        matches!(&r, Extraction::Found(x) if Some(x) == t.as_ref()),
                        "extract:complete-hello-not-found",
                        "complete single-record hello of {} bytes ({} given) answers {:?}",
                        full,
                        n,
                        r
                    );
                }
            }
        }
        Ok(())
    }
}

// ---------------------------------------------------------------------------------------------
// the listener on a socket with exact read boundaries

#[derive(Serialize, Deserialize, Debug, Clone)]
pub struct SocketCase {
    pub spec: RustlsSpec,
    pub cuts: Vec<u16>,
    pub proto: u8,
}

pub struct SocketSuite;

fn socketpair() -> std::io::Result<(std::os::fd::OwnedFd, std::os::fd::OwnedFd)> {
    let mut fds = [0i32; 2];
    let r = unsafe { libc::socketpair(libc::AF_UNIX, libc::SOCK_STREAM, 0, fds.as_mut_ptr()) };
    if r != 0 {
        return Err(std::io::Error::last_os_error());
    }
    unsafe { Ok((std::os::fd::OwnedFd::from_raw_fd(fds[0]), std::os::fd::OwnedFd::from_raw_fd(fds[1]))) }
}

fn unread(fd: i32) -> i32 {
    let mut n: libc::c_int = 0;
    unsafe { libc::ioctl(fd, libc::FIONREAD, &mut n) };
    n
}

impl Suite for SocketSuite {
    type Case = SocketCase;
    fn name(&self) -> &'static str {
        "listener-on-socket"
    }
    fn rule(&self) -> String {
        "rustls client hellos (as above, incl. several-record ones and single-record ones of 4-15 KiB and two-record ones of 16-24 KiB built with long ALPN lists) written to a socket pair in 1-6 generated pieces, each piece only after the listener has drained the previous one (FIONREAD), so the listener's read boundaries are exactly the cuts; the real TlsListener::listen + TlsAcceptor::accept run on the other end; oracle: reported client random is the hello's (mandatory for single-record hellos, otherwise absent is allowed), SNI and ALPN seen by the acceptor are the client's, the handshake completes on exactly the bytes sent and 4 KiB of application data echo intact both ways; non-trivial = a cut inside the first 43 bytes or a hello over several records".into()
    }
    fn strategy(&self, _: Tier) -> BoxedStrategy<SocketCase> {
        (rustls_spec(), prop::collection::vec(any::<u16>(), 0..6), 0u8..2)
            .prop_map(|(spec, cuts, proto)| SocketCase { spec, cuts, proto })
            .boxed()
    }
    fn cases(&self, tier: Tier) -> u64 {
        tier.pick(8000, 80_000)
    }
    fn classify(&self, c: &SocketCase) -> Vec<&'static str> {
        let b = first_flight(&mut rustls_client(&c.spec));
        let early = c.cuts.iter().any(|p| 1 + idx(*p, b.len().saturating_sub(1)) < 43);
        let multi = single_record(&b).is_none();
        let mut v = vec![];
        if early {
            v.push("cut-inside-random");
        }
        if b.len() > 4096 {
            v.push("hello-larger-than-4-KiB");
        }
        if b.len() > 16384 + 5 {
            v.push("hello-larger-than-the-peek-buffer");
        }
        if multi {
            v.push("several-records");
        }
        if early || multi {
            v.push("nontrivial");
        }
        v
    }
    fn required_classes(&self) -> Vec<&'static str> {
        vec!["nontrivial", "cut-inside-random", "several-records", "hello-larger-than-4-KiB", "hello-larger-than-the-peek-buffer"]
    }
    fn check(&self, c: &SocketCase) -> Verdict {
        let c = c.clone();
        aio::block_on_real(async move {
            let herr = |e: std::io::Error| engine::Violation { sig: "harness:socketpair".into(), msg: e.to_string() };
            let (a, b) = socketpair().map_err(herr)?;
            let probe = a.try_clone().map_err(herr)?; // same socket as the listener's end
            let std_srv = unsafe { std::net::TcpStream::from_raw_fd(a.into_raw_fd()) };
            std_srv.set_nonblocking(true).map_err(herr)?;
            let srv_stream = tokio::net::TcpStream::from_std(std_srv).map_err(herr)?;
            let std_cli = unsafe { std::os::unix::net::UnixStream::from_raw_fd(b.into_raw_fd()) };
            std_cli.set_nonblocking(true).map_err(herr)?;
            let mut cli = tokio::net::UnixStream::from_std(std_cli).map_err(herr)?;

            // the protocol the endpoint pins must be one the client offered (or anything without ALPN)
            let offered = |a: &str| c.spec.alpn.iter().any(|x| x == a);
            let proto = if c.spec.alpn.is_empty() {
                Some(if c.proto == 0 { Proto::Http1 } else { Proto::Http2 })
            } else if offered("h2") && (c.proto == 1 || !offered("http/1.1")) {
                Some(Proto::Http2)
            } else if offered("http/1.1") {
                Some(Proto::Http1)
            } else {
                None
            };
            let Some(proto) = proto else {
                // nothing the endpoint could negotiate: only the peek is observable
                let hello = first_flight(&mut rustls_client(&c.spec));
                let t = truth(&hello);
                let server = tokio::spawn(async move { listen(srv_stream).await.map(|p| p.client_random.clone()).map_err(|e| e.to_string()) });
                cli.write_all(&hello).await.map_err(herr)?;
                let random = tokio::time::timeout(Duration::from_secs(10), server).await;
                if let Ok(Ok(Ok(Some(r)))) = random {
                    ensure!(Some(&r) == t.as_ref(), "listen:wrong-client-random", "listener reports {}", engine::hex(&r));
                }
                return Ok(());
            };
            let server = tokio::spawn(async move {
                let peek = listen(srv_stream).await.map_err(|e| format!("listen: {}", e))?;
                let seen = (peek.client_random.clone(), peek.sni.clone(), peek.alpn.clone());
                let mut s = peek.accept(proto, &cert_path(0)).await.map_err(|e| format!("accept: {}", e))?;
                // echo
                let mut buf = vec![0u8; 4096];
                let mut got = 0;
                while got < 4096 {
                    let n = s.read(&mut buf[got..]).await.map_err(|e| format!("server read: {}", e))?;
                    if n == 0 {
                        break;
                    }
                    got += n;
                }
                s.write_all(&buf[..got]).await.map_err(|e| format!("server write: {}", e))?;
                s.flush().await.map_err(|e| format!("server flush: {}", e))?;
                Ok::<_, String>((seen, got))
            });

            let mut conn = rustls_client(&c.spec);
            let hello = first_flight(&mut conn);
            let t = truth(&hello);
            let mut cuts: Vec<usize> = c.cuts.iter().map(|p| 1 + idx(*p, hello.len().saturating_sub(1))).filter(|x| *x < hello.len()).collect();
            cuts.sort();
            cuts.dedup();
            cuts.push(hello.len());
            let mut prev = 0;
            for cut in cuts {
                cli.write_all(&hello[prev..cut]).await.map_err(herr)?;
                prev = cut;
                // wait until the listener has taken everything
                let deadline = std::time::Instant::now() + Duration::from_secs(5);
                while unread(probe.as_raw_fd()) > 0 && std::time::Instant::now() < deadline {
                    tokio::task::yield_now().await;
                }
                for _ in 0..3 {
                    tokio::task::yield_now().await;
                }
            }
            // drive the rest of the handshake by hand
            let payload: Vec<u8> = (0..4096u32).map(|i| (i * 7 + 3) as u8).collect();
            let mut sent_app = false;
            let mut echoed = vec![];
            let started = std::time::Instant::now();
            let mut buf = vec![0u8; 16384];
            loop {
                if started.elapsed() > Duration::from_secs(10) {
                    break;
                }
                while conn.wants_write() {
                    let mut out = vec![];
                    conn.write_tls(&mut out).map_err(herr)?;
                    cli.write_all(&out).await.map_err(herr)?;
                }
                if !conn.is_handshaking() && !sent_app {
                    conn.writer().write_all(&payload).map_err(herr)?;
                    sent_app = true;
                    continue;
                }
                if echoed.len() >= payload.len() {
                    break;
                }
                match tokio::time::timeout(Duration::from_secs(5), cli.read(&mut buf)).await {
                    Ok(Ok(0)) | Err(_) => break,
                    Ok(Ok(n)) => {
                        let mut rd = &buf[..n];
                        while !rd.is_empty() {
                            if conn.read_tls(&mut rd).map_err(herr)? == 0 {
                                break;
                            }
                            if let Err(e) = conn.process_new_packets() {
                                return viol("tls:handshake-broken-by-peek", format!("client-side TLS error after the peek: {}", e));
                            }
                        }
                        let mut tmp = vec![0u8; 8192];
                        while let Ok(n) = conn.reader().read(&mut tmp) {
                            if n == 0 {
                                break;
                            }
                            echoed.extend_from_slice(&tmp[..n]);
                        }
                    }
                    Ok(Err(e)) => return viol("tls:handshake-broken-by-peek", format!("client read error: {}", e)),
                }
            }
            let res = tokio::time::timeout(Duration::from_secs(10), server).await;
            let (seen, got) = match res {
                Ok(Ok(Ok(x))) => x,
                Ok(Ok(Err(e))) => return viol("tls:handshake-broken-by-peek", format!("server side failed: {} (hello {} bytes)", e, hello.len())),
                _ => return viol("tls:handshake-broken-by-peek", "server task did not finish"),
            };
            let (random, sni, alpn) = seen;
            if let Some(r) = &random {
                ensure!(Some(r) == t.as_ref(), "listen:wrong-client-random", "listener reports {} , hello carries {:?}", engine::hex(r), t.as_ref().map(|x| engine::hex(x)));
            }
            if single_record(&hello).is_some() {
                ensure!(random.is_some(), "listen:client-random-absent", "single-record hello of {} bytes: client random reported absent", hello.len());
            }
            let want_sni = c.spec.enable_sni.then(|| c.spec.sni.clone());
            ensure!(sni == want_sni, "listen:sni-differs", "acceptor saw SNI {:?}, client sent {:?}", sni, want_sni);
            let want_alpn: Vec<Vec<u8>> = c.spec.alpn.iter().map(|a| a.as_bytes().to_vec()).collect();
            ensure!(alpn == want_alpn, "listen:alpn-differs", "acceptor saw ALPN {:?}", alpn.len());
            ensure!(got == payload.len() && echoed == payload, "tls:application-data-differs", "server received {} bytes, client got {} back", got, echoed.len());
            Ok(())
        })
    }
}

pub fn run(ctx: &mut Ctx) {
    super::replay_corpus(ctx, replay);
    ctx.run_suite(&PrefixSuite);
    ctx.run_suite(&SocketSuite);
    ctx.run_suite(&super::c12quic::QuicRandomSuite);
    ctx.run_suite(&super::frontdoor::FrontDoorSuite);
    ctx.assume("hellos that span several records may be reported as absent (the statement allows absent, never another value)");
    ctx.assume("QUIC: the client random is learnt from the quiche client's TLS key log and observed through the verdict of value/mask rules over its first two bytes");
}

pub fn replay(ctx: &mut Ctx, suite: &str, case: &Value) -> bool {
    match suite {
        "extraction-prefixes" => ctx.replay_suite(&PrefixSuite, case),
        "listener-on-socket" => ctx.replay_suite(&SocketSuite, case),
        "quic-client-random" => ctx.replay_suite(&super::c12quic::QuicRandomSuite, case),
        "tls-front-door" => ctx.replay_suite(&super::frontdoor::FrontDoorSuite, case),
        _ => false,
    }
}
