//! C19 at process level: the real endpoint binary with live TLS sessions receives SIGINT; every
//! session must be wound down gracefully and the process must exit exactly when the last one is.

use crate::engine::proc::{self, Start};
use crate::engine::world::cert_path;
use crate::engine::{aio, viol, Suite, Tier, Verdict, Violation};
use crate::props::tunnelreq::b64;
use bytes::Bytes;
use proptest::prelude::*;
use serde::{Deserialize, Serialize};
use std::net::SocketAddr;
use std::sync::Arc;
use std::time::Duration;
use tokio::io::{AsyncReadExt, AsyncWriteExt};
use tokio::net::{TcpListener, TcpStream};

#[derive(Serialize, Deserialize, Debug, Clone, PartialEq)]
pub enum Session {
    /// HTTP/2 session with `n` completed health checks and no open stream
    H2Idle(u8),
    /// HTTP/2 session with `n` open CONNECT tunnels which the client ends `ms` after the signal
    H2Tunnels(u8, u16),
    /// TLS session (ALPN http/1.1) that has not sent a request yet
    H1Idle,
    /// HTTP/1.1 tunnel whose 32 KiB download was read completely before the signal
    H1Tunnel,
    /// HTTP/1.1 tunnel with an 8 MiB download the client starts reading `ms` after the signal
    H1Backpressured(u16),
    /// HTTP/3 connection (quiche) after one answered request
    H3Idle,
}

#[derive(Serialize, Deserialize, Debug, Clone)]
pub struct Case {
    pub sessions: Vec<Session>,
}

struct NoVerify;
impl rustls::client::ServerCertVerifier for NoVerify {
    fn verify_server_cert(
        &self,
        _: &rustls::Certificate,
        _: &[rustls::Certificate],
        _: &rustls::ServerName,
        _: &mut dyn Iterator<Item = &[u8]>,
        _: &[u8],
        _: std::time::SystemTime,
    ) -> Result<rustls::client::ServerCertVerified, rustls::Error> {
        Ok(rustls::client::ServerCertVerified::assertion())
    }
}

pub async fn tls_connect(addr: SocketAddr, sni: &str, alpn: &[&str]) -> std::io::Result<tokio_rustls::client::TlsStream<TcpStream>> {
    let mut cfg = rustls::ClientConfig::builder()
        .with_safe_defaults()
        .with_custom_certificate_verifier(Arc::new(NoVerify))
        .with_no_client_auth();
    cfg.alpn_protocols = alpn.iter().map(|a| a.as_bytes().to_vec()).collect();
    let sock = TcpStream::connect(addr).await?;
    sock.set_nodelay(true)?;
    let name = rustls::ServerName::try_from(sni).map_err(|e| std::io::Error::new(std::io::ErrorKind::Other, e.to_string()))?;
    tokio_rustls::TlsConnector::from(Arc::new(cfg)).connect(name, sock).await
}

pub fn pattern(off: usize, len: usize) -> Vec<u8> {
    (off..off + len).map(|i| ((i * 31 + (i >> 8) * 7) % 251) as u8).collect()
}

/// A destination that sends `size` pattern bytes (the size is taken from the first 4 bytes the
/// client sends through the tunnel) and then keeps the connection open until the peer ends it.
async fn destination(listener: TcpListener) {
    loop {
        let Ok((mut s, _)) = listener.accept().await else { return };
        tokio::spawn(async move {
            let mut hdr = [0u8; 4];
            if s.read_exact(&mut hdr).await.is_err() {
                return;
            }
            let size = u32::from_be_bytes(hdr) as usize;
            let mut off = 0;
            while off < size {
                let n = (size - off).min(64 * 1024);
                if s.write_all(&pattern(off, n)).await.is_err() {
                    return;
                }
                off += n;
            }
            let mut buf = [0u8; 4096];
            while let Ok(n) = s.read(&mut buf).await {
                if n == 0 {
                    break;
                }
            }
        });
    }
}

const SETTINGS: &str = "listen_address = \"@LISTEN@\"\ncredentials_file = \"@CRED@\"\nallow_private_network_connections = true\n[listen_protocols]\n[listen_protocols.http1]\n[listen_protocols.http2]\n[listen_protocols.quic]\n";
const CREDENTIALS: &str = "[[client]]\nusername = \"user\"\npassword = \"pass\"\n";

fn hosts() -> String {
    format!("[[main_hosts]]\nhostname = \"main.x\"\ncert_chain_path = \"{0}\"\nprivate_key_path = \"{0}\"\n", cert_path(0))
}

fn auth() -> String {
    format!("Basic {}", b64("user:pass"))
}

#[derive(Debug, Default)]
struct Seen {
    /// how the session ended, as the client saw it
    end: String,
    clean: bool,
    /// bytes of the download received / whether they are a prefix of the destination's stream
    received: usize,
    intact: bool,
    /// the process had already exited when the back-pressured client was about to start reading
    process_gone_early: bool,
    error: Option<String>,
}

type Go = tokio::sync::watch::Receiver<Option<tokio::time::Instant>>;

async fn wait_go(go: &mut Go) -> tokio::time::Instant {
    loop {
        if let Some(t) = *go.borrow() {
            return t;
        }
        if go.changed().await.is_err() {
            return tokio::time::Instant::now();
        }
    }
}

async fn h1_connect(io: &mut tokio_rustls::client::TlsStream<TcpStream>, dest: SocketAddr, size: u32) -> Result<Vec<u8>, String> {
    let req = format!("CONNECT {0} HTTP/1.1\r\nHost: {0}\r\nProxy-Authorization: {1}\r\n\r\n", dest, auth());
    io.write_all(req.as_bytes()).await.map_err(|e| e.to_string())?;
    let mut head = vec![];
    let mut b = [0u8; 1];
    while !head.ends_with(b"\r\n\r\n") {
        let n = io.read(&mut b).await.map_err(|e| e.to_string())?;
        if n == 0 {
            return Err("closed before the response".into());
        }
        head.push(b[0]);
        if head.len() > 4096 {
            return Err("response head too long".into());
        }
    }
    if !head.starts_with(b"HTTP/1.1 200") {
        return Err(format!("CONNECT answered {:?}", String::from_utf8_lossy(&head)));
    }
    io.write_all(&size.to_be_bytes()).await.map_err(|e| e.to_string())?;
    Ok(head)
}

/// read until EOF; clean = TLS close_notify seen
async fn drain(io: &mut tokio_rustls::client::TlsStream<TcpStream>, seen: &mut Seen, mut off: usize, limit: Duration) {
    let mut buf = vec![0u8; 64 * 1024];
    seen.intact = true;
    loop {
        match tokio::time::timeout(limit, io.read(&mut buf)).await {
            Err(_) => {
                seen.end = "still open".into();
                break;
            }
            Ok(Ok(0)) => {
                seen.end = "close_notify".into();
                seen.clean = true;
                break;
            }
            Ok(Ok(n)) => {
                if buf[..n] != pattern(off, n)[..] {
                    seen.intact = false;
                }
                off += n;
            }
            Ok(Err(e)) => {
                seen.end = format!("error: {}", e);
                break;
            }
        }
    }
    seen.received = off;
}

async fn run_session(
    s: Session,
    addr: SocketAddr,
    dest: SocketAddr,
    ready: tokio::sync::mpsc::Sender<()>,
    mut go: Go,
    alive: Arc<dyn Fn() -> bool + Send + Sync>,
) -> Seen {
    let mut seen = Seen::default();
    let fail = |mut seen: Seen, e: String| {
        seen.error = Some(e);
        seen
    };
    match s {
        Session::H1Idle => {
            let mut io = match tls_connect(addr, "main.x", &["http/1.1"]).await {
                Ok(x) => x,
                Err(e) => return fail(seen, e.to_string()),
            };
            let _ = ready.send(()).await;
            wait_go(&mut go).await;
            drain(&mut io, &mut seen, 0, Duration::from_secs(6)).await;
            seen
        }
        Session::H1Tunnel => {
            let mut io = match tls_connect(addr, "main.x", &["http/1.1"]).await {
                Ok(x) => x,
                Err(e) => return fail(seen, e.to_string()),
            };
            if let Err(e) = h1_connect(&mut io, dest, 32 * 1024).await {
                return fail(seen, e);
            }
            let mut got = vec![0u8; 32 * 1024];
            if let Err(e) = io.read_exact(&mut got).await {
                return fail(seen, format!("download before the signal: {}", e));
            }
            let _ = ready.send(()).await;
            wait_go(&mut go).await;
            drain(&mut io, &mut seen, 32 * 1024, Duration::from_secs(6)).await;
            seen.intact &= got == pattern(0, 32 * 1024);
            seen
        }
        Session::H1Backpressured(ms) => {
            let mut io = match tls_connect(addr, "main.x", &["http/1.1"]).await {
                Ok(x) => x,
                Err(e) => return fail(seen, e.to_string()),
            };
            if let Err(e) = h1_connect(&mut io, dest, 8 << 20).await {
                return fail(seen, e);
            }
            // let the buffers on the way fill up
            tokio::time::sleep(Duration::from_millis(150)).await;
            let _ = ready.send(()).await;
            let t0 = wait_go(&mut go).await;
            tokio::time::sleep_until(t0 + Duration::from_millis(ms as u64)).await;
            seen.process_gone_early = !alive();
            drain(&mut io, &mut seen, 0, Duration::from_secs(6)).await;
            seen
        }
        Session::H3Idle => {
            let held = crate::engine::quic::h3_hold(addr, "main.x", ready, go, Duration::from_secs(3)).await;
            if let Some(e) = held.error {
                return fail(seen, e);
            }
            if held.ping_status != Some(200) {
                return fail(seen, format!("x-ping over HTTP/3 answered {:?}", held.ping_status));
            }
            seen.intact = true;
            seen.clean = held.closed_by_peer;
            seen.end = match held.peer_error {
                Some(e) => format!("CONNECTION_CLOSE from the endpoint ({})", e),
                None => "no CONNECTION_CLOSE within 3 s of the signal".into(),
            };
            seen
        }
        Session::H2Idle(n) | Session::H2Tunnels(n, _) => {
            let io = match tls_connect(addr, "main.x", &["h2"]).await {
                Ok(x) => x,
                Err(e) => return fail(seen, e.to_string()),
            };
            let rec = Arc::new(std::sync::Mutex::new(vec![]));
            let io = crate::props::c19sess::Tee { inner: io, rec: rec.clone() };
            let (send, conn) = match h2::client::handshake(io).await {
                Ok(x) => x,
                Err(e) => return fail(seen, format!("h2 handshake: {}", e)),
            };
            let conn = tokio::spawn(conn);
            let mut open = vec![];
            for _ in 0..n {
                let tunnels = matches!(s, Session::H2Tunnels(..));
                let target = if tunnels { dest.to_string() } else { "_check".to_string() };
                let req = http::Request::builder()
                    .method("CONNECT")
                    .uri(target.as_str())
                    .header("proxy-authorization", auth())
                    .body(())
                    .unwrap();
                let mut sr = match send.clone().ready().await {
                    Ok(x) => x,
                    Err(e) => return fail(seen, format!("h2 ready: {}", e)),
                };
                let (resp, mut stream) = match sr.send_request(req, !tunnels) {
                    Ok(x) => x,
                    Err(e) => return fail(seen, format!("h2 send_request: {}", e)),
                };
                let resp = match resp.await {
                    Ok(r) => r,
                    Err(e) => return fail(seen, format!("h2 response: {}", e)),
                };
                if resp.status() != 200 {
                    return fail(seen, format!("h2 CONNECT {} answered {}", target, resp.status()));
                }
                if tunnels {
                    let _ = stream.send_data(Bytes::copy_from_slice(&(16u32 * 1024).to_be_bytes()), false);
                    let mut body = resp.into_body();
                    let mut got = 0;
                    while got < 16 * 1024 {
                        match body.data().await {
                            Some(Ok(b)) => {
                                let _ = body.flow_control().release_capacity(b.len());
                                got += b.len();
                            }
                            _ => return fail(seen, "h2 tunnel download before the signal ended early".into()),
                        }
                    }
                    open.push((stream, body));
                }
            }
            let _ = ready.send(()).await;
            let t0 = wait_go(&mut go).await;
            if let Session::H2Tunnels(_, ms) = s {
                tokio::time::sleep_until(t0 + Duration::from_millis(ms as u64)).await;
                for (mut stream, _) in open.drain(..) {
                    let _ = stream.send_data(Bytes::new(), true);
                }
            }
            match tokio::time::timeout(Duration::from_secs(6), conn).await {
                Err(_) => seen.end = "still open".into(),
                Ok(Ok(Ok(()))) => {
                    seen.end = "connection ended cleanly".into();
                    seen.clean = true;
                }
                Ok(Ok(Err(e))) => seen.end = format!("error: {}", e),
                Ok(Err(e)) => seen.end = format!("client task: {}", e),
            }
            drop(send); // kept until here: a client without handles closes the connection itself
            seen.intact = true;
            // the client library may fail writing its own last frames into the closed socket;
            // what counts is that the endpoint announced the end
            if crate::props::c19sess::has_goaway(&rec.lock().unwrap()) {
                seen.clean = true;
                seen.end = format!("GOAWAY received; {}", seen.end);
            } else {
                seen.clean = false;
                seen.end = format!("no GOAWAY received; {}", seen.end);
            }
            seen
        }
    }
}

pub struct ProcessSuite;

impl Suite for ProcessSuite {
    type Case = Case;
    fn name(&self) -> &'static str {
        "process-shutdown"
    }
    fn rule(&self) -> String {
        "the real endpoint binary (main.rs compiled by the harness build) on a loopback port with 1-5 live TLS sessions in generated states (HTTP/2 idle after 0-2 health checks, HTTP/2 with 1-3 open CONNECT tunnels that the client ends 0-400 ms after the signal, TLS session without a request, HTTP/1.1 tunnel with its download read, HTTP/1.1 tunnel with an 8 MiB download that the client only starts reading 100-600 ms after the signal, HTTP/3 connection of a quiche client after one answered request) receives SIGINT; oracle: every HTTP/1.1 session ends with a TLS close_notify and not with a bare TCP close, every HTTP/2 session receives a GOAWAY frame, every HTTP/3 connection a CONNECTION_CLOSE within 3 s, downloads are an intact prefix, the process is still there while the back-pressured session has unread data, and it exits with status 0 within 5 s after the last session ended; non-trivial = at least two sessions or a session with an open tunnel".into()
    }
    fn strategy(&self, _: Tier) -> BoxedStrategy<Case> {
        let s = prop_oneof![
            2 => (0u8..3).prop_map(Session::H2Idle),
            2 => (1u8..4, 0u16..400).prop_map(|(n, ms)| Session::H2Tunnels(n, ms)),
            1 => Just(Session::H1Idle),
            2 => Just(Session::H1Tunnel),
            2 => (100u16..600).prop_map(Session::H1Backpressured),
            2 => Just(Session::H3Idle),
        ];
        prop::collection::vec(s, 1..=5).prop_map(|sessions| Case { sessions }).boxed()
    }
    fn cases(&self, tier: Tier) -> u64 {
        tier.pick(64, 1600)
    }
    fn classify(&self, c: &Case) -> Vec<&'static str> {
        let mut v = vec![];
        for s in &c.sessions {
            v.push(match s {
                Session::H2Idle(_) => "h2-idle",
                Session::H2Tunnels(..) => "h2-open-tunnels",
                Session::H1Idle => "h1-idle",
                Session::H1Tunnel => "h1-tunnel",
                Session::H1Backpressured(_) => "h1-backpressured",
                Session::H3Idle => "h3-idle",
            });
        }
        v.sort();
        v.dedup();
        if c.sessions.len() >= 2 || c.sessions.iter().any(|s| !matches!(s, Session::H2Idle(_) | Session::H1Idle | Session::H3Idle)) {
            v.push("nontrivial");
        }
        v
    }
    fn required_classes(&self) -> Vec<&'static str> {
        vec!["nontrivial", "h2-idle", "h2-open-tunnels", "h1-idle", "h1-tunnel", "h1-backpressured", "h3-idle"]
    }
    fn check(&self, c: &Case) -> Verdict {
        let c = c.clone();
        let ep = match proc::start(SETTINGS, &hosts(), CREDENTIALS, Duration::from_secs(10), "info") {
            Start::Up(e) => e,
            Start::Exited(st, out) => return viol("harness:endpoint-did-not-start", format!("{:?} {}", st, out)),
            Start::Failed(e) => return viol("harness:endpoint-did-not-start", e),
        };
        let ep = Arc::new(std::sync::Mutex::new(ep));
        let addr = ep.lock().unwrap().addr;
        let ep2 = ep.clone();
        let alive: Arc<dyn Fn() -> bool + Send + Sync> = Arc::new(move || ep2.lock().unwrap().exited().is_none());
        let ep3 = ep.clone();
        aio::block_on_real(async move {
            let listener = TcpListener::bind("127.0.0.1:0").await.map_err(|e| Violation { sig: "harness:bind".into(), msg: e.to_string() })?;
            let dest = listener.local_addr().unwrap();
            tokio::spawn(destination(listener));
            let (ready_tx, mut ready_rx) = tokio::sync::mpsc::channel(16);
            let (go_tx, go_rx) = tokio::sync::watch::channel(None);
            let mut tasks = vec![];
            for s in &c.sessions {
                tasks.push(tokio::spawn(run_session(s.clone(), addr, dest, ready_tx.clone(), go_rx.clone(), alive.clone())));
            }
            drop(ready_tx);
            // every session reports ready (or fails and drops its sender)
            let mut ready = 0;
            while ready < c.sessions.len() {
                match tokio::time::timeout(Duration::from_secs(20), ready_rx.recv()).await {
                    Ok(Some(())) => ready += 1,
                    _ => break,
                }
            }
            tokio::time::sleep(Duration::from_millis(30)).await;
            let t0 = tokio::time::Instant::now();
            ep3.lock().unwrap().signal(libc::SIGINT);
            let _ = go_tx.send(Some(t0));
            let mut seen = vec![];
            for t in tasks {
                seen.push(t.await.unwrap_or_else(|e| Seen { error: Some(e.to_string()), ..Default::default() }));
            }
            let all_done = tokio::time::Instant::now();
            // the process must follow
            let mut status = None;
            while all_done.elapsed() < Duration::from_secs(5) {
                if let Some(st) = ep3.lock().unwrap().exited() {
                    status = Some(st);
                    break;
                }
                tokio::time::sleep(Duration::from_millis(10)).await;
            }
            for (s, o) in c.sessions.iter().zip(&seen) {
                if let Some(e) = &o.error {
                    return viol("harness:session-setup", format!("{:?}: {}", s, e));
                }
            }
            for (s, o) in c.sessions.iter().zip(&seen) {
                crate::ensure!(
                    !o.process_gone_early,
                    "process:exited-before-sessions-finished",
                    "{:?}: the process was gone while this session still had accepted data to flush (sessions: {:?})",
                    s,
                    c.sessions
                );
                crate::ensure!(o.intact, "session:download-corrupted", "{:?}: the download is not a prefix of the destination's stream ({} bytes)", s, o.received);
                crate::ensure!(
                    o.clean,
                    "session:not-closed-gracefully",
                    "{:?}: after SIGINT the session ended with {:?} instead of a graceful close (sessions: {:?})",
                    s,
                    o.end,
                    c.sessions
                );
            }
            match status {
                None => viol("process:hangs-after-all-finished", format!("every session has ended, the process is still running 5 s later (sessions: {:?})", c.sessions)),
                Some(st) if st.code() != Some(0) => viol("process:nonzero-exit", format!("exit status {:?}", st)),
                Some(_) => Ok(()),
            }
        })
    }
}
