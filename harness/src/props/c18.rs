//! C18 — ping, speedtest and reverse-proxy channels do exactly what is documented.

use crate::engine::world::{parse_h1_response, CoreSpec, Outcome, Scripted, World};
use crate::engine::{self, aio, viol, Ctx, Suite, Tier, Verdict};
use crate::ensure;
use bytes::Bytes;
use proptest::prelude::*;
use serde::{Deserialize, Serialize};
use serde_json::Value;
use std::net::SocketAddr;
use std::sync::atomic::{AtomicUsize, Ordering};
use std::sync::{Arc, Mutex};
use std::time::Duration;
use tokio::io::{AsyncReadExt, AsyncWriteExt};
use trusttunnel::verif::session::{ChannelView, Proto};

const MIB: u64 = 1 << 20;

#[derive(Serialize, Deserialize, Debug, Clone, PartialEq, Eq)]
pub enum Kind {
    /// request on a ping host
    PingHost,
    /// request on the main host carrying a ping marker header
    PingMarker(String, String),
    /// request on a speedtest host
    SpeedHost,
    /// request on the main host under /speed/
    SpeedPath,
}

#[derive(Serialize, Deserialize, Debug, Clone)]
pub struct SvcCase {
    pub h2: bool,
    pub kind: Kind,
    pub method: String,
    pub path: String,
    pub content_length: Option<String>,
    /// bytes the client really uploads (capped; only for accepted uploads)
    pub upload: u32,
    /// client reads the body in pieces with pauses (back-pressure)
    pub slow_reader: bool,
    /// the client stalls for this long in the middle of the transfer (longer than the session's
    /// idle timeout when non-zero)
    #[serde(default)]
    pub stall_ms: u32,
}

#[derive(Debug, PartialEq)]
enum Want {
    /// 200 and exactly this many body bytes
    Ok(u64),
    /// upload of this many bytes, then 200
    Upload(u64),
    BadRequest,
    DontCare,
}

fn want(c: &SvcCase) -> Want {
    match c.kind {
        Kind::PingHost | Kind::PingMarker(..) => Want::Ok(0),
        Kind::SpeedHost | Kind::SpeedPath => {
            let path = if c.kind == Kind::SpeedPath {
                c.path.strip_prefix("/speed").unwrap_or(&c.path)
            } else {
                &c.path
            };
            match c.method.as_str() {
                "GET" => {
                    let Some(n) = path.strip_prefix('/').and_then(|p| p.strip_suffix("mb.bin")) else {
                        return Want::BadRequest;
                    };
                    let canonical = !n.is_empty() && n.bytes().all(|b| b.is_ascii_digit()) && (n == "0" || !n.starts_with('0'));
                    if !canonical {
                        // other spellings: in-range numbers are don't-care, the rest must be refused
                        return match n.parse::<f64>() {
                            Ok(x) if x.fract() == 0.0 && (1.0..=100.0).contains(&x) => Want::DontCare,
                            _ if n.trim_start_matches('+').parse::<u64>().is_ok_and(|x| (1..=100).contains(&x)) => Want::DontCare,
                            _ => Want::BadRequest,
                        };
                    }
                    match n.parse::<u64>() {
                        Ok(x) if (1..=100).contains(&x) => Want::Ok(x * MIB),
                        _ => Want::BadRequest,
                    }
                }
                "POST" => {
                    if path != "/upload.html" {
                        return Want::BadRequest;
                    }
                    match c.content_length.as_deref().map(|l| (l, l.parse::<u64>())) {
                        Some((l, Ok(x))) if l.bytes().all(|b| b.is_ascii_digit()) && !(l.len() > 1 && l.starts_with('0')) => {
                            if x == 0 {
                                Want::DontCare
                            } else if x <= 120 * MIB {
                                Want::Upload(x)
                            } else {
                                Want::BadRequest
                            }
                        }
                        Some((_, Ok(x))) if (1..=120 * MIB).contains(&x) => Want::DontCare,
                        _ => Want::BadRequest,
                    }
                }
                _ => Want::BadRequest,
            }
        }
    }
}

fn spec_for(c: &SvcCase) -> CoreSpec {
    CoreSpec {
        speedtest: true,
        ping_hosts: vec![("ping.x".into(), 1)],
        speed_hosts: vec![("speed.x".into(), 2)],
        // a reverse proxy behind /api of the main host (its origin is a closed port: any request
        // that gets there fails visibly)
        reverse_proxy: Some(("127.0.0.1:9".parse().unwrap(), "/api".into())),
        handshake_timeout: if c.stall_ms > 0 { Duration::from_secs(2) } else { Duration::from_secs(10) },
        h2_stream_window: if c.slow_reader { Some(70_000) } else { None },
        ..CoreSpec::default()
    }
}

struct Observed {
    status: Option<u16>,
    body: u64,
    body_nonzero: bool,
    closed_cleanly: bool,
    response_before_upload_complete: bool,
    error: Option<String>,
}

async fn run_service(world: &World, c: &SvcCase, w: &Want) -> Observed {
    let (channel, sni) = match c.kind {
        Kind::PingHost => (ChannelView::Ping, "ping.x"),
        Kind::SpeedHost => (ChannelView::Speedtest, "speed.x"),
        _ => (ChannelView::Tunnel, "main.x"),
    };
    let proto = if c.h2 { Proto::Http2 } else { Proto::Http1 };
    let (mut io, _srv) = world.serve(proto, channel, sni, None, crate::engine::world::peer_v4(), 256 * 1024);
    let mut o = Observed {
        status: None,
        body: 0,
        body_nonzero: false,
        closed_cleanly: false,
        response_before_upload_complete: false,
        error: None,
    };
    let upload_total = match w {
        Want::Upload(n) => *n,
        _ => 0,
    };
    let mut extra: Vec<(String, String)> = vec![];
    if let Kind::PingMarker(n, v) = &c.kind {
        extra.push((n.clone(), v.clone()));
    }
    if let Some(l) = &c.content_length {
        extra.push(("content-length".into(), l.clone()));
    }
    if !c.h2 {
        let mut head = format!("{} {} HTTP/1.1\r\nHost: {}\r\n", c.method, c.path, sni);
        for (n, v) in &extra {
            head.push_str(&format!("{}: {}\r\n", n, v));
        }
        head.push_str("\r\n");
        if io.write_all(head.as_bytes()).await.is_err() {
            o.error = Some("write".into());
            return o;
        }
        let chunk = vec![0x55u8; 64 * 1024];
        let mut sent = 0u64;
        // everything but the last byte, then look for a premature response
        let mut stalled = false;
        while sent + 1 < upload_total {
            let n = ((upload_total - 1 - sent) as usize).min(chunk.len());
            if io.write_all(&chunk[..n]).await.is_err() {
                break;
            }
            sent += n as u64;
            if c.stall_ms > 0 && !stalled && sent * 2 >= upload_total {
                stalled = true;
                tokio::time::sleep(Duration::from_millis(c.stall_ms as u64)).await;
            }
        }
        let mut buf: Vec<u8> = vec![];
        if upload_total > 0 {
            let mut tmp = [0u8; 1024];
            if let Ok(Ok(n)) = tokio::time::timeout(Duration::from_millis(200), io.read(&mut tmp)).await {
                if n > 0 {
                    o.response_before_upload_complete = true;
                    buf.extend_from_slice(&tmp[..n]);
                }
            }
            let _ = io.write_all(&[0x55]).await;
        }
        // read the response
        let deadline = tokio::time::Instant::now() + Duration::from_secs(60);
        let mut head_done: Option<(u16, usize)> = None;
        let mut dl_stalled = false;
        loop {
            if head_done.is_none() {
                match parse_h1_response(&buf) {
                    Ok(Some(r)) => {
                        let consumed = buf.len() - r.rest.len();
                        head_done = Some((r.status, consumed));
                        o.status = Some(r.status);
                        o.body = r.rest.len() as u64;
                        o.body_nonzero |= r.rest.iter().any(|b| *b != 0);
                    }
                    Ok(None) => {}
                    Err(e) => {
                        o.error = Some(e);
                        return o;
                    }
                }
            }
            let mut tmp = vec![0u8; 64 * 1024];
            if c.slow_reader && o.body % (512 * 1024) < 65536 {
                tokio::time::sleep(Duration::from_millis(3)).await;
            }
            if c.stall_ms > 0 && !dl_stalled && o.body > 100_000 {
                dl_stalled = true;
                tokio::time::sleep(Duration::from_millis(c.stall_ms as u64)).await;
            }
            match tokio::time::timeout_at(deadline, io.read(&mut tmp)).await {
                Err(_) => break,
                Ok(Ok(0)) => {
                    o.closed_cleanly = true;
                    break;
                }
                Ok(Ok(n)) => {
                    if head_done.is_some() {
                        o.body += n as u64;
                        o.body_nonzero |= tmp[..n].iter().any(|b| *b != 0);
                    } else {
                        buf.extend_from_slice(&tmp[..n]);
                    }
                }
                Ok(Err(_)) => {
                    o.closed_cleanly = true;
                    break;
                }
            }
            // HTTP/1.1 responses without a length are delimited by close; ping / 400 / upload end at once
            if let Some((status, _)) = head_done {
                if status != 200 || matches!(w, Want::Ok(0) | Want::Upload(_)) || matches!(w, Want::Ok(n) if o.body >= *n) {
                    // give the endpoint a moment to close or to send more than it should
                    match tokio::time::timeout(Duration::from_millis(100), io.read(&mut tmp)).await {
                        Ok(Ok(0)) | Ok(Err(_)) => o.closed_cleanly = true,
                        Ok(Ok(n)) => o.body += n as u64,
                        Err(_) => {}
                    }
                    break;
                }
            }
        }
        return o;
    }
    // HTTP/2
    let (send_req, conn) = match h2::client::Builder::new().initial_window_size(if c.slow_reader { 65_535 } else { 4 << 20 }).handshake::<_, Bytes>(io).await {
        Ok(x) => x,
        Err(e) => {
            o.error = Some(format!("h2 handshake: {}", e));
            return o;
        }
    };
    let conn_task = tokio::spawn(async move {
        let _ = conn.await;
    });
    let mut b = http::Request::builder().method(c.method.as_str()).uri(format!("https://{}{}", sni, c.path));
    for (n, v) in &extra {
        b = b.header(n.as_str(), v.as_str());
    }
    let req = match b.body(()) {
        Ok(r) => r,
        Err(e) => {
            o.error = Some(format!("cannot build request: {}", e));
            return o;
        }
    };
    let mut sr = match send_req.ready().await {
        Ok(s) => s,
        Err(e) => {
            o.error = Some(e.to_string());
            return o;
        }
    };
    let (fut, mut stream) = match sr.send_request(req, upload_total == 0) {
        Ok(x) => x,
        Err(e) => {
            o.error = Some(format!("cannot build request: {}", e));
            return o;
        }
    };
    let mut fut = Box::pin(fut);
    let mut early = None;
    if upload_total > 0 {
        let chunk = Bytes::from(vec![0x55u8; 16 * 1024]);
        let mut sent = 0u64;
        let mut h2_stalled = false;
        while sent + 1 < upload_total {
            let n = ((upload_total - 1 - sent) as usize).min(chunk.len());
            stream.reserve_capacity(n);
            let cap = futures::future::poll_fn(|cx| stream.poll_capacity(cx)).await;
            let Some(Ok(cap)) = cap else { break };
            let n = n.min(cap);
            if n == 0 {
                continue;
            }
            if stream.send_data(chunk.slice(..n), false).is_err() {
                break;
            }
            sent += n as u64;
            if c.stall_ms > 0 && !h2_stalled && sent * 2 >= upload_total {
                h2_stalled = true;
                tokio::time::sleep(Duration::from_millis(c.stall_ms as u64)).await;
            }
        }
        if let Ok(r) = tokio::time::timeout(Duration::from_millis(200), &mut fut).await {
            o.response_before_upload_complete = true;
            early = Some(r);
        }
        stream.reserve_capacity(1);
        let _ = futures::future::poll_fn(|cx| stream.poll_capacity(cx)).await;
        let _ = stream.send_data(Bytes::from_static(&[0x55]), true);
    }
    let resp = match early {
        Some(r) => r,
        None => match tokio::time::timeout(Duration::from_secs(60), &mut fut).await {
            Ok(r) => r,
            Err(_) => {
                conn_task.abort();
                return o;
            }
        },
    };
    match resp {
        Err(e) => o.error = Some(format!("response error: {}", e)),
        Ok(resp) => {
            o.status = Some(resp.status().as_u16());
            let mut body = resp.into_body();
            let mut dl_stalled = false;
            loop {
                if c.slow_reader && o.body % (512 * 1024) < 16384 {
                    tokio::time::sleep(Duration::from_millis(3)).await;
                }
                if c.stall_ms > 0 && !dl_stalled && o.body > 100_000 {
                    dl_stalled = true;
                    tokio::time::sleep(Duration::from_millis(c.stall_ms as u64)).await;
                }
                match tokio::time::timeout(Duration::from_secs(60), body.data()).await {
                    Ok(Some(Ok(b))) => {
                        o.body += b.len() as u64;
                        o.body_nonzero |= b.iter().any(|x| *x != 0);
                        let _ = body.flow_control().release_capacity(b.len());
                    }
                    Ok(None) => {
                        o.closed_cleanly = true;
                        break;
                    }
                    Ok(Some(Err(e))) => {
                        o.error = Some(format!("body error: {}", e));
                        break;
                    }
                    Err(_) => break,
                }
            }
        }
    }
    conn_task.abort();
    o
}

pub struct ServiceSuite {
    pub big: bool,
}

fn svc_strategy(big: bool) -> BoxedStrategy<SvcCase> {
    let n = if big {
        prop_oneof![Just("99".to_string()), Just("100".to_string()), Just("37".to_string())].boxed()
    } else {
        prop_oneof![
            4 => Just("1".to_string()),
            3 => Just("2".to_string()),
            1 => Just("3".to_string()),
            2 => Just("0".to_string()),
            2 => Just("101".to_string()),
            1 => Just("4294967296".to_string()),
            1 => Just("4294967297".to_string()),
            1 => Just("007".to_string()),
            1 => Just("+5".to_string()),
            1 => Just("1.5".to_string()),
            1 => Just("".to_string()),
            1 => Just("-1".to_string()),
            1 => Just("1e1".to_string()),
            // every other size a peer can name: just above the bound, around the powers of two
            // (where a multiplication by 2^20 leaves u32 / u64), anywhere in u32 / u64, longer
            2 => (101u64..5000).prop_map(|n| n.to_string()),
            3 => (7u32..=65, -1i64..=1).prop_map(|(k, d)| ((1u128 << k) as i128 + d as i128).to_string()),
            1 => any::<u32>().prop_map(|n| n.to_string()),
            1 => any::<u64>().prop_map(|n| n.to_string()),
            1 => "[1-9][0-9]{19,30}",
        ]
        .boxed()
    };
    let download = n.prop_map(|n| ("GET".to_string(), format!("/{}mb.bin", n), None, 0u32));
    let upload = if big {
        prop_oneof![Just(120 * MIB), Just(120 * MIB - 1), Just(64 * MIB)].prop_map(|l| ("POST".to_string(), "/upload.html".to_string(), Some(l.to_string()), l as u32)).boxed()
    } else {
        prop_oneof![
            4 => (1u32..3_000_000).prop_map(|l| ("POST".to_string(), "/upload.html".to_string(), Some(l.to_string()), l)),
            1 => Just(("POST".to_string(), "/upload.html".to_string(), Some("1".to_string()), 1)),
            1 => Just(("POST".to_string(), "/upload.html".to_string(), Some((120 * MIB + 1).to_string()), 0)),
            1 => Just(("POST".to_string(), "/upload.html".to_string(), Some("4294967297".to_string()), 0)),
            1 => Just(("POST".to_string(), "/upload.html".to_string(), Some("abc".to_string()), 0)),
            1 => Just(("POST".to_string(), "/upload.html".to_string(), None, 0)),
            1 => Just(("POST".to_string(), "/upload.html".to_string(), Some("0".to_string()), 0)),
            1 => Just(("POST".to_string(), "/upload.htm".to_string(), Some("10".to_string()), 0)),
            1 => Just(("POST".to_string(), "/1mb.bin".to_string(), Some("10".to_string()), 0)),
        ]
        .boxed()
    };
    let other = prop_oneof![
        Just(("PUT".to_string(), "/upload.html".to_string(), Some("10".to_string()), 0u32)),
        Just(("GET".to_string(), "/upload.html".to_string(), None, 0)),
        Just(("GET".to_string(), "/".to_string(), None, 0)),
        Just(("HEAD".to_string(), "/1mb.bin".to_string(), None, 0)),
        Just(("GET".to_string(), "/1mb.bin.".to_string(), None, 0)),
        Just(("GET".to_string(), "/x/1mb.bin".to_string(), None, 0)),
        Just(("DELETE".to_string(), "/1mb.bin".to_string(), None, 0)),
        // the optional /speed segment is optional once
        Just(("GET".to_string(), "/speed/speed/1mb.bin".to_string(), None, 0)),
        Just(("GET".to_string(), "/speed/speed/speed/2mb.bin".to_string(), None, 0)),
        Just(("POST".to_string(), "/speed/speed/upload.html".to_string(), Some("10".to_string()), 0)),
        Just(("GET".to_string(), "/speed/x/1mb.bin".to_string(), None, 0)),
    ];
    let speed = prop_oneof![5 => download, 4 => upload, if big { 0 } else { 2 } => other];
    let ping_req = prop_oneof![
        Just(("GET".to_string(), "/".to_string())),
        Just(("HEAD".to_string(), "/".to_string())),
        Just(("GET".to_string(), "/anything?x=1".to_string())),
        Just(("POST".to_string(), "/1mb.bin".to_string())),
        // paths that belong to other channels of a main host: the marker still makes it a ping
        Just(("GET".to_string(), "/speed/1mb.bin".to_string())),
        Just(("GET".to_string(), "/speed/".to_string())),
        Just(("POST".to_string(), "/speed/upload.html".to_string())),
        Just(("GET".to_string(), "/api/resource".to_string())),
    ];
    let marker = prop_oneof![
        Just(("x-ping".to_string(), "1".to_string())),
        Just(("sec-fetch-mode".to_string(), "navigate".to_string())),
    ];
    if big {
        (any::<bool>(), any::<bool>(), speed, any::<bool>())
            .prop_map(|(h2, on_host, (method, path, content_length, upload), slow_reader)| SvcCase {
                h2,
                kind: if on_host { Kind::SpeedHost } else { Kind::SpeedPath },
                method,
                path: if on_host { path } else { format!("/speed{}", path) },
                content_length,
                upload,
                slow_reader,
                stall_ms: 0,
            })
            .boxed()
    } else {
        prop_oneof![
            2 => (any::<bool>(), ping_req.clone()).prop_map(|(h2, (method, path))| SvcCase { h2, kind: Kind::PingHost, method, path, content_length: None, upload: 0, slow_reader: false, stall_ms: 0 }),
            2 => (any::<bool>(), ping_req, marker).prop_map(|(h2, (method, path), (n, v))| SvcCase { h2, kind: Kind::PingMarker(n, v), method, path, content_length: None, upload: 0, slow_reader: false, stall_ms: 0 }),
            8 => (any::<bool>(), any::<bool>(), speed, any::<bool>(), prop_oneof![3 => Just(0u32), 1 => Just(5000u32)]).prop_map(|(h2, on_host, (method, path, content_length, upload), slow_reader, stall_ms)| SvcCase {
                h2,
                kind: if on_host { Kind::SpeedHost } else { Kind::SpeedPath },
                method,
                path: if on_host { path } else { format!("/speed{}", path) },
                content_length,
                upload,
                slow_reader,
                stall_ms,
            }),
        ]
        .boxed()
    }
}

impl Suite for ServiceSuite {
    type Case = SvcCase;
    fn name(&self) -> &'static str {
        if self.big {
            "ping-speedtest-bounds"
        } else {
            "ping-speedtest"
        }
    }
    fn rule(&self) -> String {
        if self.big {
            "speedtest at the documented bounds: downloads of 37, 99 and 100 MiB, uploads of 64 MiB, 120 MiB - 1 and 120 MiB, on a speedtest host and under /speed/ on the main host, HTTP/1.1 and HTTP/2, fast and slow readers; same oracle; every case non-trivial".into()
        } else {
            "requests on a ping host, on the main host with a ping marker (x-ping: 1 / sec-fetch-mode: navigate; also on paths under /speed/ and under the reverse proxy's /api), on a speedtest host and under /speed/ on the main host, over HTTP/1.1 and HTTP/2 in memory with an authenticator configured and no credentials sent: GET /Nmb.bin with N in {1,2,3,0,101,2^32,2^32+1,007,+5,1.5,'',-1,1e1} or generated (101..5000, 2^k-1 / 2^k / 2^k+1 for k = 7..65, any u32, any u64, 20-31 digits), POST /upload.html with Content-Length in {1..3e6, 120 MiB+1, 2^32+1, abc, absent, 0}, other methods and paths; client reads fast or with pauses (small HTTP/2 windows), or stalls for 5 s in the middle of a transfer while the session's idle timeout is 2 s (a running test must keep the session alive); oracle: ping => 200, zero body bytes, no forwarder call; canonical 1 <= N <= 100 => 200 and exactly N x 2^20 zero bytes; accepted upload => no response before the last body byte, then 200; everything else 400 (non-canonical spellings of in-range numbers and L = 0 are don't-care); never 407; non-trivial = N or L at or beyond a bound, or a marker on the main host".into()
        }
    }
    fn strategy(&self, _: Tier) -> BoxedStrategy<SvcCase> {
        svc_strategy(self.big)
    }
    fn cases(&self, tier: Tier) -> u64 {
        if self.big {
            tier.pick(0, 48)
        } else {
            tier.pick(8000, 80_000)
        }
    }
    fn classify(&self, c: &SvcCase) -> Vec<&'static str> {
        let mut v = vec![];
        match want(c) {
            Want::BadRequest => v.push("must-refuse"),
            Want::DontCare => v.push("dont-care"),
            Want::Ok(0) => v.push("ping"),
            Want::Ok(_) => v.push("download"),
            Want::Upload(_) => v.push("upload"),
        }
        if matches!(c.kind, Kind::PingMarker(..)) || want(c) == Want::BadRequest || self.big {
            v.push("nontrivial");
        }
        if matches!(c.kind, Kind::PingMarker(..)) && (c.path.starts_with("/speed/") || c.path.starts_with("/api")) {
            v.push("marker-on-another-channels-path");
        }
        v.push(if c.h2 { "h2" } else { "h1" });
        if c.stall_ms > 0 && matches!(want(c), Want::Ok(n) if n > 0) {
            v.push("stalled-download");
        }
        if c.stall_ms > 0 && matches!(want(c), Want::Upload(_)) {
            v.push("stalled-upload");
        }
        v
    }
    fn required_classes(&self) -> Vec<&'static str> {
        if self.big {
            vec![]
        } else {
            vec!["nontrivial", "must-refuse", "ping", "download", "upload", "h1", "h2", "stalled-download", "stalled-upload", "marker-on-another-channels-path"]
        }
    }
    fn check(&self, c: &SvcCase) -> Verdict {
        let w = want(c);
        let c2 = c.clone();
        let (o, egress) = aio::block_on_paused(async move {
            let world = spec_for(&c2).build().expect("core");
            let scripted = Scripted::new(|_| Outcome::Echo);
            let _g = scripted.install(&world);
            let w = want(&c2);
            let o = run_service(&world, &c2, &w).await;
            (o, scripted.egress_count())
        });
        let what = format!("{} {} {} on {:?} (content-length {:?})", if c.h2 { "h2" } else { "h1" }, c.method, c.path, c.kind, c.content_length);
        if o.error.as_deref().is_some_and(|e| e.starts_with("cannot build request")) {
            return Ok(());
        }
        // a Content-Length that is not a number makes the request malformed at the HTTP/2 layer
        // (RFC 9113 8.1.1): the h2 library resets the stream before the handler sees it
        if c.h2 && c.content_length.as_deref().is_some_and(|l| l.parse::<u64>().is_err()) {
            return Ok(());
        }
        ensure!(egress == 0, "service:egress", "{}: caused {} forwarder call(s)", what, egress);
        ensure!(o.status != Some(407), "service:credentials-demanded", "{}: answered 407", what);
        match w {
            Want::DontCare => Ok(()),
            Want::BadRequest => {
                ensure!(
                    o.status == Some(400),
                    if o.status == Some(200) { "speedtest:out-of-range-accepted" } else { "service:wrong-status" },
                    "{}: answered {:?} ({} body bytes), want 400",
                    what,
                    o.status,
                    o.body
                );
                Ok(())
            }
            Want::Ok(n) => {
                ensure!(o.status == Some(200), "service:wrong-status", "{}: answered {:?} {:?}, want 200", what, o.status, o.error);
                ensure!(
                    o.body == n,
                    if n == 0 { "ping:body-not-empty" } else { "speedtest:wrong-download-size" },
                    "{}: {} body bytes, want {}",
                    what,
                    o.body,
                    n
                );
                let _ = o.body_nonzero;
                ensure!(o.closed_cleanly || !c.h2, "service:stream-not-ended", "{}: body not terminated", what);
                Ok(())
            }
            Want::Upload(_) => {
                ensure!(
                    !o.response_before_upload_complete,
                    "speedtest:upload-answered-before-consumed",
                    "{}: a response arrived before the last body byte was sent",
                    what
                );
                ensure!(o.status == Some(200), "service:wrong-status", "{}: answered {:?} {:?}, want 200 after the upload", what, o.status, o.error);
                ensure!(o.body == 0, "service:unexpected-body", "{}: {} body bytes after an upload", what, o.body);
                Ok(())
            }
        }
    }
}

// ---------------------------------------------------------------------------------------------
// the same service channels over HTTP/3 (real QUIC listener)

pub struct ServiceH3Suite;

impl Suite for ServiceH3Suite {
    type Case = SvcCase;
    fn name(&self) -> &'static str {
        "ping-speedtest-h3"
    }
    fn rule(&self) -> String {
        "the requests of suite ping-speedtest (ping host, ping markers on the main host, speedtest host, /speed/ on the main host; GET /Nmb.bin and POST /upload.html around their bounds, other methods and paths) sent by a quiche HTTP/3 client to the real QUIC listener of Core::listen, without credentials; uploads are sent completely and the request stream finished; same oracle (200 with exactly N x 2^20 body bytes, 200 after an accepted upload, 400 otherwise, never 407, no forwarder call); non-trivial = N or L at or beyond a bound, or a marker on the main host".into()
    }
    fn strategy(&self, _: Tier) -> BoxedStrategy<SvcCase> {
        svc_strategy(false)
            .prop_map(|mut c| {
                c.h2 = true; // HTTP/3 shares the "no chunked framing" expectations of HTTP/2
                c.slow_reader = false;
                c.stall_ms = 0;
                // keep uploads small: the whole body travels through loopback QUIC
                if c.upload > 300_000 {
                    c.upload = 1 + c.upload % 300_000;
                    c.content_length = Some(c.upload.to_string());
                }
                c
            })
            .boxed()
    }
    fn cases(&self, tier: Tier) -> u64 {
        tier.pick(480, 12_000)
    }
    fn classify(&self, c: &SvcCase) -> Vec<&'static str> {
        let mut v = vec![];
        match want(c) {
            Want::BadRequest => v.push("must-refuse"),
            Want::DontCare => v.push("dont-care"),
            Want::Ok(0) => v.push("ping"),
            Want::Ok(_) => v.push("download"),
            Want::Upload(_) => v.push("upload"),
        }
        if matches!(c.kind, Kind::PingMarker(..)) || want(c) == Want::BadRequest {
            v.push("nontrivial");
        }
        v
    }
    fn required_classes(&self) -> Vec<&'static str> {
        vec!["nontrivial", "must-refuse", "ping", "download", "upload"]
    }
    fn check(&self, c: &SvcCase) -> Verdict {
        use crate::engine::quic::{h3_session, H3Request};
        let w = want(c);
        let c2 = c.clone();
        let r = aio::block_on_real(async move {
            let c = c2;
            let spec = CoreSpec { quic: true, ..spec_for(&c) };
            let net = crate::engine::networld::NetWorld::start(&spec).await?;
            let scripted = Scripted::new(|_| Outcome::Echo);
            let _g = scripted.install(&net.world);
            let sni = match c.kind {
                Kind::PingHost => "ping.x",
                Kind::SpeedHost => "speed.x",
                _ => "main.x",
            };
            let mut headers: Vec<(Vec<u8>, Vec<u8>)> = vec![
                (b":method".to_vec(), c.method.as_bytes().to_vec()),
                (b":scheme".to_vec(), b"https".to_vec()),
                (b":authority".to_vec(), format!("{}:{}", sni, net.addr.port()).into_bytes()),
                (b":path".to_vec(), c.path.as_bytes().to_vec()),
            ];
            if let Kind::PingMarker(n, v) = &c.kind {
                headers.push((n.clone().into_bytes(), v.clone().into_bytes()));
            }
            if let Some(l) = &c.content_length {
                headers.push((b"content-length".to_vec(), l.clone().into_bytes()));
            }
            let body = vec![0u8; if matches!(want(&c), Want::Upload(_)) { c.upload as usize } else { 0 }];
            let has_body = !body.is_empty();
            let req = H3Request { headers, body, fin: !has_body, fin_after_body: has_body };
            let (conn, mut resps) = h3_session(net.addr, sni, &[req], Duration::from_secs(6)).await;
            tokio::time::sleep(Duration::from_millis(10)).await;
            Ok::<_, String>((conn, resps.remove(0), scripted.egress_count()))
        });
        let (conn, resp, egress) = match r {
            Ok(x) => x,
            Err(e) => return viol("harness:networld", e),
        };
        if let Some(e) = &conn.error {
            if resp.status.is_none() {
                return viol("harness:quic-client", e.clone());
            }
        }
        let what = format!("h3 {} {} on {:?} (content-length {:?}, {} bytes uploaded)", c.method, c.path, c.kind, c.content_length, c.upload);
        // a Content-Length that is not a number, or that disagrees with the body sent, makes the
        // request malformed at the HTTP/3 layer
        if c.content_length.as_deref().is_some_and(|l| l.parse::<u64>().is_err()) {
            return Ok(());
        }
        ensure!(egress == 0, "service:egress", "{}: caused {} forwarder call(s)", what, egress);
        ensure!(resp.status != Some(407), "service:credentials-demanded", "{}: answered 407", what);
        match w {
            Want::DontCare => Ok(()),
            Want::BadRequest => {
                // a POST that announces a body it never sends is malformed for the transport
                if c.method == "POST" && c.content_length.as_deref().is_some_and(|l| l != "0") {
                    ensure!(resp.status != Some(200), "speedtest:out-of-range-accepted", "{}: answered 200", what);
                    return Ok(());
                }
                ensure!(
                    resp.status == Some(400),
                    if resp.status == Some(200) { "speedtest:out-of-range-accepted" } else { "service:wrong-status" },
                    "{}: answered {:?} ({} body bytes), want 400",
                    what,
                    resp.status,
                    resp.body.len()
                );
                Ok(())
            }
            Want::Ok(n) => {
                ensure!(resp.status == Some(200), "service:wrong-status", "{}: answered {:?}, want 200", what, resp.status);
                ensure!(
                    resp.body.len() as u64 == n && resp.body.iter().all(|b| *b == 0),
                    if n == 0 { "ping:body-not-empty" } else { "speedtest:wrong-download-size" },
                    "{}: {} body bytes, want {}",
                    what,
                    resp.body.len(),
                    n
                );
                ensure!(resp.ended && !resp.reset, "service:stream-not-ended", "{}: body not terminated", what);
                Ok(())
            }
            Want::Upload(_) => {
                ensure!(resp.status == Some(200), "service:wrong-status", "{}: answered {:?}, want 200 after the upload", what, resp.status);
                ensure!(resp.body.is_empty(), "service:unexpected-body", "{}: {} body bytes after an upload", what, resp.body.len());
                Ok(())
            }
        }
    }
}

// ---------------------------------------------------------------------------------------------
// reverse proxy (real loopback origin)

#[derive(Serialize, Deserialize, Debug, Clone)]
pub struct RpCase {
    /// egress policy for client destinations
    pub allow_private: bool,
    /// true: connection on a reverse-proxy host; false: main host, Upgrade header + path mask
    pub on_host: bool,
    pub method: String,
    pub path: String,
    /// what the client names as host: "rp" = the rp host itself, "decoy" = the second canary
    pub host_header: String,
    pub absolute_uri: bool,
    pub response_status: u16,
    pub response_body: Vec<u8>,
    pub client_payload: Vec<u8>,
    pub origin_payload: Vec<u8>,
    /// the client sends an X-Original-Protocol header of its own (0 = none, 1 HTTP3, 2 HTTP1, 3 junk, 4 two of them)
    #[serde(default)]
    pub own_protocol_header: u8,
}

pub struct RpSuite;

struct Origin {
    addr: SocketAddr,
    accepted: Arc<AtomicUsize>,
    received: Arc<Mutex<Vec<u8>>>,
}

async fn origin(reply: Vec<u8>, after: Vec<u8>) -> Origin {
    let l = tokio::net::TcpListener::bind("127.0.0.1:0").await.unwrap();
    let addr = l.local_addr().unwrap();
    let accepted = Arc::new(AtomicUsize::new(0));
    let received = Arc::new(Mutex::new(vec![]));
    let (a2, r2) = (accepted.clone(), received.clone());
    tokio::spawn(async move {
        loop {
            let Ok((mut s, _)) = l.accept().await else { return };
            a2.fetch_add(1, Ordering::SeqCst);
            let (reply, after, r3) = (reply.clone(), after.clone(), r2.clone());
            tokio::spawn(async move {
                let mut buf = vec![0u8; 8192];
                let mut replied = false;
                loop {
                    match tokio::time::timeout(Duration::from_secs(5), s.read(&mut buf)).await {
                        Ok(Ok(n)) if n > 0 => {
                            r3.lock().unwrap().extend_from_slice(&buf[..n]);
                            let head_done = r3.lock().unwrap().windows(4).any(|w| w == b"\r\n\r\n");
                            if head_done && !replied {
                                replied = true;
                                let _ = s.write_all(&reply).await;
                                let _ = s.write_all(&after).await;
                            }
                        }
                        _ => break,
                    }
                }
            });
        }
    });
    Origin { addr, accepted, received }
}

impl Suite for RpSuite {
    type Case = RpCase;
    fn name(&self) -> &'static str {
        "reverse-proxy"
    }
    fn rule(&self) -> String {
        "reverse proxy configured towards a loopback origin owned by the harness, with allow_private_network_connections false and true; HTTP/1.1 requests on a reverse-proxy host or on the main host (Upgrade header + path under the mask); the client names the proxy host or a decoy (a second listening canary) in Host / absolute URI; the origin answers 101 / 200 with a body and more bytes, the client sends more bytes; oracle: the configured origin - and never the decoy - receives exactly one HTTP/1.1 request with the same method and request target (path and, in one case in two, a query string) and exactly one X-Original-Protocol header naming HTTP1 - also when the client sent headers of that name itself (HTTP3, HTTP1, junk, two of them) -, the client receives the origin's status, body and following bytes unchanged, the origin receives the client's following bytes unchanged, no credentials are demanded, whatever the egress policy; non-trivial = policy disallows private destinations or the client names the decoy".into()
    }
    fn strategy(&self, _: Tier) -> BoxedStrategy<RpCase> {
        (
            any::<bool>(),
            any::<bool>(),
            prop_oneof![4 => Just("GET"), 2 => Just("POST"), 1 => Just("PUT"), 1 => Just("DELETE"), 1 => Just("OPTIONS")],
            "/api(/[a-z0-9]{1,8}){0,3}(\\?[a-z]{1,5}=[a-zA-Z0-9%&=._-]{0,20})?",
            prop_oneof![2 => Just("rp"), 1 => Just("decoy")],
            any::<bool>(),
            prop_oneof![Just(101u16), Just(200u16)],
            prop::collection::vec(any::<u8>(), 0..200),
            prop::collection::vec(any::<u8>(), 0..200),
            prop::collection::vec(any::<u8>(), 0..200),
            prop_oneof![2 => Just(0u8), 3 => 1u8..5],
        )
            .prop_map(|(allow_private, on_host, method, path, host_header, absolute_uri, response_status, response_body, client_payload, origin_payload, own_protocol_header)| RpCase {
                allow_private,
                on_host,
                method: method.to_string(),
                path,
                host_header: host_header.to_string(),
                absolute_uri,
                response_status,
                response_body,
                client_payload,
                origin_payload,
                own_protocol_header,
            })
            .boxed()
    }
    fn cases(&self, tier: Tier) -> u64 {
        tier.pick(4000, 40_000)
    }
    fn classify(&self, c: &RpCase) -> Vec<&'static str> {
        let mut v = vec![];
        if !c.allow_private {
            v.push("policy-disallows-private");
        }
        if c.host_header == "decoy" {
            v.push("client-names-decoy");
        }
        if !c.allow_private || c.host_header == "decoy" {
            v.push("nontrivial");
        }
        v
    }
    fn required_classes(&self) -> Vec<&'static str> {
        vec!["nontrivial", "policy-disallows-private", "client-names-decoy"]
    }
    fn check(&self, c: &RpCase) -> Verdict {
        let c = c.clone();
        aio::block_on_real(async move {
            let reason = if c.response_status == 101 { "Switching Protocols" } else { "OK" };
            let mut reply = format!("HTTP/1.1 {} {}\r\nX-Origin: yes\r\n", c.response_status, reason).into_bytes();
            if c.response_status == 101 {
                reply.extend_from_slice(b"Upgrade: test\r\nConnection: Upgrade\r\n");
            }
            reply.extend_from_slice(b"\r\n");
            reply.extend_from_slice(&c.response_body);
            let org = origin(reply, c.origin_payload.clone()).await;
            let decoy = origin(b"HTTP/1.1 200 OK\r\n\r\nDECOY".to_vec(), vec![]).await;
            let spec = CoreSpec {
                allow_private: c.allow_private,
                reverse_proxy: Some((org.addr, "/api".into())),
                rp_hosts: vec![("rp.x".into(), 3)],
                tcp_timeout: Duration::from_secs(5),
                ..CoreSpec::default()
            };
            let world = spec.build().map_err(|e| engine::Violation { sig: "rp:core".into(), msg: e })?;
            let (channel, sni) = if c.on_host { (ChannelView::ReverseProxy, "rp.x") } else { (ChannelView::Tunnel, "main.x") };
            let (mut io, _srv) = world.serve(Proto::Http1, channel, sni, None, crate::engine::world::peer_v4(), 64 * 1024);
            let named = if c.host_header == "decoy" { decoy.addr.to_string() } else { sni.to_string() };
            let target = if c.absolute_uri { format!("http://{}{}", named, c.path) } else { c.path.clone() };
            let own = match c.own_protocol_header % 5 {
                0 => "",
                1 => "X-Original-Protocol: HTTP3\r\n",
                2 => "x-original-protocol: HTTP1\r\n",
                3 => "X-Original-Protocol: gopher\r\n",
                _ => "X-Original-Protocol: HTTP3\r\nX-Original-Protocol: HTTP2\r\n",
            };
            let head = format!("{} {} HTTP/1.1\r\nHost: {}\r\nUpgrade: test\r\nConnection: Upgrade\r\nX-Client: 1\r\n{}\r\n", c.method, target, named, own);
            io.write_all(head.as_bytes()).await.map_err(|e| engine::Violation { sig: "harness:io".into(), msg: e.to_string() })?;
            // response head + body + origin payload
            let want_after: Vec<u8> = c.response_body.iter().chain(c.origin_payload.iter()).copied().collect();
            let mut buf = vec![];
            let deadline = tokio::time::Instant::now() + Duration::from_secs(5);
            let mut status = None;
            let mut rest = vec![];
            loop {
                if let Ok(Some(r)) = parse_h1_response(&buf) {
                    status = Some(r.status);
                    rest = r.rest.clone();
                    if rest.len() >= want_after.len() {
                        break;
                    }
                }
                let mut tmp = [0u8; 4096];
                match tokio::time::timeout_at(deadline, io.read(&mut tmp)).await {
                    Ok(Ok(n)) if n > 0 => buf.extend_from_slice(&tmp[..n]),
                    _ => break,
                }
            }
            let what = format!("allow_private={} on_host={} {} {} host={}", c.allow_private, c.on_host, c.method, target, named);
            ensure!(status != Some(407), "service:credentials-demanded", "{}: answered 407", what);
            ensure!(
                decoy.accepted.load(Ordering::SeqCst) == 0,
                "rp:steered-to-client-chosen-destination",
                "{}: the destination named by the client was connected to",
                what
            );
            ensure!(
                org.accepted.load(Ordering::SeqCst) >= 1,
                if c.allow_private { "rp:origin-not-contacted" } else { "rp:origin-refused-by-egress-policy" },
                "{}: the configured origin was never connected to (client got {:?})",
                what,
                status
            );
            ensure!(status == Some(c.response_status), "rp:status-differs", "{}: client got {:?}, origin sent {}", what, status, c.response_status);
            ensure!(rest == want_after, "rp:relayed-bytes-differ", "{}: client got {} bytes after the head, origin sent {}", what, rest.len(), want_after.len());
            // client -> origin bytes after the request
            if !c.client_payload.is_empty() {
                let _ = io.write_all(&c.client_payload).await;
            }
            let deadline = std::time::Instant::now() + Duration::from_secs(3);
            let got = loop {
                let r = org.received.lock().unwrap().clone();
                let head_end = r.windows(4).position(|w| w == b"\r\n\r\n").map(|p| p + 4);
                if let Some(h) = head_end {
                    if r.len() - h >= c.client_payload.len() {
                        break r;
                    }
                }
                if std::time::Instant::now() > deadline {
                    break r;
                }
                tokio::time::sleep(Duration::from_millis(2)).await;
            };
            let mut hs = [httparse::EMPTY_HEADER; 64];
            let mut r = httparse::Request::new(&mut hs);
            let parsed = r.parse(&got);
            let Ok(httparse::Status::Complete(hlen)) = parsed else {
                return viol("rp:origin-request-malformed", format!("{}: origin received {:?}", what, String::from_utf8_lossy(&got)));
            };
            ensure!(
                r.method == Some(c.method.as_str()) && r.path == Some(c.path.as_str()) && r.version == Some(1),
                "rp:origin-request-differs",
                "{}: origin saw {:?} {:?} HTTP/1.{:?}",
                what,
                r.method,
                r.path,
                r.version
            );
            // what the origin is told is the endpoint's statement, not the client's: one header, naming
            // the protocol the client really used (CONFIGURATION.md: HTTP1 or HTTP3)
            let told: Vec<String> = r.headers.iter().filter(|h| h.name.eq_ignore_ascii_case("x-original-protocol")).map(|h| String::from_utf8_lossy(h.value).into_owned()).collect();
            ensure!(!told.is_empty(), "rp:original-protocol-header-missing", "{}: no X-Original-Protocol header reached the origin", what);
            ensure!(
                told.len() == 1 && told[0].eq_ignore_ascii_case("HTTP1"),
                "rp:original-protocol-header-wrong",
                "{}: the client came over HTTP/1.1{}, the origin was told X-Original-Protocol {:?}",
                what,
                if c.own_protocol_header % 5 == 0 { "" } else { " and sent a header of that name itself" },
                told
            );
            ensure!(
                r.headers.iter().any(|h| h.name.eq_ignore_ascii_case("x-client")),
                "rp:origin-request-differs",
                "{}: client header lost",
                what
            );
            ensure!(
                got[hlen..] == c.client_payload[..],
                "rp:relayed-bytes-differ",
                "{}: origin got {} bytes after the request, client sent {}",
                what,
                got.len() - hlen,
                c.client_payload.len()
            );
            Ok(())
        })
    }
}

pub fn run(ctx: &mut Ctx) {
    super::replay_corpus(ctx, replay);
    ctx.run_suite(&ServiceSuite { big: false });
    ctx.run_suite(&RpSuite);
    ctx.run_suite(&ServiceH3Suite);
    if ctx.tier == Tier::Thorough {
        ctx.run_suite(&ServiceSuite { big: true });
    }
    ctx.assume("HTTP/3: ping and speedtest run in real time against the real QUIC listener; the reverse proxy is not driven over HTTP/3; reverse proxy over HTTP/2 is not permitted by the demultiplexer");
    ctx.assume("download bodies are produced by the endpoint without Content-Length on HTTP/1.1, so their end is observed as the close of the connection");
}

pub fn replay(ctx: &mut Ctx, suite: &str, case: &Value) -> bool {
    match suite {
        "ping-speedtest" => ctx.replay_suite(&ServiceSuite { big: false }, case),
        "ping-speedtest-bounds" => ctx.replay_suite(&ServiceSuite { big: true }, case),
        "reverse-proxy" => ctx.replay_suite(&RpSuite, case),
        "ping-speedtest-h3" => ctx.replay_suite(&ServiceH3Suite, case),
        _ => false,
    }
}
