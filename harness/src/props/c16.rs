//! C16 — metrics equal the live objects and relayed bytes, and are exported.

use crate::engine::world::{parse_h1_response, CoreSpec, World};
use crate::engine::{self, aio, idx, viol, Ctx, Suite, Tier, Verdict, Violation};
use crate::ensure;
use crate::props::tunnelreq::b64;
use bytes::Bytes;
use proptest::prelude::*;
use serde::{Deserialize, Serialize};
use serde_json::Value;
use std::collections::BTreeMap;
use std::time::Duration;
use tokio::io::{AsyncReadExt, AsyncWriteExt, DuplexStream};
use tokio::net::{TcpListener, TcpStream};
use tokio::sync::mpsc;
use trusttunnel::verif::session::{ChannelView, Proto};

#[derive(Serialize, Deserialize, Debug, Clone, PartialEq, Eq)]
pub enum Op {
    OpenH1,
    OpenH2,
    /// open a tunnel on HTTP/2 session (index) that succeeds
    TunnelOk(u16),
    /// a tunnel whose destination refuses the connection
    TunnelRefused(u16),
    /// move bytes through tunnel (index): (client -> destination, destination -> client)
    Transfer(u16, u16, u16),
    /// a download of 100-400 KB on a tunnel while the client withholds window updates until its
    /// window is exhausted (the endpoint's client-side sink accepts chunks only partially)
    BigDownload(u16, u16),
    /// 0 client ends first (graceful), 1 client resets / drops, 2 destination ends first
    CloseTunnel(u16, u8),
    CloseSession(u16),
    Scrape,
    /// open a UDP multiplexer (CONNECT _udp2) on HTTP/2 session (index)
    UdpMux(u16),
    /// client datagram of this many payload bytes on flow (0..3) of multiplexer (index)
    UdpSend(u16, u8, u16),
    /// the destination of that flow sends n datagrams of this size; the client reads them as
    /// they come (true) or only afterwards, without opening its window meanwhile (false:
    /// datagrams beyond the window are dropped by the endpoint)
    UdpReplies(u16, u8, u8, u16, bool),
    CloseUdpMux(u16),
    /// 2-4 equal datagrams back to back to a closed UDP port on multiplexer (index) - the kernel
    /// refuses every second one - then the multiplexer is closed
    UdpBurstToClosedPort(u16, u8, u16),
    /// 1-3 queries from a fresh source port to a resolver on port 53 on multiplexer (index); the
    /// resolver answers all of them (true: the flow is complete and its socket released while
    /// the multiplexer stays open) or all but the last (false: the flow lives on)
    #[serde(alias = "UdpDns")]
    UdpDnsExchange(u16, u8, bool),
    /// the destination of an HTTP/2 tunnel (index) ends its sending direction and keeps reading:
    /// the tunnel and its outbound connection live on
    DestHalfClose(u16),
    /// a UDP destination goes away and comes back on the same port while a flow of multiplexer
    /// (index) points at it: datagram, destination closed, datagram (refused by the kernel),
    /// destination back with an empty datagram towards the flow (the pending socket error
    /// surfaces on the endpoint's read path), datagram - which must be delivered
    UdpPeerRestart(u16, u16),
}

#[derive(Serialize, Deserialize, Debug, Clone)]
pub struct Case {
    pub ops: Vec<Op>,
}

/// name -> (labels as sorted text) -> value
pub type Scrape = BTreeMap<String, BTreeMap<String, f64>>;

pub fn parse_prometheus(text: &str) -> Scrape {
    let mut out: Scrape = BTreeMap::new();
    for line in text.lines() {
        let line = line.trim();
        if line.is_empty() || line.starts_with('#') {
            continue;
        }
        let Some((lhs, val)) = line.rsplit_once(' ') else { continue };
        let Ok(val) = val.parse::<f64>() else { continue };
        let (name, labels) = match lhs.split_once('{') {
            Some((n, l)) => (n.to_string(), l.trim_end_matches('}').to_ascii_lowercase()),
            None => (lhs.to_string(), String::new()),
        };
        out.entry(name).or_default().insert(labels, val);
    }
    out
}

fn series_names() -> Vec<String> {
    // the documented names are read from METRICS.md at run time
    let text = std::fs::read_to_string("/repo/METRICS.md").unwrap_or_default();
    let mut v: Vec<String> = text
        .lines()
        .filter_map(|l| l.trim().strip_prefix("**Name:** `"))
        .filter_map(|l| l.strip_suffix('`'))
        .map(String::from)
        .collect();
    if v.is_empty() {
        v = ["client_sessions", "inbound_traffic_bytes", "outbound_traffic_bytes", "outbound_tcp_sockets", "outbound_udp_sockets"]
            .iter()
            .map(|s| s.to_string())
            .collect();
    }
    v
}

#[derive(Default, Debug, Clone, PartialEq)]
struct Model {
    sessions: BTreeMap<&'static str, i64>,
    tcp: i64,
    udp: i64,
    up: BTreeMap<&'static str, u64>,
    down: BTreeMap<&'static str, u64>,
}

struct Dest {
    conn: TcpStream,
    /// the destination has ended its sending direction (FIN) and keeps reading
    half_closed: bool,
}

enum ClientSide {
    H1(DuplexStream),
    H2 { send: h2::SendStream<Bytes>, recv: h2::RecvStream },
}

struct Tunnel {
    session: usize,
    proto: &'static str,
    client: Option<ClientSide>,
    dest: Option<Dest>,
}

struct UdpMuxState {
    session: usize,
    send: Option<h2::SendStream<Bytes>>,
    recv: Option<h2::RecvStream>,
    /// flow -> the endpoint's outbound socket for it (as the destination sees it)
    flows: BTreeMap<u8, std::net::SocketAddr>,
    buf: Vec<u8>,
}

/// Take every complete 6.4 record out of `buf`; returns the payload bytes they carried
fn take_records(buf: &mut Vec<u8>) -> u64 {
    let mut bytes = 0u64;
    loop {
        if buf.len() < 4 {
            return bytes;
        }
        let len = u32::from_be_bytes([buf[0], buf[1], buf[2], buf[3]]) as usize;
        if buf.len() < 4 + len {
            return bytes;
        }
        let rec: Vec<u8> = buf.drain(..4 + len).collect();
        if let Some((_, _, payload)) = crate::reference::udpmux::decode_out(&rec) {
            bytes += payload.len() as u64;
        }
    }
}

enum Session {
    /// an HTTP/1.1 connection that has not sent its request yet
    H1Idle(DuplexStream),
    H1Used,
    H2 { send: h2::client::SendRequest<Bytes>, conn: tokio::task::JoinHandle<()> },
    Closed,
}

fn gauge(s: &Scrape, name: &str, label: &str) -> f64 {
    s.get(name)
        .map(|m| {
            if label.is_empty() {
                m.values().sum()
            } else {
                m.iter().filter(|(k, _)| k.contains(&label.to_ascii_lowercase())).map(|(_, v)| *v).sum()
            }
        })
        .unwrap_or(0.0)
}

fn compare(model: &Model, s: &Scrape, swapped: Option<bool>) -> Result<Option<bool>, Violation> {
    for (p, n) in &model.sessions {
        let g = gauge(s, "client_sessions", &format!("\"{}\"", p));
        if g != *n as f64 {
            return Err(Violation { sig: "metrics:client-sessions".into(), msg: format!("client_sessions{{{}}} = {}, live sessions = {}", p, g, n) });
        }
    }
    let g = gauge(s, "outbound_tcp_sockets", "");
    if g != model.tcp as f64 {
        return Err(Violation { sig: "metrics:outbound-tcp-sockets".into(), msg: format!("outbound_tcp_sockets = {}, live outbound connections = {}", g, model.tcp) });
    }
    let g = gauge(s, "outbound_udp_sockets", "");
    if g != model.udp as f64 {
        return Err(Violation { sig: "metrics:outbound-udp-sockets".into(), msg: format!("outbound_udp_sockets = {}, live UDP flows = {}", g, model.udp) });
    }
    // traffic: either consistent assignment of the two series to the two directions
    let mut assignment = swapped;
    for p in ["http1", "http2"] {
        let up = *model.up.get(p).unwrap_or(&0) as f64;
        let down = *model.down.get(p).unwrap_or(&0) as f64;
        let i = gauge(s, "inbound_traffic_bytes", &format!("\"{}\"", p));
        let o = gauge(s, "outbound_traffic_bytes", &format!("\"{}\"", p));
        let straight = i == up && o == down;
        let crossed = i == down && o == up;
        let ok = match assignment {
            Some(false) => straight,
            Some(true) => crossed,
            None => {
                if straight && crossed {
                    true
                } else if straight {
                    assignment = Some(false);
                    true
                } else if crossed {
                    assignment = Some(true);
                    true
                } else {
                    false
                }
            }
        };
        if !ok {
            return Err(Violation {
                sig: "metrics:traffic-bytes".into(),
                msg: format!("{}: inbound_traffic_bytes = {}, outbound_traffic_bytes = {}; relayed client->destination {} and destination->client {} (assignment so far: {:?})", p, i, o, up, down, assignment),
            });
        }
    }
    Ok(assignment)
}

async fn eventually(world: &World, model: &Model, swapped: Option<bool>) -> Result<Option<bool>, Violation> {
    let deadline = std::time::Instant::now() + Duration::from_secs(4);
    loop {
        let s = parse_prometheus(&world.core.verif_metrics_text());
        match compare(model, &s, swapped) {
            Ok(a) => return Ok(a),
            Err(v) if std::time::Instant::now() > deadline => return Err(v),
            Err(_) => tokio::time::sleep(Duration::from_millis(2)).await,
        }
    }
}

const AUTH: &str = "user:pass";

async fn run_history(c: &Case) -> Verdict {
    let herr = |what: &str, e: String| Violation { sig: format!("harness:{}", what), msg: e };
    let spec = CoreSpec::default();
    let world = spec.build().map_err(|e| herr("core", e))?;
    // exported names first (even before any traffic)
    let text = world.core.verif_metrics_text();
    let s0 = parse_prometheus(&text);
    let listener = TcpListener::bind("127.0.0.1:0").await.map_err(|e| herr("listen", e.to_string()))?;
    let dest_addr = listener.local_addr().unwrap();
    let (acc_tx, mut acc_rx) = mpsc::unbounded_channel::<TcpStream>();
    tokio::spawn(async move {
        while let Ok((s, _)) = listener.accept().await {
            let _ = s.set_nodelay(true);
            if acc_tx.send(s).is_err() {
                break;
            }
        }
    });
    // a port that refuses connections for the whole case: bound but never listening
    let closed_socket = tokio::net::TcpSocket::new_v4().map_err(|e| herr("socket", e.to_string()))?;
    closed_socket.bind("127.0.0.1:0".parse().unwrap()).map_err(|e| herr("bind", e.to_string()))?;
    let closed_port = closed_socket.local_addr().map_err(|e| herr("bind", e.to_string()))?;
    let mut model = Model::default();
    model.sessions.insert("http1", 0);
    model.sessions.insert("http2", 0);
    let mut sessions: Vec<Session> = vec![];
    let mut tunnels: Vec<Tunnel> = vec![];
    // UDP destinations: three loopback sockets that record (peer, payload)
    let mut udp_servers: Vec<(std::sync::Arc<tokio::net::UdpSocket>, std::sync::Arc<std::sync::Mutex<Vec<(std::net::SocketAddr, Vec<u8>)>>>)> = vec![];
    for _ in 0..3 {
        let sock = std::sync::Arc::new(tokio::net::UdpSocket::bind("127.0.0.1:0").await.map_err(|e| herr("udp", e.to_string()))?);
        let got = std::sync::Arc::new(std::sync::Mutex::new(vec![]));
        let (s2, g2) = (sock.clone(), got.clone());
        tokio::spawn(async move {
            let mut buf = vec![0u8; 70_000];
            while let Ok((n, from)) = s2.recv_from(&mut buf).await {
                g2.lock().unwrap().push((from, buf[..n].to_vec()));
            }
        });
        udp_servers.push((sock, got));
    }
    // a resolver on port 53 of a loopback address private to this worker (needs the right to bind it)
    let dns_addr = format!("127.{}.{}.53:53", 1 + (std::process::id() % 250), 1 + crate::engine::SHARD.load(std::sync::atomic::Ordering::SeqCst) % 250);
    let dns: Option<(std::sync::Arc<tokio::net::UdpSocket>, std::sync::Arc<std::sync::Mutex<Vec<(std::net::SocketAddr, Vec<u8>)>>>)> = match tokio::net::UdpSocket::bind(&dns_addr).await {
        Ok(sock) => {
            let sock = std::sync::Arc::new(sock);
            let got = std::sync::Arc::new(std::sync::Mutex::new(vec![]));
            let (s2, g2) = (sock.clone(), got.clone());
            tokio::spawn(async move {
                let mut buf = vec![0u8; 70_000];
                while let Ok((n, from)) = s2.recv_from(&mut buf).await {
                    g2.lock().unwrap().push((from, buf[..n].to_vec()));
                }
            });
            Some((sock, got))
        }
        Err(_) => None,
    };
    let mut dns_exchanges = 0u16;
    let mut muxes: Vec<UdpMuxState> = vec![];
    let mut udp_seq = 0u32;
    // a UDP port nobody listens on (from this worker's partition below the ephemeral range)
    let udp_closed_port = crate::engine::proc::free_port().map_err(|e| herr("port", e.to_string()))?;
    let mut assignment: Option<bool> = None;
    let auth = format!("Basic {}", b64(AUTH));
    let _ = s0;

    for (step, op) in c.ops.iter().enumerate() {
        match op {
            Op::OpenH1 | Op::OpenH2 => {
                if sessions.iter().filter(|s| !matches!(s, Session::Closed)).count() >= 6 {
                    continue;
                }
                let h2 = *op == Op::OpenH2;
                let (io, _srv) = world.serve(if h2 { Proto::Http2 } else { Proto::Http1 }, ChannelView::Tunnel, "main.x", None, crate::engine::world::peer_v4(), 256 * 1024);
                if h2 {
                    let (send, conn) = h2::client::handshake(io).await.map_err(|e| herr("h2", e.to_string()))?;
                    let conn = tokio::spawn(async move {
                        let _ = conn.await;
                    });
                    sessions.push(Session::H2 { send, conn });
                    *model.sessions.get_mut("http2").unwrap() += 1;
                } else {
                    sessions.push(Session::H1Idle(io));
                    *model.sessions.get_mut("http1").unwrap() += 1;
                }
            }
            Op::TunnelOk(i) | Op::TunnelRefused(i) => {
                let ok = matches!(op, Op::TunnelOk(_));
                let live: Vec<usize> = sessions
                    .iter()
                    .enumerate()
                    .filter(|(_, s)| matches!(s, Session::H1Idle(_) | Session::H2 { .. }))
                    .map(|(k, _)| k)
                    .collect();
                if live.is_empty() {
                    continue;
                }
                let k = live[idx(*i, live.len())];
                let target = if ok { dest_addr } else { closed_port };
                match std::mem::replace(&mut sessions[k], Session::Closed) {
                    Session::H1Idle(mut io) => {
                        let head = format!("CONNECT {} HTTP/1.1\r\nHost: {}\r\nProxy-Authorization: {}\r\n\r\n", target, target, auth);
                        io.write_all(head.as_bytes()).await.map_err(|e| herr("io", e.to_string()))?;
                        let mut buf = vec![];
                        let status = loop {
                            if let Ok(Some(r)) = parse_h1_response(&buf) {
                                break Some(r.status);
                            }
                            let mut tmp = [0u8; 2048];
                            match tokio::time::timeout(Duration::from_secs(5), io.read(&mut tmp)).await {
                                Ok(Ok(n)) if n > 0 => buf.extend_from_slice(&tmp[..n]),
                                _ => break None,
                            }
                        };
                        if ok {
                            ensure!(status == Some(200), "harness:connect", "step {}: CONNECT to the canary answered {:?}", step, status);
                            let d = tokio::time::timeout(Duration::from_secs(5), acc_rx.recv()).await.ok().flatten().ok_or_else(|| herr("accept", "no accept".into()))?;
                            tunnels.push(Tunnel { session: k, proto: "http1", client: Some(ClientSide::H1(io)), dest: Some(Dest { conn: d, half_closed: false }) });
                            model.tcp += 1;
                            sessions[k] = Session::H1Used;
                        } else {
                            ensure!(status == Some(502), "harness:connect", "step {}: CONNECT to a closed port answered {:?}", step, status);
                            // the HTTP/1.1 session ends with the failed request
                            *model.sessions.get_mut("http1").unwrap() -= 1;
                            sessions[k] = Session::Closed;
                        }
                    }
                    Session::H2 { send, conn } => {
                        let req = http::Request::builder()
                            .method("CONNECT")
                            .uri(target.to_string())
                            .header("proxy-authorization", auth.as_str())
                            .body(())
                            .unwrap();
                        let mut sr = send.clone().ready().await.map_err(|e| herr("h2", e.to_string()))?;
                        let (fut, stream) = sr.send_request(req, false).map_err(|e| herr("h2", e.to_string()))?;
                        let resp = tokio::time::timeout(Duration::from_secs(5), fut).await.map_err(|_| herr("h2", "no response".into()))?.map_err(|e| herr("h2", e.to_string()))?;
                        sessions[k] = Session::H2 { send, conn };
                        if ok {
                            ensure!(resp.status() == 200, "harness:connect", "step {}: h2 CONNECT answered {}", step, resp.status());
                            let d = tokio::time::timeout(Duration::from_secs(5), acc_rx.recv()).await.ok().flatten().ok_or_else(|| herr("accept", "no accept".into()))?;
                            tunnels.push(Tunnel { session: k, proto: "http2", client: Some(ClientSide::H2 { send: stream, recv: resp.into_body() }), dest: Some(Dest { conn: d, half_closed: false }) });
                            model.tcp += 1;
                        } else {
                            ensure!(resp.status() == 502, "harness:connect", "step {}: h2 CONNECT to a closed port answered {}", step, resp.status());
                        }
                    }
                    other => sessions[k] = other,
                }
            }
            Op::Transfer(i, up, down) => {
                let live: Vec<usize> = tunnels.iter().enumerate().filter(|(_, t)| t.client.is_some() && t.dest.is_some()).map(|(k, _)| k).collect();
                if live.is_empty() {
                    continue;
                }
                let t = &mut tunnels[live[idx(*i, live.len())]];
                let up_n = *up as usize % 20_000;
                let down_n = if t.dest.as_ref().unwrap().half_closed { 0 } else { *down as usize % 20_000 };
                let up_data = vec![0x75u8; up_n];
                let down_data = vec![0x64u8; down_n];
                let dest = t.dest.as_mut().unwrap();
                // client -> destination
                match t.client.as_mut().unwrap() {
                    ClientSide::H1(io) => io.write_all(&up_data).await.map_err(|e| herr("io", e.to_string()))?,
                    ClientSide::H2 { send, .. } => {
                        let mut off = 0;
                        while off < up_n {
                            send.reserve_capacity(up_n - off);
                            let cap = futures::future::poll_fn(|cx| send.poll_capacity(cx)).await;
                            let Some(Ok(cap)) = cap else { return Err(herr("h2", "capacity".into())) };
                            let n = cap.min(up_n - off);
                            send.send_data(Bytes::copy_from_slice(&up_data[off..off + n]), false).map_err(|e| herr("h2", e.to_string()))?;
                            off += n;
                        }
                    }
                }
                let mut got = vec![0u8; up_n];
                tokio::time::timeout(Duration::from_secs(5), dest.conn.read_exact(&mut got))
                    .await
                    .map_err(|_| Violation { sig: "relay:upload-stalled".into(), msg: format!("step {}: destination did not receive {} bytes", step, up_n) })?
                    .map_err(|e| herr("io", e.to_string()))?;
                // destination -> client
                dest.conn.write_all(&down_data).await.map_err(|e| herr("io", e.to_string()))?;
                let mut rcvd = 0usize;
                let deadline = tokio::time::Instant::now() + Duration::from_secs(5);
                while rcvd < down_n {
                    match t.client.as_mut().unwrap() {
                        ClientSide::H1(io) => {
                            let mut tmp = vec![0u8; 16384];
                            match tokio::time::timeout_at(deadline, io.read(&mut tmp)).await {
                                Ok(Ok(n)) if n > 0 => rcvd += n,
                                _ => break,
                            }
                        }
                        ClientSide::H2 { recv, .. } => match tokio::time::timeout_at(deadline, recv.data()).await {
                            Ok(Some(Ok(b))) => {
                                rcvd += b.len();
                                let _ = recv.flow_control().release_capacity(b.len());
                            }
                            _ => break,
                        },
                    }
                }
                ensure!(rcvd == down_n, "relay:download-stalled", "step {}: client received {} of {} bytes", step, rcvd, down_n);
                *model.up.entry(t.proto).or_default() += up_n as u64;
                *model.down.entry(t.proto).or_default() += down_n as u64;
            }
            Op::DestHalfClose(i) => {
                let live: Vec<usize> = tunnels.iter().enumerate().filter(|(_, t)| matches!(t.client, Some(ClientSide::H2 { .. })) && t.dest.as_ref().is_some_and(|d| !d.half_closed)).map(|(k, _)| k).collect();
                if live.is_empty() {
                    continue;
                }
                let t = &mut tunnels[live[idx(*i, live.len())]];
                let d = t.dest.as_mut().unwrap();
                d.conn.shutdown().await.map_err(|e| herr("io", e.to_string()))?;
                d.half_closed = true;
                // the client sees the end of the download direction; its own direction stays open
                if let Some(ClientSide::H2 { recv, .. }) = t.client.as_mut() {
                    loop {
                        match tokio::time::timeout(Duration::from_secs(3), recv.data()).await {
                            Ok(None) => break,
                            // the END_STREAM flag may travel on an empty DATA frame
                            Ok(Some(Ok(b))) if b.is_empty() => continue,
                            other => {
                                return viol("relay:half-close-not-passed-on", format!("step {}: the destination ended its sending direction, the HTTP/2 client saw {:?} instead of the end of the stream", step, other.map(|x| x.map(|y| y.map(|b| b.len()).map_err(|e| e.to_string())))));
                            }
                        }
                    }
                }
                // nothing changes for the gauges: the connection is alive until the client ends too
            }
            Op::BigDownload(i, kb) => {
                let live: Vec<usize> = tunnels.iter().enumerate().filter(|(_, t)| t.client.is_some() && t.dest.as_ref().is_some_and(|d| !d.half_closed)).map(|(k, _)| k).collect();
                if live.is_empty() {
                    continue;
                }
                let t = &mut tunnels[live[idx(*i, live.len())]];
                let total = (100 + *kb as usize % 300) * 1024;
                let data = vec![0x42u8; total];
                let dest = t.dest.as_mut().unwrap();
                let (mut rd, mut wr) = dest.conn.split();
                let writer = async {
                    wr.write_all(&data).await.map_err(|e| e.to_string())
                };
                let client = t.client.as_mut().unwrap();
                let reader = async {
                    let mut rcvd = 0usize;
                    let mut unreleased = 0usize;
                    let deadline = tokio::time::Instant::now() + Duration::from_secs(20);
                    while rcvd < total {
                        match client {
                            ClientSide::H1(io) => {
                                let mut tmp = vec![0u8; 16384];
                                match tokio::time::timeout_at(deadline, io.read(&mut tmp)).await {
                                    Ok(Ok(n)) if n > 0 => rcvd += n,
                                    _ => break,
                                }
                            }
                            ClientSide::H2 { recv, .. } => match tokio::time::timeout(Duration::from_millis(30), recv.data()).await {
                                Ok(Some(Ok(b))) => {
                                    rcvd += b.len();
                                    unreleased += b.len();
                                }
                                Ok(_) => break,
                                Err(_) => {
                                    // nothing arrives any more: the window is exhausted - open it
                                    if unreleased == 0 || tokio::time::Instant::now() > deadline {
                                        break;
                                    }
                                    let _ = recv.flow_control().release_capacity(unreleased);
                                    unreleased = 0;
                                }
                            },
                        }
                    }
                    if let ClientSide::H2 { recv, .. } = client {
                        if unreleased > 0 {
                            let _ = recv.flow_control().release_capacity(unreleased);
                        }
                    }
                    rcvd
                };
                let (w, rcvd) = tokio::join!(writer, reader);
                let _ = &mut rd;
                w.map_err(|e| herr("io", e))?;
                ensure!(rcvd == total, "relay:download-stalled", "step {}: client received {} of {} bytes of a big download", step, rcvd, total);
                *model.down.entry(t.proto).or_default() += total as u64;
            }
            Op::CloseTunnel(i, how) => {
                let live: Vec<usize> = tunnels.iter().enumerate().filter(|(_, t)| t.client.is_some()).map(|(k, _)| k).collect();
                if live.is_empty() {
                    continue;
                }
                let k = live[idx(*i, live.len())];
                let t = &mut tunnels[k];
                let client = t.client.take().unwrap();
                let dest = t.dest.take();
                match (how % 3, client) {
                    (0, ClientSide::H1(mut io)) => {
                        let _ = io.shutdown().await;
                        drop(dest);
                        let mut tmp = [0u8; 256];
                        let _ = tokio::time::timeout(Duration::from_secs(2), io.read(&mut tmp)).await;
                    }
                    (0, ClientSide::H2 { mut send, mut recv }) => {
                        let _ = send.send_data(Bytes::new(), true);
                        if let Some(mut d) = dest {
                            let mut tmp = [0u8; 256];
                            let _ = tokio::time::timeout(Duration::from_secs(2), d.conn.read(&mut tmp)).await;
                            let _ = d.conn.shutdown().await;
                        }
                        let _ = tokio::time::timeout(Duration::from_secs(2), recv.data()).await;
                    }
                    (1, ClientSide::H1(io)) => {
                        drop(io);
                        drop(dest);
                    }
                    (1, ClientSide::H2 { mut send, recv }) => {
                        send.send_reset(h2::Reason::CANCEL);
                        drop(recv);
                        drop(dest);
                    }
                    (_, ClientSide::H1(mut io)) => {
                        if let Some(mut d) = dest {
                            let _ = d.conn.shutdown().await;
                            let mut tmp = [0u8; 256];
                            let _ = tokio::time::timeout(Duration::from_secs(2), io.read(&mut tmp)).await;
                            let _ = io.shutdown().await;
                            let _ = tokio::time::timeout(Duration::from_secs(2), d.conn.read(&mut tmp)).await;
                        }
                    }
                    (_, ClientSide::H2 { mut send, mut recv }) => {
                        if let Some(mut d) = dest {
                            let _ = d.conn.shutdown().await;
                            let _ = tokio::time::timeout(Duration::from_secs(2), recv.data()).await;
                            let _ = send.send_data(Bytes::new(), true);
                            let mut tmp = [0u8; 256];
                            let _ = tokio::time::timeout(Duration::from_secs(2), d.conn.read(&mut tmp)).await;
                        }
                    }
                }
                model.tcp -= 1;
                if t.proto == "http1" {
                    // the HTTP/1.1 session lives exactly as long as its tunnel
                    *model.sessions.get_mut("http1").unwrap() -= 1;
                }
            }
            Op::CloseSession(i) => {
                let live: Vec<usize> = sessions.iter().enumerate().filter(|(_, s)| matches!(s, Session::H1Idle(_) | Session::H2 { .. })).map(|(k, _)| k).collect();
                if live.is_empty() {
                    continue;
                }
                let k = live[idx(*i, live.len())];
                match std::mem::replace(&mut sessions[k], Session::Closed) {
                    Session::H1Idle(io) => {
                        drop(io);
                        *model.sessions.get_mut("http1").unwrap() -= 1;
                    }
                    Session::H2 { send, conn } => {
                        // tunnels of this session die with it
                        for t in tunnels.iter_mut().filter(|t| t.session == k && t.client.is_some()) {
                            t.client = None;
                            t.dest = None;
                            model.tcp -= 1;
                        }
                        for m in muxes.iter_mut().filter(|m| m.session == k && m.send.is_some()) {
                            m.send = None;
                            m.recv = None;
                            model.udp -= m.flows.len() as i64;
                            m.flows.clear();
                        }
                        drop(send);
                        conn.abort();
                        *model.sessions.get_mut("http2").unwrap() -= 1;
                    }
                    _ => {}
                }
            }
            Op::Scrape => {}
            Op::UdpMux(i) => {
                let live: Vec<usize> = sessions.iter().enumerate().filter(|(_, s)| matches!(s, Session::H2 { .. })).map(|(k, _)| k).collect();
                if live.is_empty() || muxes.iter().filter(|m| m.send.is_some()).count() >= 3 {
                    continue;
                }
                let k = live[idx(*i, live.len())];
                if let Session::H2 { send, .. } = &sessions[k] {
                    let req = http::Request::builder().method("CONNECT").uri("_udp2").header("proxy-authorization", auth.as_str()).body(()).unwrap();
                    let mut sr = send.clone().ready().await.map_err(|e| herr("h2", e.to_string()))?;
                    let (fut, stream) = sr.send_request(req, false).map_err(|e| herr("h2", e.to_string()))?;
                    let resp = tokio::time::timeout(Duration::from_secs(5), fut).await.map_err(|_| herr("h2", "no response".into()))?.map_err(|e| herr("h2", e.to_string()))?;
                    ensure!(resp.status() == 200, "harness:connect", "step {}: CONNECT _udp2 answered {}", step, resp.status());
                    muxes.push(UdpMuxState { session: k, send: Some(stream), recv: Some(resp.into_body()), flows: Default::default(), buf: vec![] });
                }
            }
            Op::UdpSend(i, flow, size) => {
                let live: Vec<usize> = muxes.iter().enumerate().filter(|(_, m)| m.send.is_some()).map(|(k, _)| k).collect();
                if live.is_empty() {
                    continue;
                }
                let k = live[idx(*i, live.len())];
                let f = *flow as usize % 3;
                let size = 8 + *size as usize % 1400;
                udp_seq += 1;
                let mut payload = vec![0x55u8; size];
                payload[..4].copy_from_slice(&udp_seq.to_be_bytes());
                let src: std::net::SocketAddr = format!("10.7.{}.{}:4000", k, f).parse().unwrap();
                let dst = udp_servers[f].0.local_addr().unwrap();
                let rec = crate::reference::udpmux::encode_in(&crate::reference::udpmux::Datagram { source: src, destination: dst, app_name: "app".into(), payload: payload.clone() });
                muxes[k].send.as_mut().unwrap().send_data(Bytes::from(rec), false).map_err(|e| herr("h2", e.to_string()))?;
                let deadline = std::time::Instant::now() + Duration::from_secs(3);
                let mut arrived = None;
                while std::time::Instant::now() < deadline {
                    if let Some((from, _)) = udp_servers[f].1.lock().unwrap().iter().find(|(_, p)| *p == payload) {
                        arrived = Some(*from);
                        break;
                    }
                    tokio::time::sleep(Duration::from_millis(2)).await;
                }
                let Some(from) = arrived else {
                    return viol("relay:udp-datagram-not-delivered", format!("step {}: a client datagram of {} bytes never reached its destination", step, size));
                };
                *model.up.entry("http2").or_default() += size as u64;
                if let Some(prev) = muxes[k].flows.insert(f as u8, from) {
                    ensure!(prev == from, "relay:udp-flow-changed-socket", "step {}: a live flow moved from outbound socket {} to {}", step, prev, from);
                } else {
                    model.udp += 1;
                }
            }
            Op::UdpReplies(i, flow, n, size, reading) => {
                let live: Vec<usize> = muxes.iter().enumerate().filter(|(_, m)| m.send.is_some() && m.flows.keys().any(|f| *f < 3)).map(|(k, _)| k).collect();
                if live.is_empty() {
                    continue;
                }
                let k = live[idx(*i, live.len())];
                let flows: Vec<(u8, std::net::SocketAddr)> = muxes[k].flows.iter().filter(|(f, _)| **f < 3).map(|(a, b)| (*a, *b)).collect();
                let (f, peer) = flows[*flow as usize % flows.len()];
                let f = f as usize;
                let n = 1 + *n as usize % 120;
                let size = 200 + *size as usize % 1000;
                let m = &mut muxes[k];
                let recv = m.recv.as_mut().unwrap();
                let mut received = 0u64;
                if *reading {
                    for _ in 0..n {
                        udp_servers[f].0.send_to(&vec![0x72u8; size], peer).await.map_err(|e| herr("udp", e.to_string()))?;
                        // read as it comes
                        let deadline = tokio::time::Instant::now() + Duration::from_millis(300);
                        loop {
                            let before = received;
                            received += take_records(&mut m.buf);
                            if received > before {
                                break;
                            }
                            match tokio::time::timeout_at(deadline, recv.data()).await {
                                Ok(Some(Ok(b))) => {
                                    let _ = recv.flow_control().release_capacity(b.len());
                                    m.buf.extend_from_slice(&b);
                                }
                                _ => break,
                            }
                        }
                    }
                } else {
                    for _ in 0..n {
                        udp_servers[f].0.send_to(&vec![0x72u8; size], peer).await.map_err(|e| herr("udp", e.to_string()))?;
                        if n > 20 {
                            tokio::task::yield_now().await;
                        }
                    }
                    tokio::time::sleep(Duration::from_millis(120)).await;
                }
                // drain whatever the endpoint managed to send
                loop {
                    received += take_records(&mut m.buf);
                    match tokio::time::timeout(Duration::from_millis(150), recv.data()).await {
                        Ok(Some(Ok(b))) => {
                            let _ = recv.flow_control().release_capacity(b.len());
                            m.buf.extend_from_slice(&b);
                        }
                        _ => break,
                    }
                }
                received += take_records(&mut m.buf);
                if *reading {
                    ensure!(
                        received == (n * size) as u64,
                        "relay:udp-replies-lost",
                        "step {}: {} reply datagrams of {} bytes sent to a reading client, {} payload bytes arrived",
                        step,
                        n,
                        size,
                        received
                    );
                }
                *model.down.entry("http2").or_default() += received;
            }
            Op::UdpBurstToClosedPort(i, n, size) => {
                let live: Vec<usize> = muxes.iter().enumerate().filter(|(_, m)| m.send.is_some()).map(|(k, _)| k).collect();
                if live.is_empty() {
                    continue;
                }
                let k = live[idx(*i, live.len())];
                let n = 2 + *n as u64 % 3;
                let size = 50 + *size as u64 % 500;
                let before = parse_prometheus(&world.core.verif_metrics_text());
                let sum_before = gauge(&before, "inbound_traffic_bytes", "\"http2\"") + gauge(&before, "outbound_traffic_bytes", "\"http2\"");
                let src: std::net::SocketAddr = format!("10.7.{}.9:4000", k).parse().unwrap();
                let dst: std::net::SocketAddr = format!("127.0.0.1:{}", udp_closed_port).parse().unwrap();
                let mut wire = vec![];
                for _ in 0..n {
                    wire.extend_from_slice(&crate::reference::udpmux::encode_in(&crate::reference::udpmux::Datagram { source: src, destination: dst, app_name: "app".into(), payload: vec![0x43u8; size as usize] }));
                }
                // one DATA frame: the datagrams reach the forwarder back to back
                muxes[k].send.as_mut().unwrap().send_data(Bytes::from(wire), false).map_err(|e| herr("h2", e.to_string()))?;
                tokio::time::sleep(Duration::from_millis(150)).await;
                let after = parse_prometheus(&world.core.verif_metrics_text());
                let d = gauge(&after, "inbound_traffic_bytes", "\"http2\"") + gauge(&after, "outbound_traffic_bytes", "\"http2\"") - sum_before;
                let d = d.max(0.0) as u64;
                ensure!(
                    d % size == 0 && d >= size && d < n * size,
                    if d == n * size { "metrics:refused-datagrams-counted" } else { "metrics:traffic-bytes" },
                    "step {}: {} datagrams of {} bytes sent back to back to a closed UDP port (the kernel refuses at least every second one): the HTTP/2 traffic counters grew by {} bytes",
                    step,
                    n,
                    size,
                    d
                );
                *model.up.entry("http2").or_default() += d;
                // close that multiplexer: whatever became of the refused flow's socket is released
                let m = &mut muxes[k];
                if let Some(mut s) = m.send.take() {
                    let _ = s.send_data(Bytes::new(), true);
                }
                if let Some(mut r) = m.recv.take() {
                    let _ = tokio::time::timeout(Duration::from_millis(500), r.data()).await;
                }
                model.udp -= m.flows.len() as i64;
                m.flows.clear();
            }
            Op::UdpDnsExchange(i, q, complete) => {
                let Some((dns_sock, dns_got)) = &dns else {
                    crate::engine::bump("no-port-53", 1);
                    continue;
                };
                let live: Vec<usize> = muxes.iter().enumerate().filter(|(_, m)| m.send.is_some()).map(|(k, _)| k).collect();
                if live.is_empty() {
                    continue;
                }
                let k = live[idx(*i, live.len())];
                let q = 1 + *q as usize % 3;
                dns_exchanges += 1;
                let src: std::net::SocketAddr = format!("10.8.{}.1:{}", k, 5000 + dns_exchanges).parse().unwrap();
                let dst = dns_sock.local_addr().unwrap();
                let mut queries = vec![];
                for _ in 0..q {
                    udp_seq += 1;
                    let mut payload = vec![0x51u8; 40];
                    payload[..4].copy_from_slice(&udp_seq.to_be_bytes());
                    let rec = crate::reference::udpmux::encode_in(&crate::reference::udpmux::Datagram { source: src, destination: dst, app_name: "app".into(), payload: payload.clone() });
                    muxes[k].send.as_mut().unwrap().send_data(Bytes::from(rec), false).map_err(|e| herr("h2", e.to_string()))?;
                    queries.push(payload);
                }
                let deadline = std::time::Instant::now() + Duration::from_secs(3);
                let mut peer = None;
                while std::time::Instant::now() < deadline {
                    let got = dns_got.lock().unwrap();
                    if queries.iter().all(|p| got.iter().any(|(_, x)| x == p)) {
                        peer = got.iter().find(|(_, x)| *x == queries[0]).map(|(a, _)| *a);
                        break;
                    }
                    drop(got);
                    tokio::time::sleep(Duration::from_millis(2)).await;
                }
                let Some(peer) = peer else {
                    return viol("relay:udp-datagram-not-delivered", format!("step {}: {} queries to the resolver on port 53 did not all arrive", step, q));
                };
                *model.up.entry("http2").or_default() += 40 * q as u64;
                model.udp += 1;
                let answers = if *complete { q } else { q - 1 };
                let m = &mut muxes[k];
                let recv = m.recv.as_mut().unwrap();
                let mut received = 0u64;
                for _ in 0..answers {
                    dns_sock.send_to(&[0x61u8; 60], peer).await.map_err(|e| herr("udp", e.to_string()))?;
                    let deadline = tokio::time::Instant::now() + Duration::from_millis(1000);
                    loop {
                        let before = received;
                        received += take_records(&mut m.buf);
                        if received > before {
                            break;
                        }
                        match tokio::time::timeout_at(deadline, recv.data()).await {
                            Ok(Some(Ok(b))) => {
                                let _ = recv.flow_control().release_capacity(b.len());
                                m.buf.extend_from_slice(&b);
                            }
                            _ => break,
                        }
                    }
                }
                ensure!(received == 60 * answers as u64, "relay:udp-replies-lost", "step {}: the resolver answered {} of {} queries with 60 bytes each, {} payload bytes reached the client", step, answers, q, received);
                *model.down.entry("http2").or_default() += received;
                if *complete {
                    // every query answered: the flow is over and its socket released
                    model.udp -= 1;
                } else {
                    // the flow lives on until the multiplexer goes (its key is private to this exchange)
                    m.flows.insert(100 + (dns_exchanges % 150) as u8, peer);
                }
            }
            Op::UdpPeerRestart(i, size) => {
                let live: Vec<usize> = muxes.iter().enumerate().filter(|(_, m)| m.send.is_some()).map(|(k, _)| k).collect();
                if live.is_empty() {
                    continue;
                }
                let k = live[idx(*i, live.len())];
                let size = 20 + *size as usize % 600;
                dns_exchanges += 1;
                let src: std::net::SocketAddr = format!("10.9.{}.1:{}", k, 6000 + dns_exchanges).parse().unwrap();
                let Ok(peer1) = tokio::net::UdpSocket::bind("127.0.0.1:0").await else { continue };
                let dst = peer1.local_addr().unwrap();
                let datagram = |tag: u8| -> Vec<u8> {
                    let mut p = vec![tag; size];
                    p[..2].copy_from_slice(&dns_exchanges.to_be_bytes());
                    p
                };
                let send = |m: &mut UdpMuxState, payload: &[u8]| -> Result<(), Violation> {
                    let rec = crate::reference::udpmux::encode_in(&crate::reference::udpmux::Datagram { source: src, destination: dst, app_name: "app".into(), payload: payload.to_vec() });
                    m.send.as_mut().unwrap().send_data(Bytes::from(rec), false).map_err(|e| herr("h2", e.to_string()))
                };
                // 1. the flow comes up
                send(&mut muxes[k], &datagram(1))?;
                let mut buf = vec![0u8; 2000];
                let Ok(Ok((n, outbound))) = tokio::time::timeout(Duration::from_secs(3), peer1.recv_from(&mut buf)).await else {
                    return viol("relay:udp-datagram-not-delivered", format!("step {}: the first datagram of a new flow never reached its destination", step));
                };
                ensure!(buf[..n] == datagram(1)[..], "relay:udp-datagram-differs", "step {}: payload differs", step);
                *model.up.entry("http2").or_default() += size as u64;
                model.udp += 1;
                muxes[k].flows.insert(200 + (dns_exchanges % 50) as u8, outbound);
                // 2. the destination goes away; the next datagram is refused by the kernel
                drop(peer1);
                let before = parse_prometheus(&world.core.verif_metrics_text());
                let sum_before = gauge(&before, "inbound_traffic_bytes", "\"http2\"") + gauge(&before, "outbound_traffic_bytes", "\"http2\"");
                send(&mut muxes[k], &datagram(2))?;
                tokio::time::sleep(Duration::from_millis(60)).await;
                // 3. it comes back on the same port and sends an empty datagram to the flow
                let Ok(peer2) = tokio::net::UdpSocket::bind(dst).await else {
                    crate::engine::bump("udp-port-taken-meanwhile", 1);
                    continue;
                };
                let _ = peer2.send_to(&[], outbound).await;
                tokio::time::sleep(Duration::from_millis(120)).await;
                // whatever reached the client meanwhile (an empty record at most)
                {
                    let m = &mut muxes[k];
                    let recv = m.recv.as_mut().unwrap();
                    while let Ok(Some(Ok(b))) = tokio::time::timeout(Duration::from_millis(30), recv.data()).await {
                        let _ = recv.flow_control().release_capacity(b.len());
                        m.buf.extend_from_slice(&b);
                    }
                    let _ = take_records(&mut m.buf);
                }
                let after = parse_prometheus(&world.core.verif_metrics_text());
                let d = (gauge(&after, "inbound_traffic_bytes", "\"http2\"") + gauge(&after, "outbound_traffic_bytes", "\"http2\"") - sum_before).max(0.0) as u64;
                ensure!(d == 0 || d == size as u64, "metrics:traffic-bytes", "step {}: one datagram of {} bytes towards a destination that had gone: the counters grew by {}", step, size, d);
                *model.up.entry("http2").or_default() += d;
                // 4. the pair still works: through the old flow if it survived, through a fresh one if
                //    the socket error ended it - the number of live flows is the same either way
                send(&mut muxes[k], &datagram(3))?;
                match tokio::time::timeout(Duration::from_secs(3), peer2.recv_from(&mut buf)).await {
                    Ok(Ok((n, from))) => {
                        ensure!(buf[..n] == datagram(3)[..], "relay:udp-datagram-differs", "step {}: payload differs", step);
                        *model.up.entry("http2").or_default() += size as u64;
                        muxes[k].flows.insert(200 + (dns_exchanges % 50) as u8, from);
                        crate::engine::bump(if from == outbound { "flow-survived-the-destination-restart" } else { "flow-replaced-after-the-socket-error" }, 1);
                    }
                    _ => {
                        return viol(
                            "relay:udp-datagram-not-delivered",
                            format!("step {}: after its destination had gone away and come back (socket error on the flow's read path) a datagram on the same pair never arrived: the pair is stuck", step),
                        );
                    }
                }
            }
            Op::CloseUdpMux(i) => {
                let live: Vec<usize> = muxes.iter().enumerate().filter(|(_, m)| m.send.is_some()).map(|(k, _)| k).collect();
                if live.is_empty() {
                    continue;
                }
                let k = live[idx(*i, live.len())];
                let m = &mut muxes[k];
                if let Some(mut s) = m.send.take() {
                    let _ = s.send_data(Bytes::new(), true);
                }
                if let Some(mut r) = m.recv.take() {
                    let _ = tokio::time::timeout(Duration::from_millis(500), r.data()).await;
                }
                model.udp -= m.flows.len() as i64;
                m.flows.clear();
            }
        }
        assignment = eventually(&world, &model, assignment).await.map_err(|mut v| {
            v.msg = format!("after step {} ({:?}): {}", step, op, v.msg);
            v
        })?;
    }
    // wind everything down: gauges must return to zero
    for t in tunnels.iter_mut() {
        if t.client.take().is_some() {
            model.tcp -= 1;
            if t.proto == "http1" {
                *model.sessions.get_mut("http1").unwrap() -= 1;
            }
        }
        t.dest = None;
    }
    for m in muxes.iter_mut() {
        m.send = None;
        m.recv = None;
        model.udp -= m.flows.len() as i64;
        m.flows.clear();
    }
    for s in sessions.iter_mut() {
        match std::mem::replace(s, Session::Closed) {
            Session::H1Idle(io) => {
                drop(io);
                *model.sessions.get_mut("http1").unwrap() -= 1;
            }
            Session::H2 { send, conn } => {
                drop(send);
                conn.abort();
                *model.sessions.get_mut("http2").unwrap() -= 1;
            }
            _ => {}
        }
    }
    ensure!(model.tcp == 0 && model.udp == 0 && model.sessions.values().all(|v| *v == 0), "harness:model", "model did not return to zero: {:?}", model);
    eventually(&world, &model, assignment).await.map_err(|mut v| {
        v.sig = format!("{}:not-back-to-zero", v.sig);
        v.msg = format!("after all clients are gone: {}", v.msg);
        v
    })?;
    // documented names and labels
    let text = world.core.verif_metrics_text();
    let s = parse_prometheus(&text);
    for name in series_names() {
        // labelled series appear once one of their label values has been used (standard
        // Prometheus behaviour), so they are demanded only after a session / a transfer existed
        // a traffic series shows up once its direction has carried bytes; which series is which
        // direction is not pinned down, so both are demanded only when both directions were used
        let has_traffic = model.up.values().any(|v| *v > 0) && model.down.values().any(|v| *v > 0);
        let had_session = c.ops.iter().any(|o| matches!(o, Op::OpenH1 | Op::OpenH2));
        let needed = !(name.contains("traffic") && !has_traffic) && !(name == "client_sessions" && !had_session);
        if needed {
            ensure!(
                s.contains_key(&name),
                "metrics:documented-series-missing",
                "series {} (METRICS.md) is not in the exported text; exported: {:?}",
                name,
                s.keys().collect::<Vec<_>>()
            );
        }
    }
    for name in ["client_sessions", "inbound_traffic_bytes", "outbound_traffic_bytes"] {
        if let Some(m) = s.get(name) {
            ensure!(
                m.keys().all(|l| l.contains("protocol_type=")),
                "metrics:label-missing",
                "{} exported without the protocol_type label: {:?}",
                name,
                m.keys().collect::<Vec<_>>()
            );
        }
    }
    Ok(())
}

pub struct HistorySuite;

impl Suite for HistorySuite {
    type Case = Case;
    fn name(&self) -> &'static str {
        "session-histories"
    }
    fn rule(&self) -> String {
        "histories of 5-30 operations {open HTTP/1.1 session, open HTTP/2 session, open tunnel to a loopback canary, tunnel to a closed port (refused), transfer n bytes up and m bytes down (n != m in general), download 100-400 KB while the client withholds window updates (partial acceptance at the endpoint's client-side sink), close tunnel gracefully / by reset / destination first, close session, open a UDP multiplexer on an HTTP/2 session, client datagram of 8-1400 bytes on one of three flows to loopback UDP sockets, 1-120 reply datagrams of 200-1200 bytes to a client that reads them as they come or only afterwards with its window closed (the endpoint then drops what does not fit), a burst of 2-4 datagrams to a closed UDP port (every second send is refused by the kernel), close the multiplexer} against a real Core (in-memory client transports, real direct forwarder and real loopback TCP destinations); after every operation the exported text (Metrics::collect, the body of GET /metrics) must reach the model within 4 s: client_sessions per protocol = live sessions, outbound_tcp_sockets = live outbound connections, outbound_udp_sockets = live UDP flows, the two traffic series = payload bytes relayed in the two directions per protocol - for UDP the datagrams that reached the destination resp. the client, not the dropped ones - (either consistent assignment of series to directions), all back to zero at the end, every series named in METRICS.md present with its protocol_type label; non-trivial = history with a refused connect and an abortive close".into()
    }
    fn strategy(&self, _: Tier) -> BoxedStrategy<Case> {
        let op = prop_oneof![
            2 => Just(Op::OpenH1),
            2 => Just(Op::OpenH2),
            5 => any::<u16>().prop_map(Op::TunnelOk),
            2 => any::<u16>().prop_map(Op::TunnelRefused),
            5 => (any::<u16>(), any::<u16>(), any::<u16>()).prop_map(|(a, b, c)| Op::Transfer(a, b, c)),
            2 => (any::<u16>(), any::<u16>()).prop_map(|(a, b)| Op::BigDownload(a, b)),
            3 => (any::<u16>(), 0u8..3).prop_map(|(a, b)| Op::CloseTunnel(a, b)),
            1 => any::<u16>().prop_map(Op::CloseSession),
            2 => any::<u16>().prop_map(Op::UdpMux),
            4 => (any::<u16>(), 0u8..3, any::<u16>()).prop_map(|(a, b, c)| Op::UdpSend(a, b, c)),
            3 => (any::<u16>(), 0u8..3, any::<u8>(), any::<u16>(), any::<bool>()).prop_map(|(a, b, c, d, e)| Op::UdpReplies(a, b, c, d, e)),
            1 => any::<u16>().prop_map(Op::CloseUdpMux),
            1 => (any::<u16>(), any::<u8>(), any::<u16>()).prop_map(|(a, b, c)| Op::UdpBurstToClosedPort(a, b, c)),
            2 => (any::<u16>(), any::<u8>(), prop_oneof![3 => Just(true), 1 => Just(false)]).prop_map(|(a, b, c)| Op::UdpDnsExchange(a, b, c)),
            2 => any::<u16>().prop_map(Op::DestHalfClose),
            2 => (any::<u16>(), any::<u16>()).prop_map(|(a, b)| Op::UdpPeerRestart(a, b)),
        ];
        prop::collection::vec(op, 5..=30).prop_map(|ops| Case { ops }).boxed()
    }
    fn cases(&self, tier: Tier) -> u64 {
        tier.pick(4800, 48_000)
    }
    fn classify(&self, c: &Case) -> Vec<&'static str> {
        let refused = c.ops.iter().any(|o| matches!(o, Op::TunnelRefused(_)));
        let abort = c.ops.iter().any(|o| matches!(o, Op::CloseTunnel(_, 1)));
        let mut v = vec![];
        if refused {
            v.push("refused-connect");
        }
        if abort {
            v.push("abortive-close");
        }
        if refused && abort {
            v.push("nontrivial");
        }
        // a multiplexer with a flow that gets more replies than the client's window holds
        let mut have_mux = false;
        let mut have_flow = false;
        for o in &c.ops {
            match o {
                Op::OpenH2 => {}
                Op::UdpMux(_) => have_mux = true,
                Op::UdpSend(..) if have_mux => have_flow = true,
                Op::UdpReplies(_, _, n, size, false) if have_flow && (1 + *n as usize % 120) * (200 + *size as usize % 1000) > 70_000 => {
                    v.push("udp-replies-beyond-the-client-window");
                }
                Op::UdpReplies(..) if have_flow => v.push("udp-replies"),
                Op::UdpBurstToClosedPort(..) if have_mux => v.push("udp-burst-to-closed-port"),
                Op::UdpDnsExchange(_, _, true) if have_mux => v.push("port-53-flow-completed"),
                Op::DestHalfClose(_) => v.push("destination-half-close"),
                Op::UdpPeerRestart(..) if have_mux => v.push("udp-destination-restart"),
                _ => {}
            }
        }
        v.sort();
        v.dedup();
        v
    }
    fn check(&self, c: &Case) -> Verdict {
        let c = c.clone();
        aio::block_on_real(async move { run_history(&c).await })
    }
}

pub fn run(ctx: &mut Ctx) {
    super::replay_corpus(ctx, replay);
    ctx.run_suite(&HistorySuite);
    ctx.run_suite(&super::c16http::EndpointSuite);
    ctx.assume("the statement does not say which traffic series counts which direction: either assignment is accepted as long as it is the same in every history step and protocol; label values are compared case-insensitively");
    ctx.assume("real loopback sockets and real time: a gauge is judged wrong only if it does not reach the model within 4 s of the operation");
    ctx.assume("the HTTP listener of the metrics endpoint (/metrics, /health-check) is scraped over TCP by suite metrics-endpoint; the histories read the same text through the door");
    let _ = viol::<()>("", "");
}

pub fn replay(ctx: &mut Ctx, suite: &str, case: &Value) -> bool {
    match suite {
        "session-histories" => ctx.replay_suite(&HistorySuite, case),
        "metrics-endpoint" => ctx.replay_suite(&super::c16http::EndpointSuite, case),
        _ => false,
    }
}
