//! C19 at session level: real tunnel / ping sessions over in-memory transports, a scripted
//! forwarder and a virtual clock; a shutdown is submitted while the sessions are in generated
//! states; every session must wind down and completion must return exactly when the last did.

use crate::engine::world::{CoreSpec, Outcome, PeerMsg, Scripted, World};
use crate::engine::{aio, viol, Suite, Tier, Verdict};
use crate::props::tunnelreq::b64;
use bytes::Bytes;
use proptest::prelude::*;
use serde::{Deserialize, Serialize};
use std::pin::Pin;
use std::sync::{Arc, Mutex};
use std::task::{Context, Poll};
use std::time::Duration;
use tokio::io::{AsyncRead, AsyncReadExt, AsyncWrite, AsyncWriteExt, ReadBuf};
use tokio::time::Instant;
use trusttunnel::verif::session::{ChannelView, DestView, Proto};

#[derive(Serialize, Deserialize, Debug, Clone, PartialEq)]
pub enum Sess {
    /// HTTP/1.1 connection on the tunnel channel without a request
    H1Idle,
    /// HTTP/1.1 connection on the ping channel without a request
    PingIdle,
    /// HTTP/1.1 tunnel: the destination has pushed `chunks`, the client (transport buffer `buf`
    /// bytes) has read `pre_read` of them and resumes reading `resume_ms` after the submission
    H1Tunnel { chunks: Vec<u16>, buf: u16, pre_read: u16, resume_ms: u16 },
    /// HTTP/2 session after `n` health checks
    H2Idle(u8),
    /// HTTP/2 session with `n` open tunnels (each downloaded `chunk` bytes); both ends finish
    /// the tunnels `end_ms` after the submission
    H2Tunnels { n: u8, chunk: u16, end_ms: u16 },
    /// HTTP/2 session after `n` health checks whose client sends one more request `late_ms` after
    /// the submission (it has not seen the GOAWAY yet, or only just) and waits for its answer
    H2LateRequest { n: u8, late_ms: u8 },
    /// HTTP/2 session of a frame-level client that answers the endpoint's GOAWAY + PING with a new
    /// request (HEADERS, END_STREAM) and only then with the PING acknowledgement: a request in flight
    /// while the endpoint announces its shutdown
    H2RawLate,
    /// HTTP/2 session on the ping channel (session timeout 1 s) of a frame-level client that
    /// acknowledges the endpoint's PING only after `ack_delay_ms`; the shutdown is submitted
    /// 850 ms into the session, so the wind-down lasts beyond the session's own timeout.
    /// Generated alone.
    PingH2SlowAck { ack_delay_ms: u16 },
    /// HTTP/1.1 connection on the speedtest / reverse-proxy channel without a request
    SpeedIdle,
    RpIdle,
    /// HTTP/1.1 speedtest download of 1 MiB in progress: the client (transport buffer `buf` bytes)
    /// has read `pre_read` body bytes and resumes reading `resume_ms` after the submission
    SpeedDownload { buf: u16, pre_read: u16, resume_ms: u16 },
}

#[derive(Serialize, Deserialize, Debug, Clone)]
pub struct Case {
    pub sessions: Vec<Sess>,
    pub submit_at_ms: u16,
}

pub fn pattern(off: usize, len: usize) -> Vec<u8> {
    (off..off + len).map(|i| ((i * 13 + (i >> 7) * 5) % 253) as u8).collect()
}

/// Records what the client reads from the transport
pub struct Tee<T> {
    pub inner: T,
    pub rec: Arc<Mutex<Vec<u8>>>,
}

impl<T: AsyncRead + Unpin> AsyncRead for Tee<T> {
    fn poll_read(mut self: Pin<&mut Self>, cx: &mut Context<'_>, buf: &mut ReadBuf<'_>) -> Poll<std::io::Result<()>> {
        let before = buf.filled().len();
        let r = Pin::new(&mut self.inner).poll_read(cx, buf);
        if let Poll::Ready(Ok(())) = &r {
            self.rec.lock().unwrap().extend_from_slice(&buf.filled()[before..]);
        }
        r
    }
}

impl<T: AsyncWrite + Unpin> AsyncWrite for Tee<T> {
    fn poll_write(mut self: Pin<&mut Self>, cx: &mut Context<'_>, data: &[u8]) -> Poll<std::io::Result<usize>> {
        Pin::new(&mut self.inner).poll_write(cx, data)
    }
    fn poll_flush(mut self: Pin<&mut Self>, cx: &mut Context<'_>) -> Poll<std::io::Result<()>> {
        Pin::new(&mut self.inner).poll_flush(cx)
    }
    fn poll_shutdown(mut self: Pin<&mut Self>, cx: &mut Context<'_>) -> Poll<std::io::Result<()>> {
        Pin::new(&mut self.inner).poll_shutdown(cx)
    }
}

pub fn has_goaway(bytes: &[u8]) -> bool {
    let mut p = 0;
    if std::env::var("VERIF_DEBUG").is_ok() {
        eprintln!("server->client bytes: {}", crate::engine::hex(bytes));
    }
    while p + 9 <= bytes.len() {
        let len = ((bytes[p] as usize) << 16) | ((bytes[p + 1] as usize) << 8) | bytes[p + 2] as usize;
        if bytes[p + 3] == 7 {
            return true;
        }
        p += 9 + len;
    }
    false
}

#[derive(Default, Debug)]
struct Seen {
    error: Option<String>,
    closed: bool,
    end: String,
    received: usize,
    intact: bool,
    goaway: Option<bool>,
    /// the wind-down was completed: a second GOAWAY (with the real last stream) before the close
    final_goaway: Option<bool>,
}

type Go = tokio::sync::watch::Receiver<Option<Instant>>;

async fn wait_go(go: &mut Go) -> Instant {
    loop {
        if let Some(t) = *go.borrow() {
            return t;
        }
        if go.changed().await.is_err() {
            return Instant::now();
        }
    }
}

fn auth() -> String {
    format!("Basic {}", b64("user:pass"))
}

fn peer_by_port(scripted: &Scripted, port: u16) -> Option<crate::engine::world::PeerHandle> {
    scripted.peers.lock().unwrap().iter().find_map(|(m, h)| match &m.destination {
        DestView::HostName(_, p) if *p == port => Some(h.clone()),
        DestView::Address(a) if a.port() == port => Some(h.clone()),
        _ => None,
    })
}

async fn read_to_eof<R: AsyncRead + Unpin>(io: &mut R, seen: &mut Seen, mut off: usize, check: bool) {
    let mut buf = vec![0u8; 8192];
    seen.intact = true;
    loop {
        match tokio::time::timeout(Duration::from_secs(60), io.read(&mut buf)).await {
            Err(_) => {
                seen.end = "still open after 60 s".into();
                break;
            }
            Ok(Ok(0)) => {
                seen.closed = true;
                seen.end = "eof".into();
                break;
            }
            Ok(Ok(n)) => {
                if check && buf[..n] != pattern(off, n)[..] {
                    seen.intact = false;
                }
                off += n;
            }
            Ok(Err(e)) => {
                seen.closed = true;
                seen.end = format!("error: {}", e);
                break;
            }
        }
    }
    seen.received = off;
}

async fn client(
    i: usize,
    s: Sess,
    io: tokio::io::DuplexStream,
    scripted: Arc<Scripted>,
    ready: tokio::sync::mpsc::Sender<()>,
    mut go: Go,
) -> Seen {
    let mut seen = Seen::default();
    let base_port = 1000 + (i as u16) * 16;
    match s {
        Sess::H1Idle | Sess::PingIdle | Sess::SpeedIdle | Sess::RpIdle => {
            let mut io = io;
            let _ = ready.send(()).await;
            wait_go(&mut go).await;
            read_to_eof(&mut io, &mut seen, 0, false).await;
        }
        Sess::SpeedDownload { pre_read, resume_ms, .. } => {
            let mut io = io;
            if let Err(e) = io.write_all(b"GET /1mb.bin HTTP/1.1\r\nHost: speed.x\r\n\r\n").await {
                seen.error = Some(e.to_string());
                return seen;
            }
            let mut head = vec![];
            let mut b = [0u8; 1];
            while !head.ends_with(b"\r\n\r\n") {
                match tokio::time::timeout(Duration::from_secs(10), io.read(&mut b)).await {
                    Ok(Ok(1)) => head.push(b[0]),
                    other => {
                        seen.error = Some(format!("no response head: {:?} after {:?}", other, String::from_utf8_lossy(&head)));
                        return seen;
                    }
                }
            }
            if !head.starts_with(b"HTTP/1.1 200") {
                seen.error = Some(format!("GET /1mb.bin answered {:?}", String::from_utf8_lossy(&head)));
                return seen;
            }
            let mut got = vec![0u8; pre_read as usize];
            if pre_read > 0 {
                if let Ok(Ok(_)) = tokio::time::timeout(Duration::from_secs(10), io.read_exact(&mut got)).await {
                } else {
                    seen.error = Some("download before the submission".into());
                    return seen;
                }
            }
            tokio::time::sleep(Duration::from_millis(5)).await;
            let _ = ready.send(()).await;
            let t0 = wait_go(&mut go).await;
            tokio::time::sleep_until(t0 + Duration::from_millis(resume_ms as u64)).await;
            // the body is all zeros: whatever still arrives must be, and no more than a MiB in all
            let mut buf = vec![0u8; 8192];
            let mut total = pre_read as usize;
            seen.intact = got.iter().all(|x| *x == 0);
            loop {
                match tokio::time::timeout(Duration::from_secs(60), io.read(&mut buf)).await {
                    Err(_) => {
                        seen.end = "still open after 60 s".into();
                        break;
                    }
                    Ok(Ok(0)) => {
                        seen.closed = true;
                        seen.end = "eof".into();
                        break;
                    }
                    Ok(Ok(n)) => {
                        seen.intact &= buf[..n].iter().all(|x| *x == 0);
                        total += n;
                    }
                    Ok(Err(e)) => {
                        seen.closed = true;
                        seen.end = format!("error: {}", e);
                        break;
                    }
                }
            }
            seen.intact &= total <= 1 << 20;
            seen.received = total;
        }
        Sess::H1Tunnel { chunks, pre_read, resume_ms, .. } => {
            let mut io = io;
            let req = format!("CONNECT d.x:{0} HTTP/1.1\r\nHost: d.x:{0}\r\nProxy-Authorization: {1}\r\n\r\n", base_port, auth());
            if let Err(e) = io.write_all(req.as_bytes()).await {
                seen.error = Some(e.to_string());
                return seen;
            }
            let mut head = vec![];
            let mut b = [0u8; 1];
            while !head.ends_with(b"\r\n\r\n") {
                match tokio::time::timeout(Duration::from_secs(10), io.read(&mut b)).await {
                    Ok(Ok(1)) => head.push(b[0]),
                    other => {
                        seen.error = Some(format!("no response head: {:?} after {:?}", other, String::from_utf8_lossy(&head)));
                        return seen;
                    }
                }
            }
            if !head.starts_with(b"HTTP/1.1 200") {
                seen.error = Some(format!("CONNECT answered {:?}", String::from_utf8_lossy(&head)));
                return seen;
            }
            let Some(peer) = peer_by_port(&scripted, base_port) else {
                seen.error = Some("no destination".into());
                return seen;
            };
            let total: usize = chunks.iter().map(|c| *c as usize).sum();
            let mut off = 0;
            for c in &chunks {
                let _ = peer.to_client.send(PeerMsg::Data(Bytes::from(pattern(off, *c as usize))));
                off += *c as usize;
            }
            let pre = (pre_read as usize).min(total);
            let mut got = vec![0u8; pre];
            if pre > 0 {
                match tokio::time::timeout(Duration::from_secs(10), io.read_exact(&mut got)).await {
                    Ok(Ok(_)) => {}
                    other => {
                        seen.error = Some(format!("download before the submission: {:?}", other.map(|r| r.map(|_| ()))));
                        return seen;
                    }
                }
            }
            // let the endpoint push as much as the transport takes
            tokio::time::sleep(Duration::from_millis(5)).await;
            let _ = ready.send(()).await;
            let t0 = wait_go(&mut go).await;
            tokio::time::sleep_until(t0 + Duration::from_millis(resume_ms as u64)).await;
            read_to_eof(&mut io, &mut seen, pre, true).await;
            seen.intact &= got == pattern(0, pre);
            let _ = peer.to_client.send(PeerMsg::Eof);
        }
        Sess::H2RawLate | Sess::PingH2SlowAck { .. } => {
            let mut io = io;
            let (with_request, ack_delay) = match s {
                Sess::PingH2SlowAck { ack_delay_ms } => (false, ack_delay_ms as u64),
                _ => (true, 0),
            };
            let frame = |ty: u8, flags: u8, stream: u32, payload: &[u8]| -> Vec<u8> {
                let mut f = vec![(payload.len() >> 16) as u8, (payload.len() >> 8) as u8, payload.len() as u8, ty, flags];
                f.extend_from_slice(&stream.to_be_bytes());
                f.extend_from_slice(payload);
                f
            };
            let mut hello = b"PRI * HTTP/2.0\r\n\r\nSM\r\n\r\n".to_vec();
            hello.extend_from_slice(&frame(4, 0, 0, &[]));
            if let Err(e) = io.write_all(&hello).await {
                seen.error = Some(e.to_string());
                return seen;
            }
            // frames as they come: (type, flags, stream, payload)
            async fn next_frame(io: &mut tokio::io::DuplexStream, limit: Duration) -> Option<(u8, u8, u32, Vec<u8>)> {
                let mut head = [0u8; 9];
                tokio::time::timeout(limit, io.read_exact(&mut head)).await.ok()?.ok()?;
                let len = ((head[0] as usize) << 16) | ((head[1] as usize) << 8) | head[2] as usize;
                let mut payload = vec![0u8; len];
                tokio::time::timeout(limit, io.read_exact(&mut payload)).await.ok()?.ok()?;
                Some((head[3], head[4], u32::from_be_bytes([head[5] & 0x7f, head[6], head[7], head[8]]), payload))
            }
            // the endpoint's SETTINGS, acknowledged
            loop {
                match next_frame(&mut io, Duration::from_secs(5)).await {
                    Some((4, 0, 0, _)) => {
                        let _ = io.write_all(&frame(4, 1, 0, &[])).await;
                    }
                    Some((4, 1, 0, _)) => break,
                    Some(_) => {}
                    None => {
                        seen.error = Some("no SETTINGS exchange".into());
                        return seen;
                    }
                }
            }
            tokio::time::sleep(Duration::from_millis(5)).await;
            let _ = ready.send(()).await;
            wait_go(&mut go).await;
            // GOAWAY, then PING: answer with a request first, the acknowledgement second
            let mut goaways = 0;
            let mut ping = None;
            while ping.is_none() {
                match next_frame(&mut io, Duration::from_secs(5)).await {
                    Some((7, _, _, _)) => goaways += 1,
                    Some((6, 0, 0, p)) => ping = Some(p),
                    Some(_) => {}
                    None => break,
                }
            }
            if let (Some(p), false) = (&ping, with_request) {
                tokio::time::sleep(Duration::from_millis(ack_delay)).await;
                let _ = io.write_all(&frame(6, 1, 0, p)).await;
            }
            if let (Some(p), true) = (ping, with_request) {
                // HPACK, literal fields without indexing: :method CONNECT, :authority _check, proxy-authorization
                let mut block = vec![0x02, 0x07];
                block.extend_from_slice(b"CONNECT");
                block.extend_from_slice(&[0x01, 0x06]);
                block.extend_from_slice(b"_check");
                let a = auth();
                block.extend_from_slice(&[0x0f, 0x21, a.len() as u8]);
                block.extend_from_slice(a.as_bytes());
                let _ = io.write_all(&frame(1, 0x5, 1, &block)).await;
                let _ = io.write_all(&frame(6, 1, 0, &p)).await;
            }
            // whatever comes now, the connection must end
            let mut answered = false;
            loop {
                match next_frame(&mut io, Duration::from_secs(60)).await {
                    Some((7, _, _, _)) => goaways += 1,
                    Some((1, _, 1, _)) | Some((3, _, 1, _)) => answered = true,
                    Some(_) => {}
                    None => break,
                }
            }
            let mut b = [0u8; 1];
            match tokio::time::timeout(Duration::from_secs(1), io.read(&mut b)).await {
                Ok(Ok(0)) | Ok(Err(_)) => {
                    seen.closed = true;
                    seen.end = format!("closed after {} GOAWAY frames, request answered or reset: {}", goaways, answered);
                }
                _ => seen.end = format!("still open 60 s after the submission ({} GOAWAY frames, request answered or reset: {})", goaways, answered),
            }
            seen.intact = true;
            seen.goaway = Some(goaways > 0);
            if !with_request {
                seen.final_goaway = Some(goaways >= 2);
            }
        }
        Sess::H2Idle(n) | Sess::H2Tunnels { n, .. } | Sess::H2LateRequest { n, .. } => {
            let rec = Arc::new(Mutex::new(vec![]));
            let tee = Tee { inner: io, rec: rec.clone() };
            let (send, conn) = match h2::client::handshake(tee).await {
                Ok(x) => x,
                Err(e) => {
                    seen.error = Some(format!("h2 handshake: {}", e));
                    return seen;
                }
            };
            let conn = tokio::spawn(conn);
            let tunnels = matches!(s, Sess::H2Tunnels { .. });
            let chunk = if let Sess::H2Tunnels { chunk, .. } = s { chunk as usize } else { 0 };
            let mut open = vec![];
            for k in 0..n as u16 {
                let target = if tunnels { format!("d.x:{}", base_port + k) } else { "_check".to_string() };
                let req = http::Request::builder()
                    .method("CONNECT")
                    .uri(target.as_str())
                    .header("proxy-authorization", auth())
                    .body(())
                    .unwrap();
                let mut sr = match send.clone().ready().await {
                    Ok(x) => x,
                    Err(e) => {
                        seen.error = Some(format!("h2 ready: {}", e));
                        return seen;
                    }
                };
                let (resp, stream) = match sr.send_request(req, !tunnels) {
                    Ok(x) => x,
                    Err(e) => {
                        seen.error = Some(format!("h2 send_request: {}", e));
                        return seen;
                    }
                };
                let resp = match tokio::time::timeout(Duration::from_secs(10), resp).await {
                    Ok(Ok(r)) => r,
                    other => {
                        seen.error = Some(format!("h2 response: {:?}", other.map(|r| r.map(|x| x.status()))));
                        return seen;
                    }
                };
                if resp.status() != 200 {
                    seen.error = Some(format!("h2 CONNECT {} answered {}", target, resp.status()));
                    return seen;
                }
                if tunnels {
                    let Some(peer) = peer_by_port(&scripted, base_port + k) else {
                        seen.error = Some("no destination".into());
                        return seen;
                    };
                    let _ = peer.to_client.send(PeerMsg::Data(Bytes::from(pattern(0, chunk))));
                    let mut body = resp.into_body();
                    let mut got = vec![];
                    while got.len() < chunk {
                        match tokio::time::timeout(Duration::from_secs(10), body.data()).await {
                            Ok(Some(Ok(b))) => {
                                let _ = body.flow_control().release_capacity(b.len());
                                got.extend_from_slice(&b);
                            }
                            _ => {
                                seen.error = Some("h2 tunnel download before the submission ended early".into());
                                return seen;
                            }
                        }
                    }
                    if got != pattern(0, chunk) {
                        seen.error = Some("h2 tunnel download differs".into());
                        return seen;
                    }
                    open.push((stream, body, peer));
                }
            }
            // the server side has processed the connection preface by then
            tokio::time::sleep(Duration::from_millis(5)).await;
            let _ = ready.send(()).await;
            let t0 = wait_go(&mut go).await;
            let mut late = None;
            if let Sess::H2LateRequest { late_ms, .. } = s {
                tokio::time::sleep_until(t0 + Duration::from_millis(late_ms as u64)).await;
                let req = http::Request::builder().method("CONNECT").uri("_check").header("proxy-authorization", auth()).body(()).unwrap();
                // no waiting for readiness: the request leaves now, whatever the endpoint has announced
                let mut sr = send.clone();
                if let Ok((resp, _stream)) = sr.send_request(req, true) {
                    // answered, refused or reset - anything but left hanging
                    late = Some(tokio::spawn(async move { tokio::time::timeout(Duration::from_secs(60), resp).await.is_ok() }));
                }
            }
            if let Sess::H2Tunnels { end_ms, .. } = s {
                tokio::time::sleep_until(t0 + Duration::from_millis(end_ms as u64)).await;
                for (mut stream, _body, peer) in open.drain(..) {
                    let _ = stream.send_data(Bytes::new(), true);
                    let _ = peer.to_client.send(PeerMsg::Eof);
                }
            }
            match tokio::time::timeout(Duration::from_secs(60), conn).await {
                Err(_) => seen.end = "still open after 60 s".into(),
                Ok(r) => {
                    seen.closed = true;
                    seen.end = format!("{:?}", r.map(|x| x.map_err(|e| e.to_string())));
                }
            }
            drop(send); // kept until here: a client without handles closes the connection itself
            seen.intact = true;
            if let Some(l) = late {
                if !l.await.unwrap_or(false) {
                    seen.intact = false;
                    seen.end = format!("{}; the request sent around the submission was left without any answer for 60 s", seen.end);
                }
            }
            seen.goaway = Some(has_goaway(&rec.lock().unwrap()));
        }
    }
    seen
}

pub struct SessionSuite;

fn run_case(c: &Case) -> Verdict {
    aio::block_on_paused(async move {
        aio::skew_clock().await;
        let slow_ping = c.sessions.iter().any(|s| matches!(s, Sess::PingH2SlowAck { .. }));
        let spec = CoreSpec {
            ping_hosts: vec![("ping.x".into(), 1)],
            speedtest: true,
            speed_hosts: vec![("speed.x".into(), 2)],
            reverse_proxy: Some(("127.0.0.1:9".parse().unwrap(), "/api".into())),
            handshake_timeout: if slow_ping { Duration::from_secs(1) } else { CoreSpec::default().handshake_timeout },
            ..CoreSpec::default()
        };
        let world: World = spec.build().expect("core");
        let began = Instant::now();
        let scripted = Scripted::new(|_| Outcome::Silent);
        let _guard = scripted.install(&world);
        let (ready_tx, mut ready_rx) = tokio::sync::mpsc::channel(16);
        let (go_tx, go_rx) = tokio::sync::watch::channel(None);
        let finished: Arc<Mutex<Vec<Option<Instant>>>> = Arc::new(Mutex::new(vec![None; c.sessions.len()]));
        let mut clients = vec![];
        for (i, s) in c.sessions.iter().enumerate() {
            let (proto, channel, sni, buf) = match s {
                Sess::H1Idle => (Proto::Http1, ChannelView::Tunnel, "main.x", 4096),
                Sess::PingIdle => (Proto::Http1, ChannelView::Ping, "ping.x", 4096),
                Sess::H1Tunnel { buf, .. } => (Proto::Http1, ChannelView::Tunnel, "main.x", (*buf as usize).max(256)),
                Sess::H2Idle(_) | Sess::H2Tunnels { .. } | Sess::H2LateRequest { .. } | Sess::H2RawLate => (Proto::Http2, ChannelView::Tunnel, "main.x", 64 * 1024),
                Sess::PingH2SlowAck { .. } => (Proto::Http2, ChannelView::Ping, "ping.x", 64 * 1024),
                Sess::SpeedIdle => (Proto::Http1, ChannelView::Speedtest, "speed.x", 4096),
                Sess::RpIdle => (Proto::Http1, ChannelView::ReverseProxy, "rp.x", 4096),
                Sess::SpeedDownload { buf, .. } => (Proto::Http1, ChannelView::Speedtest, "speed.x", (*buf as usize).max(256)),
            };
            let (io, server) = world.serve(proto, channel, sni, None, crate::engine::world::peer_v4(), buf);
            let f = finished.clone();
            tokio::spawn(async move {
                let _ = server.await;
                f.lock().unwrap()[i] = Some(Instant::now());
            });
            clients.push(tokio::spawn(client(i, s.clone(), io, scripted.clone(), ready_tx.clone(), go_rx.clone())));
        }
        drop(ready_tx);
        let mut ready = 0;
        while ready < c.sessions.len() {
            match tokio::time::timeout(Duration::from_secs(30), ready_rx.recv()).await {
                Ok(Some(())) => ready += 1,
                _ => break,
            }
        }
        if slow_ping {
            tokio::time::sleep_until(began + Duration::from_millis(850)).await;
        } else {
            tokio::time::sleep(Duration::from_millis(c.submit_at_ms as u64)).await;
        }
        let t0 = Instant::now();
        world.shutdown.lock().unwrap().submit();
        let _ = go_tx.send(Some(t0));
        // what the application does: wait for completion holding the lock
        #[allow(clippy::await_holding_lock)]
        let completion = tokio::time::timeout(Duration::from_secs(300), async {
            let mut g = world.shutdown.lock().unwrap();
            g.completion().await;
            Instant::now()
        })
        .await
        .ok();
        tokio::time::sleep(Duration::from_millis(1)).await;
        let at_completion: Vec<Option<Instant>> = finished.lock().unwrap().clone();
        let mut seen = vec![];
        for cl in clients {
            seen.push(cl.await.unwrap_or_else(|e| Seen { error: Some(e.to_string()), ..Default::default() }));
        }
        tokio::time::sleep(Duration::from_secs(30)).await;
        let at_end: Vec<Option<Instant>> = finished.lock().unwrap().clone();
        for (s, o) in c.sessions.iter().zip(&seen) {
            if let Some(e) = &o.error {
                return viol("harness:session-setup", format!("{:?}: {}", s, e));
            }
        }
        let ms = |t: Instant| t.duration_since(t0).as_millis();
        for (i, s) in c.sessions.iter().enumerate() {
            crate::ensure!(
                at_end[i].is_some(),
                "session:never-wound-down",
                "{:?}: the session's handler is still running 30 s after its client was done (client saw: {})",
                s,
                seen[i].end
            );
            crate::ensure!(seen[i].closed, "session:not-closed", "{:?}: the client never saw the connection end ({})", s, seen[i].end);
            crate::ensure!(
                seen[i].intact,
                "session:download-has-a-hole",
                "{:?}: the bytes delivered during the wind-down are not a prefix of the destination's stream ({} bytes received)",
                s,
                seen[i].received
            );
            if let Some(false) = seen[i].final_goaway {
                return viol("session:wind-down-cut-short", format!("{:?}: the session timeout fell into the wind-down and the session was ended without the final GOAWAY ({})", s, seen[i].end));
            }
            if let Some(g) = seen[i].goaway {
                crate::ensure!(g, "session:h2-no-goaway", "{:?}: the HTTP/2 session ended without a GOAWAY frame ({})", s, seen[i].end);
            }
        }
        let last = at_end.iter().flatten().max().copied().unwrap_or(t0);
        match completion {
            None => viol(
                "completion:hangs",
                format!("every session finished by {} ms after the submission, completion() still pending 300 s later", ms(last)),
            ),
            Some(tc) => {
                for (i, s) in c.sessions.iter().enumerate() {
                    crate::ensure!(
                        at_completion[i].is_some(),
                        "completion:early",
                        "completion() returned {} ms after the submission while {:?} was still winding down (it finished at {} ms)",
                        ms(tc),
                        s,
                        at_end[i].map(ms).unwrap_or(0)
                    );
                }
                crate::ensure!(
                    tc <= last + Duration::from_millis(5),
                    "completion:late",
                    "the last session finished {} ms after the submission, completion() returned at {} ms",
                    ms(last),
                    ms(tc)
                );
                Ok(())
            }
        }
    })
}

/// C08's share of the above: the payload an HTTP/1.1 tunnel delivers is the destination's byte
/// stream also when the relay is interrupted (the session's `listen` is cancelled by a shutdown
/// while a chunk is only partly written to a client that is not reading) and resumed by the
/// wind-down. Everything else about the wind-down is C19's business and not judged here.
pub struct H1DownloadAcrossShutdownSuite;

impl Suite for H1DownloadAcrossShutdownSuite {
    type Case = Case;
    fn name(&self) -> &'static str {
        "h1-download-across-shutdown"
    }
    fn rule(&self) -> String {
        "1-2 real HTTP/1.1 tunnel sessions over in-memory transports (virtual clock, scripted forwarder) whose destination pushed 1-6 chunks of 1-6000 bytes into a 256-8192 byte transport of which the client has read a generated part; a shutdown is submitted 0-300 ms later - it cancels the codec's listen() in the middle of a partly written chunk - and the client resumes reading 0-3000 ms after that; oracle: the bytes the client has received when the connection ends are a prefix of the destination's stream (no hole, nothing twice); non-trivial = more bytes pushed than the client had read plus what its transport holds".into()
    }
    fn strategy(&self, _: Tier) -> BoxedStrategy<Case> {
        let s = (prop::collection::vec(1u16..6000, 1..=6), 256u16..8192, 0u16..4000, 0u16..3000)
            .prop_map(|(chunks, buf, pre_read, resume_ms)| Sess::H1Tunnel { chunks, buf, pre_read, resume_ms });
        (prop::collection::vec(s, 1..=2), 0u16..300).prop_map(|(sessions, submit_at_ms)| Case { sessions, submit_at_ms }).boxed()
    }
    fn cases(&self, tier: Tier) -> u64 {
        tier.pick(2000, 60_000)
    }
    fn classify(&self, c: &Case) -> Vec<&'static str> {
        let parked = c.sessions.iter().any(|s| match s {
            Sess::H1Tunnel { chunks, buf, pre_read, .. } => chunks.iter().map(|c| *c as usize).sum::<usize>() > *pre_read as usize + *buf as usize,
            _ => false,
        });
        if parked {
            vec!["nontrivial"]
        } else {
            vec![]
        }
    }
    fn check(&self, c: &Case) -> Verdict {
        match run_case(c) {
            Err(v) if v.sig == "session:download-has-a-hole" || v.sig.starts_with("harness:") => Err(v),
            _ => Ok(()),
        }
    }
}

impl Suite for SessionSuite {
    type Case = Case;
    fn name(&self) -> &'static str {
        "session-wind-down"
    }
    fn rule(&self) -> String {
        "1-4 real sessions over in-memory transports (virtual clock, scripted forwarder) in generated states - HTTP/1.1 tunnel-, ping-, speedtest- or reverse-proxy-channel connection without a request, HTTP/1.1 speedtest download of 1 MiB of which the client has read 0-20000 bytes and resumes reading 0-3000 ms after the submission, HTTP/1.1 tunnel whose destination pushed 1-6 chunks of 1-6000 bytes into a 256-8192 byte transport of which the client has read a generated part and resumes reading 0-3000 ms after the submission, HTTP/2 session after 0-2 health checks, the same with one more request that the client sends 0-3 ms after the submission (in flight when the endpoint announces its shutdown), a frame-level HTTP/2 client that answers GOAWAY + PING with a new request before it acknowledges the PING, an HTTP/2 ping-channel session (session timeout 1 s) whose frame-level client acknowledges the PING 200-600 ms after a shutdown submitted 850 ms into the session (the wind-down must be completed - final GOAWAY - although it crosses the session's own timeout), HTTP/2 session with 1-3 open tunnels that both ends finish 0-3000 ms after the submission - then Shutdown::submit() at a generated moment and completion() awaited the way main.rs does; oracle: every session handler ends, every client sees the end, HTTP/2 clients see a GOAWAY frame, HTTP/1.1 downloads delivered during the wind-down are a prefix of the destination's stream, completion() returns neither before the last handler has ended nor more than 5 ms after it; non-trivial = a session that cannot finish at once (unread download or open tunnels) or several sessions".into()
    }
    fn strategy(&self, _: Tier) -> BoxedStrategy<Case> {
        let s = prop_oneof![
            1 => Just(Sess::H1Idle),
            1 => Just(Sess::PingIdle),
            4 => (prop::collection::vec(1u16..6000, 1..=6), 256u16..8192, 0u16..4000, 0u16..3000)
                .prop_map(|(chunks, buf, pre_read, resume_ms)| Sess::H1Tunnel { chunks, buf, pre_read, resume_ms }),
            2 => (0u8..3).prop_map(Sess::H2Idle),
            3 => (1u8..4, 1u16..20000, 0u16..3000).prop_map(|(n, chunk, end_ms)| Sess::H2Tunnels { n, chunk, end_ms }),
            1 => (0u8..3, 0u8..4).prop_map(|(n, late_ms)| Sess::H2LateRequest { n, late_ms }),
            2 => Just(Sess::H2RawLate),
            1 => Just(Sess::SpeedIdle),
            1 => Just(Sess::RpIdle),
            3 => (256u16..8192, 0u16..20000, 0u16..3000).prop_map(|(buf, pre_read, resume_ms)| Sess::SpeedDownload { buf, pre_read, resume_ms }),
        ];
        prop_oneof![
            12 => (prop::collection::vec(s, 1..=4), 0u16..300).prop_map(|(sessions, submit_at_ms)| Case { sessions, submit_at_ms }),
            1 => (200u16..600).prop_map(|ack_delay_ms| Case { sessions: vec![Sess::PingH2SlowAck { ack_delay_ms }], submit_at_ms: 0 }),
        ]
        .boxed()
    }
    fn cases(&self, tier: Tier) -> u64 {
        tier.pick(8000, 200_000)
    }
    fn classify(&self, c: &Case) -> Vec<&'static str> {
        let mut v = vec![];
        let mut slow = false;
        for s in &c.sessions {
            match s {
                Sess::H1Idle => v.push("h1-idle"),
                Sess::PingIdle => v.push("ping-idle"),
                Sess::H1Tunnel { chunks, buf, pre_read, .. } => {
                    v.push("h1-tunnel");
                    let total: usize = chunks.iter().map(|c| *c as usize).sum();
                    if total > *pre_read as usize + *buf as usize {
                        v.push("h1-tunnel-more-than-the-transport-holds");
                        slow = true;
                    }
                }
                Sess::H2Idle(_) => v.push("h2-idle"),
                Sess::H2Tunnels { .. } => {
                    v.push("h2-open-tunnels");
                    slow = true;
                }
                Sess::H2LateRequest { .. } | Sess::H2RawLate => {
                    v.push("h2-request-in-flight-at-the-submission");
                    slow = true;
                }
                Sess::PingH2SlowAck { .. } => {
                    v.push("wind-down-across-the-session-timeout");
                    slow = true;
                }
                Sess::SpeedIdle | Sess::RpIdle => v.push("speedtest-or-reverse-proxy-idle"),
                Sess::SpeedDownload { .. } => {
                    v.push("speedtest-download-in-progress");
                    slow = true;
                }
            }
        }
        v.sort();
        v.dedup();
        if slow || c.sessions.len() >= 2 {
            v.push("nontrivial");
        }
        v
    }
    fn required_classes(&self) -> Vec<&'static str> {
        vec!["nontrivial", "h1-idle", "ping-idle", "h1-tunnel", "h1-tunnel-more-than-the-transport-holds", "h2-idle", "h2-open-tunnels", "speedtest-or-reverse-proxy-idle", "speedtest-download-in-progress", "h2-request-in-flight-at-the-submission", "wind-down-across-the-session-timeout"]
    }
    fn check(&self, c: &Case) -> Verdict {
        run_case(c)
    }
}
