//! C06 — UDP multiplexer wire codec: exact, segmentation-invariant, resynchronising.

use crate::engine::{self, idx, viol, Ctx, Suite, Tier, Verdict};
use crate::ensure;
use crate::reference::udpmux::{self, Outcome};
use bytes::Bytes;
use proptest::prelude::*;
use serde::{Deserialize, Serialize};
use serde_json::Value;
use std::collections::VecDeque;
use std::net::{IpAddr, Ipv4Addr, Ipv6Addr, SocketAddr};
use trusttunnel::verif::codecs::{udp_encode, UdpDecoder, UdpIn, UdpOut};

pub fn junk(seed: u8, i: usize) -> u8 {
    let x = (i as u32)
        .wrapping_mul(2654435761)
        .wrapping_add((seed as u32).wrapping_mul(40503));
    (x >> 13) as u8
}

#[derive(Serialize, Deserialize, Debug, Clone)]
pub struct Rec {
    pub kind: String,
    /// length field, fixed header, application name (or whatever the kind puts there)
    pub head: Vec<u8>,
    /// pseudo-random bytes following the head
    pub body_len: u32,
    pub seed: u8,
}

impl Rec {
    pub fn bytes(&self) -> Vec<u8> {
        let mut v = self.head.clone();
        v.extend((0..self.body_len as usize).map(|i| junk(self.seed, i)));
        v
    }
}

#[derive(Serialize, Deserialize, Debug, Clone)]
pub enum Seg {
    Whole,
    ByteAtATime,
    Cuts(Vec<u16>),
    /// every k-cut (k = 1..=max_k) with all cut points inside the first `window` bytes
    AllCuts { max_k: u8, window: u16 },
}

#[derive(Serialize, Deserialize, Debug, Clone)]
pub struct DecodeCase {
    pub recs: Vec<Rec>,
    /// incomplete trailing bytes (a record that never completes)
    pub trailing: Vec<u8>,
    pub seg: Seg,
}

pub fn ip_strategy() -> BoxedStrategy<IpAddr> {
    prop_oneof![
        4 => any::<[u8; 4]>().prop_map(|a| IpAddr::V4(Ipv4Addr::from(a))),
        4 => any::<[u8; 16]>().prop_map(|a| IpAddr::V6(Ipv6Addr::from(a))),
        1 => Just(IpAddr::V6(Ipv6Addr::UNSPECIFIED)),
        1 => Just(IpAddr::V4(Ipv4Addr::UNSPECIFIED)),
        1 => Just(IpAddr::V6(Ipv6Addr::LOCALHOST)),
        1 => Just(IpAddr::V4(Ipv4Addr::LOCALHOST)),
        1 => any::<[u8; 4]>().prop_map(|a| IpAddr::V6(Ipv4Addr::from(a).to_ipv6_mapped())),
        1 => any::<[u8; 4]>().prop_map(|a| {
            let mut b = [0u8; 16];
            b[12..].copy_from_slice(&a);
            IpAddr::V6(Ipv6Addr::from(b))
        }),
        1 => any::<[u8; 2]>().prop_map(|a| {
            let mut b = [0u8; 16];
            b[0] = a[0];
            b[15] = a[1];
            IpAddr::V6(Ipv6Addr::from(b))
        }),
    ]
    .boxed()
}

fn header(
    len: u32,
    src: SocketAddr,
    dst: SocketAddr,
    name_len_byte: u8,
    name: &[u8],
) -> Vec<u8> {
    let mut v = vec![];
    v.extend_from_slice(&len.to_be_bytes());
    v.extend_from_slice(&udpmux::encode_ip(&src.ip()));
    v.extend_from_slice(&src.port().to_be_bytes());
    v.extend_from_slice(&udpmux::encode_ip(&dst.ip()));
    v.extend_from_slice(&dst.port().to_be_bytes());
    v.push(name_len_byte);
    v.extend_from_slice(name);
    v
}

fn name_strategy(small: bool) -> BoxedStrategy<String> {
    if small {
        prop_oneof![
            3 => Just(String::new()),
            3 => "[a-z]{1,3}",
            1 => Just("é".to_string()),
        ]
        .boxed()
    } else {
        prop_oneof![
            3 => Just(String::new()),
            6 => "[a-zA-Z0-9._ -]{1,24}",
            2 => "\\PC{1,20}",
            1 => "[a-z]{255}",
        ]
        .boxed()
    }
}

/// `small`: records short enough for exhaustive cut enumeration.
pub fn rec_strategy(small: bool, big: bool) -> BoxedStrategy<Rec> {
    let addr = || (ip_strategy(), any::<u16>()).prop_map(|(ip, p)| SocketAddr::new(ip, p));
    let payload_len = if small {
        prop_oneof![2 => Just(0u32), 5 => 1u32..8].boxed()
    } else if big {
        prop_oneof![
            2 => Just(0u32),
            10 => 1u32..300,
            2 => 300u32..3000,
            1 => 60_000u32..=64_000,
        ]
        .boxed()
    } else {
        prop_oneof![2 => Just(0u32), 10 => 1u32..300, 2 => 300u32..3000].boxed()
    };
    let valid = (addr(), addr(), name_strategy(small), payload_len.clone(), any::<u8>()).prop_map(
        |(s, d, name, plen, seed)| {
            let len = (udpmux::IN_HEADER + name.len()) as u32 + plen;
            Rec {
                kind: if plen == 0 { "valid-empty" } else { "valid" }.into(),
                head: header(len, s, d, name.len() as u8, name.as_bytes()),
                body_len: plen,
                seed,
            }
        },
    );
    let short_len = (0u32..udpmux::IN_HEADER as u32, any::<u8>()).prop_map(|(l, seed)| Rec {
        kind: "short-len".into(),
        head: l.to_be_bytes().to_vec(),
        body_len: l,
        seed,
    });
    let len_lt_name = (addr(), addr(), 1u8..=255, any::<u16>(), any::<u8>()).prop_map(
        |(s, d, name_len, pick, seed)| {
            // declared length covers the fixed header but not the whole name
            let extra = idx(pick, name_len as usize) as u32; // 0..name_len-1 bytes after the header
            let len = udpmux::IN_HEADER as u32 + extra;
            Rec {
                kind: "len-lt-name".into(),
                head: header(len, s, d, name_len, &[]),
                body_len: extra,
                seed,
            }
        },
    );
    let bad_utf8 = (
        addr(),
        addr(),
        prop_oneof![
            Just(vec![0xffu8]),
            Just(vec![b'a', 0xc3]),
            Just(vec![0xe2, 0x82]),
            Just(vec![b'x', 0x80, b'y']),
            Just(vec![0xed, 0xa0, 0x80]),
        ],
        if small { (0u32..6).boxed() } else { (0u32..200).boxed() },
        any::<u8>(),
    )
        .prop_map(|(s, d, name, plen, seed)| {
            let len = (udpmux::IN_HEADER + name.len()) as u32 + plen;
            Rec {
                kind: "bad-utf8".into(),
                head: header(len, s, d, name.len() as u8, &name),
                body_len: plen,
                seed,
            }
        });
    if small {
        prop_oneof![6 => valid, 2 => short_len, 1 => len_lt_name, 2 => bad_utf8].boxed()
    } else if big {
        let oversize = (addr(), addr(), name_strategy(false), 65_508u32..70_000, any::<u8>())
            .prop_map(|(s, d, name, plen, seed)| {
                let len = (udpmux::IN_HEADER + name.len()) as u32 + plen;
                Rec {
                    kind: "oversize".into(),
                    head: header(len, s, d, name.len() as u8, name.as_bytes()),
                    body_len: plen,
                    seed,
                }
            });
        let zone = (addr(), addr(), name_strategy(false), 64_001u32..=65_507, any::<u8>())
            .prop_map(|(s, d, name, plen, seed)| {
                let len = (udpmux::IN_HEADER + name.len()) as u32 + plen;
                Rec {
                    kind: "size-zone".into(),
                    head: header(len, s, d, name.len() as u8, name.as_bytes()),
                    body_len: plen,
                    seed,
                }
            });
        prop_oneof![8 => valid, 2 => short_len, 2 => len_lt_name, 2 => bad_utf8, 2 => oversize, 1 => zone]
            .boxed()
    } else {
        prop_oneof![8 => valid, 2 => short_len, 2 => len_lt_name, 2 => bad_utf8].boxed()
    }
}

fn to_ref(d: &UdpIn) -> udpmux::Datagram {
    udpmux::Datagram {
        source: d.source,
        destination: d.destination,
        app_name: d.app_name.clone().unwrap_or_default(),
        payload: d.payload.to_vec(),
    }
}

/// Feed the pieces to the real decoder the way `DatagramDecoder::read` does (tail re-queued in
/// front of the pending bytes) and collect every datagram.
pub fn drive(pieces: &[&[u8]]) -> Vec<udpmux::Datagram> {
    let mut dec = UdpDecoder::default();
    let mut out = vec![];
    let mut pending: VecDeque<Bytes> = VecDeque::new();
    for p in pieces {
        if p.is_empty() {
            continue;
        }
        pending.push_back(Bytes::copy_from_slice(p));
        while let Some(chunk) = pending.pop_front() {
            if let Some((d, tail)) = dec.decode_chunk(chunk) {
                out.push(to_ref(&d));
                if !tail.is_empty() {
                    pending.push_front(tail);
                }
            }
        }
    }
    out
}

fn short(d: &udpmux::Datagram) -> String {
    format!(
        "{}->{} name={:?} payload={}B",
        d.source,
        d.destination,
        d.app_name,
        d.payload.len()
    )
}

pub fn compare(expected: &[Outcome], actual: &[udpmux::Datagram], what: &str) -> Verdict {
    let mut ai = 0usize;
    let mut seen_drop = false;
    for (i, e) in expected.iter().enumerate() {
        match e {
            Outcome::Drop => seen_drop = true,
            Outcome::Either(d) => {
                if actual.get(ai) == Some(d) {
                    ai += 1;
                }
            }
            Outcome::Deliver(d) => {
                let got = actual.get(ai);
                if got != Some(d) {
                    let sig = if got.is_none() && d.payload.is_empty() && i == expected.len() - 1 {
                        "decode:trailing-empty-payload-not-emitted"
                    } else if got.is_some_and(|g| {
                        g.payload == d.payload
                            && g.app_name == d.app_name
                            && (g.source != d.source || g.destination != d.destination)
                    }) {
                        "decode:address-mismatch"
                    } else if seen_drop {
                        "decode:no-resync-after-rejected-record"
                    } else {
                        "decode:mismatch"
                    };
                    return viol(
                        sig,
                        format!(
                            "{}: record #{} expected [{}], decoder produced {}",
                            what,
                            i,
                            short(d),
                            got.map(short).unwrap_or_else(|| "nothing".into())
                        ),
                    );
                }
                ai += 1;
            }
        }
    }
    if ai != actual.len() {
        return viol(
            "decode:extra-datagram",
            format!(
                "{}: decoder produced {} datagrams beyond the expected sequence, first extra [{}]",
                what,
                actual.len() - ai,
                short(&actual[ai])
            ),
        );
    }
    Ok(())
}

fn pieces_of<'a>(stream: &'a [u8], cuts: &[usize]) -> Vec<&'a [u8]> {
    let mut v = vec![];
    let mut prev = 0;
    for &c in cuts {
        v.push(&stream[prev..c]);
        prev = c;
    }
    v.push(&stream[prev..]);
    v
}

/// Calls `f` with every strictly increasing k-tuple of cut points in 1..limit, k = 1..=max_k.
pub fn for_all_cuts(limit: usize, max_k: usize, mut f: impl FnMut(&[usize]) -> Verdict) -> Verdict {
    if limit < 2 {
        return Ok(());
    }
    let n = limit - 1; // cut points 1..=n
    for a in 1..=n {
        f(&[a])?;
        if max_k >= 2 {
            for b in a + 1..=n {
                f(&[a, b])?;
                if max_k >= 3 {
                    for c in b + 1..=n {
                        f(&[a, b, c])?;
                    }
                }
            }
        }
    }
    Ok(())
}

pub struct DecodeSuite {
    pub small: bool,
}

impl DecodeCase {
    pub fn stream(&self) -> Vec<u8> {
        let mut s: Vec<u8> = self.recs.iter().flat_map(|r| r.bytes()).collect();
        s.extend_from_slice(&self.trailing);
        s
    }
}

impl Suite for DecodeSuite {
    type Case = DecodeCase;

    fn name(&self) -> &'static str {
        if self.small {
            "decode-all-cuts"
        } else {
            "decode-random-cuts"
        }
    }

    fn rule(&self) -> String {
        if self.small {
            "streams of 1-3 short records (valid / declared length < 37 / length < header+name / non-UTF-8 name / empty payload, IPv4, IPv6, ::, ::1, mapped and compatible endpoints) fed to the real decoder under EVERY 1-, 2- and 3-cut segmentation of the first `window` bytes plus byte-at-a-time, compared with an independent PROTOCOL.md 6.3 decoder; non-trivial = stream holds a rejected record followed by a valid one, or is cut inside a record header (always true for all-cuts)".into()
        } else {
            "streams of 1-6 records (also 60-64 KB payloads, oversize > 65507 and implementation-defined-zone sizes, 255-byte names) under whole / byte-at-a-time / 1-8 random cuts; same oracle; non-trivial = rejected record followed by a valid one, or a cut inside a length/header field".into()
        }
    }

    fn strategy(&self, tier: Tier) -> BoxedStrategy<DecodeCase> {
        let small = self.small;
        let recs = if small {
            prop::collection::vec(rec_strategy(true, false), 1..=3).boxed()
        } else {
            prop_oneof![
                6 => prop::collection::vec(rec_strategy(false, false), 1..=6),
                1 => prop::collection::vec(rec_strategy(false, true), 1..=3),
            ]
            .boxed()
        };
        let trailing = prop_oneof![
            3 => Just(vec![]),
            1 => prop::collection::vec(any::<u8>(), 1..=3),
            1 => Just(vec![0, 0, 0, 60, 0, 0, 0, 0]),
        ];
        let seg = if small {
            let max_k = tier.pick(2u8, 3u8);
            let window = tier.pick(100u16, 120u16);
            prop_oneof![Just(Seg::AllCuts { max_k, window })].boxed()
        } else {
            prop_oneof![
                1 => Just(Seg::Whole),
                1 => Just(Seg::ByteAtATime),
                6 => prop::collection::vec(any::<u16>(), 1..=8).prop_map(Seg::Cuts),
            ]
            .boxed()
        };
        (recs, trailing, seg)
            .prop_map(|(recs, trailing, seg)| DecodeCase {
                recs,
                trailing,
                seg,
            })
            .boxed()
    }

    fn cases(&self, tier: Tier) -> u64 {
        if self.small {
            tier.pick(2400, 6400)
        } else {
            tier.pick(60_000, 600_000)
        }
    }

    fn classify(&self, case: &DecodeCase) -> Vec<&'static str> {
        let mut v = vec![];
        let stream = case.stream();
        let (exp, _) = udpmux::decode_stream(&stream);
        let mut drop_then_valid = false;
        let mut seen_drop = false;
        for e in &exp {
            match e {
                Outcome::Drop => seen_drop = true,
                Outcome::Deliver(_) if seen_drop => drop_then_valid = true,
                _ => {}
            }
        }
        if drop_then_valid {
            v.push("rejected-then-valid");
        }
        if exp.iter().any(|e| matches!(e, Outcome::Deliver(d) if d.payload.is_empty())) {
            v.push("empty-payload");
        }
        if exp.iter().any(|e| matches!(e, Outcome::Either(_))) {
            v.push("size-zone");
        }
        if case.recs.iter().any(|r| r.kind == "oversize") {
            v.push("oversize");
        }
        if !case.trailing.is_empty() {
            v.push("trailing-partial");
        }
        // a cut inside a length/header field?
        let mut header_cut = matches!(case.seg, Seg::AllCuts { .. } | Seg::ByteAtATime);
        if let Seg::Cuts(c) = &case.seg {
            let mut off = 0usize;
            let cuts: Vec<usize> = c
                .iter()
                .map(|x| 1 + idx(*x, stream.len().saturating_sub(1)))
                .collect();
            for r in &case.recs {
                let hl = r.head.len();
                if cuts.iter().any(|c| *c > off && *c < off + hl) {
                    header_cut = true;
                }
                off += hl + r.body_len as usize;
            }
        }
        if header_cut {
            v.push("cut-inside-header");
        }
        if drop_then_valid || header_cut {
            v.push("nontrivial");
        }
        v
    }

    fn required_classes(&self) -> Vec<&'static str> {
        vec!["nontrivial", "rejected-then-valid", "empty-payload"]
    }

    fn check(&self, case: &DecodeCase) -> Verdict {
        let stream = case.stream();
        let (expected, _) = udpmux::decode_stream(&stream);
        let run = |cuts: &[usize]| -> Verdict {
            let pieces = pieces_of(&stream, cuts);
            let actual = engine::no_panic("decode:panic", || drive(&pieces))?;
            compare(&expected, &actual, &format!("cuts {:?}", cuts))
        };
        match &case.seg {
            Seg::Whole => {
                engine::bump("segmentations", 1);
                run(&[])
            }
            Seg::ByteAtATime => {
                engine::bump("segmentations", 1);
                let cuts: Vec<usize> = (1..stream.len()).collect();
                run(&cuts)
            }
            Seg::Cuts(c) => {
                engine::bump("segmentations", 1);
                let mut cuts: Vec<usize> = c
                    .iter()
                    .map(|x| 1 + idx(*x, stream.len().saturating_sub(1)))
                    .filter(|c| *c < stream.len())
                    .collect();
                cuts.sort();
                cuts.dedup();
                run(&cuts)
            }
            Seg::AllCuts { max_k, window } => {
                let limit = stream.len().min(*window as usize);
                let mut n = 0u64;
                let r = for_all_cuts(limit, *max_k as usize, |cuts| {
                    n += 1;
                    if n % 4096 == 0 {
                        engine::watchdog::heartbeat();
                    }
                    run(cuts)
                });
                engine::bump("segmentations", n + 2);
                r?;
                run(&[])?;
                let cuts: Vec<usize> = (1..stream.len()).collect();
                run(&cuts)
            }
        }
    }
}

#[derive(Serialize, Deserialize, Debug, Clone)]
pub struct EncodeCase {
    pub source: SocketAddr,
    pub destination: SocketAddr,
    pub payload_len: u32,
    pub seed: u8,
}

pub struct EncodeSuite;

impl Suite for EncodeSuite {
    type Case = EncodeCase;

    fn name(&self) -> &'static str {
        "encode"
    }

    fn rule(&self) -> String {
        "arbitrary (source, destination, payload 0..65507 B) encoded by the real 6.4 encoder and compared byte for byte with a reference encoder (big-endian length excluding itself, IPv4 zero-padded to 16 bytes), then decoded back by the reference; non-trivial = IPv4 endpoint on either side or empty payload".into()
    }

    fn strategy(&self, _tier: Tier) -> BoxedStrategy<EncodeCase> {
        let addr = || (ip_strategy(), any::<u16>()).prop_map(|(ip, p)| SocketAddr::new(ip, p));
        (
            addr(),
            addr(),
            prop_oneof![1 => Just(0u32), 8 => 1u32..2000, 1 => 60_000u32..=65_507],
            any::<u8>(),
        )
            .prop_map(|(source, destination, payload_len, seed)| EncodeCase {
                source,
                destination,
                payload_len,
                seed,
            })
            .boxed()
    }

    fn cases(&self, tier: Tier) -> u64 {
        tier.pick(40_000, 400_000)
    }

    fn classify(&self, c: &EncodeCase) -> Vec<&'static str> {
        let mut v = vec![];
        if c.source.is_ipv4() || c.destination.is_ipv4() {
            v.push("ipv4-endpoint");
            v.push("nontrivial");
        }
        if c.payload_len == 0 {
            v.push("empty-payload");
            v.push("nontrivial");
        }
        v
    }

    fn check(&self, c: &EncodeCase) -> Verdict {
        let payload: Vec<u8> = (0..c.payload_len as usize).map(|i| junk(c.seed, i)).collect();
        let d = UdpOut {
            source: c.source,
            destination: c.destination,
            payload: Bytes::from(payload.clone()),
        };
        let wire = engine::no_panic("encode:panic", || udp_encode(&d))?;
        let Some(wire) = wire else {
            return viol("encode:refused", "encoder returned None for a sendable datagram");
        };
        let reference = udpmux::encode_out(&c.source, &c.destination, &payload);
        ensure!(
            wire.as_ref() == reference.as_slice(),
            "encode:bytes-differ",
            "encoder output differs from PROTOCOL.md 6.4: got {} want {}",
            engine::hex(&wire[..wire.len().min(44)]),
            engine::hex(&reference[..reference.len().min(44)])
        );
        let back = udpmux::decode_out(&wire);
        ensure!(back.is_some(), "encode:roundtrip", "reference cannot decode encoder output");
        let (s, dd, p) = back.unwrap();
        let canon = |a: &SocketAddr| {
            SocketAddr::new(udpmux::decode_ip(&udpmux::encode_ip(&a.ip())), a.port())
        };
        ensure!(
            s == canon(&c.source) && dd == canon(&c.destination) && p == payload,
            "encode:roundtrip",
            "round trip changed the datagram"
        );
        Ok(())
    }
}

/// 2^32 - 1 declared length: the decoder must skip 4 GiB and then resynchronise.
fn huge_skip(ctx: &mut Ctx) {
    const SUITE: &str = "decode-huge-skip";
    if !ctx.suite_enabled(SUITE) || ctx.shard != 0 {
        return;
    }
    ctx.suite_mut(SUITE).rule = "records with declared length 2^31, 2^32-37 and 2^32-1 followed by exactly that many bytes (fed as 1 MiB chunks) and then a valid record: the valid record must be decoded (thorough tier only; every case non-trivial)".into();
    static ZEROS: [u8; 1 << 20] = [0u8; 1 << 20];
    for (n, len) in [1u64 << 31, (1u64 << 32) - 37, (1u64 << 32) - 1]
        .into_iter()
        .enumerate()
    {
        let case = serde_json::json!({"declared_len": len});
        engine::watchdog::begin_case(ctx.prop, SUITE, &case);
        let verdict = engine::no_panic("decode:panic", || {
            let mut dec = UdpDecoder::default();
            let mut got = vec![];
            let mut feed = |b: Bytes, got: &mut Vec<udpmux::Datagram>| {
                let mut pending = VecDeque::from([b]);
                while let Some(chunk) = pending.pop_front() {
                    if chunk.is_empty() {
                        continue;
                    }
                    if let Some((d, tail)) = dec.decode_chunk(chunk) {
                        got.push(to_ref(&d));
                        if !tail.is_empty() {
                            pending.push_front(tail);
                        }
                    }
                }
            };
            feed(Bytes::copy_from_slice(&(len as u32).to_be_bytes()), &mut got);
            let mut left = len;
            while left > 0 {
                let n = left.min(ZEROS.len() as u64) as usize;
                feed(Bytes::from_static(&ZEROS[..n]), &mut got);
                left -= n as u64;
                if left % (256 << 20) == 0 {
                    engine::watchdog::heartbeat();
                }
            }
            let good = udpmux::Datagram {
                source: "1.2.3.4:5".parse().unwrap(),
                destination: "[2001:db8::1]:53".parse().unwrap(),
                app_name: "n".into(),
                payload: vec![n as u8; 3],
            };
            feed(Bytes::from(udpmux::encode_in(&good)), &mut got);
            (got, good)
        });
        engine::watchdog::end_case();
        ctx.record(SUITE, &["nontrivial"], || case.clone());
        let v = verdict.and_then(|(got, good)| {
            // a record of this size is necessarily rejected (payload > 65507)
            if got == vec![good] {
                Ok(())
            } else {
                viol(
                    "decode:no-resync-after-rejected-record",
                    format!("after a {}-byte rejected record the next record was not decoded: {:?}", len, got.len()),
                )
            }
        });
        if let Err(v) = v {
            ctx.violation(SUITE, case, v);
        }
    }
    ctx.suite_mut(SUITE).exhaustive = Some(false);
}

pub fn run(ctx: &mut Ctx) {
    super::replay_corpus(ctx, replay);
    ctx.run_suite(&DecodeSuite { small: true });
    ctx.run_suite(&DecodeSuite { small: false });
    ctx.run_suite(&EncodeSuite);
    if ctx.tier == Tier::Thorough {
        huge_skip(ctx);
    }
    ctx.assume("the tail returned by the decoder is re-queued in front of later chunks, as DatagramDecoder::read does");
    ctx.assume("payload sizes 64001..=65507 are implementation-defined (either outcome accepted, resynchronisation still required)");
}

pub fn replay(ctx: &mut Ctx, suite: &str, case: &Value) -> bool {
    match suite {
        "decode-all-cuts" => ctx.replay_suite(&DecodeSuite { small: true }, case),
        "decode-random-cuts" => ctx.replay_suite(&DecodeSuite { small: false }, case),
        "encode" => ctx.replay_suite(&EncodeSuite, case),
        _ => false,
    }
}
