//! C01 — authentication gate: no egress without valid credentials, decided per request.

use crate::engine::world::{AuthKind, CoreSpec, Event, Outcome, Scripted};
use crate::engine::{aio, idx, viol, Ctx, Suite, Tier, Verdict};
use crate::ensure;
use crate::props::tunnelreq::{b64, run_h1, run_h2, AuthHeader, Obs, Req};
use base64::Engine;
use proptest::prelude::*;
use serde::{Deserialize, Serialize};
use serde_json::Value;
use std::time::Duration;
use trusttunnel::verif::session::DestView;

#[derive(Serialize, Deserialize, Debug, Clone, PartialEq, Eq)]
pub enum Kind {
    ConnectHost,
    ConnectIp,
    Check,
    Udp,
    Icmp,
    GetAbsolute,
    PostAbsolute,
}

#[derive(Serialize, Deserialize, Debug, Clone)]
pub struct ReqSpec {
    pub kind: Kind,
    /// class label of the Proxy-Authorization header(s)
    pub auth_class: String,
    pub auth: Vec<AuthHeader>,
}

#[derive(Serialize, Deserialize, Debug, Clone)]
pub struct Case {
    pub h2: bool,
    /// HTTP/3 over the real QUIC listener (then `h2` only says "several requests per session")
    #[serde(default)]
    pub h3: bool,
    pub clients: Vec<(String, String)>,
    /// "none" | "registry" | "with-sni"
    pub authenticator: String,
    /// credentials label carried by the connection's SNI, if any, and whether the authenticator accepts it
    pub sni_creds: Option<(String, bool)>,
    pub reqs: Vec<ReqSpec>,
}

#[derive(Debug, Clone, Copy, PartialEq, Eq)]
enum Want {
    Authorised,
    Unauthorised,
    DontCare,
}

fn header_is_exact_valid(h: &[u8], clients: &[(String, String)]) -> bool {
    clients
        .iter()
        .any(|(u, p)| h == format!("Basic {}", b64(&format!("{}:{}", u, p))).as_bytes())
}

/// Independent decision function of the property statement.
fn want(case: &Case, r: &ReqSpec) -> Want {
    if case.authenticator == "none" {
        return Want::DontCare;
    }
    let sni_ok = matches!(&case.sni_creds, Some((_, true)));
    let raws: Vec<&Vec<u8>> = r
        .auth
        .iter()
        .filter_map(|a| match a {
            AuthHeader::Raw(x) => Some(x),
            AuthHeader::Absent => None,
        })
        .collect();
    match raws.len() {
        0 => {
            if sni_ok {
                Want::Authorised
            } else {
                Want::Unauthorised
            }
        }
        1 => {
            if header_is_exact_valid(raws[0], &case.clients) {
                Want::Authorised
            } else if sni_ok {
                Want::DontCare // a wrong header on an SNI-authenticated connection
            } else if r.auth_class == "noncanonical-base64-of-valid" {
                Want::DontCare
            } else {
                Want::Unauthorised
            }
        }
        _ => {
            let valid = raws.iter().filter(|h| header_is_exact_valid(h, &case.clients)).count();
            if valid == raws.len() {
                Want::Authorised
            } else if valid == 0 && !sni_ok {
                Want::Unauthorised
            } else {
                Want::DontCare // duplicates of mixed validity
            }
        }
    }
}

fn pair_strategy() -> BoxedStrategy<(String, String)> {
    (
        prop_oneof![4 => "[a-z0-9]{1,8}", 1 => "[a-zé]{1,4}", 1 => "[a-z]{1,3} [a-z]{1,3}"],
        prop_oneof![4 => "[A-Za-z0-9]{1,10}", 2 => "[a-z]{1,4}:[a-z:]{0,4}", 1 => "[a-zß€]{1,5}", 1 => "[ -~]{1,12}"],
    )
        .boxed()
}

fn auth_strategy(clients: Vec<(String, String)>) -> BoxedStrategy<(String, Vec<AuthHeader>)> {
    let n = clients.len().max(1);
    let c = clients.clone();
    let pick = move |i: u16| -> (String, String) {
        if c.is_empty() {
            ("user".into(), "pass".into())
        } else {
            c[idx(i, n)].clone()
        }
    };
    let raw = |s: String| vec![AuthHeader::Raw(s.into_bytes())];
    let p1 = pick.clone();
    let valid = any::<u16>().prop_map(move |i| {
        let (u, p) = p1(i);
        ("valid".to_string(), vec![AuthHeader::Raw(format!("Basic {}", b64(&format!("{}:{}", u, p))).into_bytes())])
    });
    let p2 = pick.clone();
    let wrong = (any::<u16>(), 0u8..6, "[a-z]{1,4}").prop_map(move |(i, how, junk)| {
        let (u, p) = p2(i);
        let (class, creds) = match how {
            0 => ("wrong-user", format!("{}{}:{}", u, junk, p)),
            1 => ("wrong-password", format!("{}:{}{}", u, p, junk)),
            2 => ("swapped", format!("{}:{}", p, u)),
            3 => ("truncated-password", format!("{}:{}", u, &p[..p.len() - p.chars().last().map_or(0, |c| c.len_utf8())])),
            4 => ("no-colon", format!("{}{}", u, p)),
            _ => ("empty-password", format!("{}:", u)),
        };
        (class.to_string(), vec![AuthHeader::Raw(format!("Basic {}", b64(&creds)).into_bytes())])
    });
    let p3 = pick.clone();
    let scheme = (any::<u16>(), 0u8..7).prop_map(move |(i, how)| {
        let (u, p) = p3(i);
        let tok = b64(&format!("{}:{}", u, p));
        let v = match how {
            0 => format!("Bearer {}", tok),
            1 => format!("basic {}", tok),
            2 => format!("BASIC {}", tok),
            3 => format!("Basic  {}", tok),
            4 => format!("Basic{}", tok),
            5 => format!("Digest {}", tok),
            _ => tok,
        };
        ("other-scheme-with-valid-token".to_string(), vec![AuthHeader::Raw(v.into_bytes())])
    });
    let p4 = pick.clone();
    let noncanon = (any::<u16>(), 0u8..3).prop_map(move |(i, how)| {
        let (u, p) = p4(i);
        let creds = format!("{}:{}", u, p);
        let canonical = b64(&creds);
        let tok = match how {
            0 => base64::engine::general_purpose::STANDARD_NO_PAD.encode(creds.as_bytes()),
            1 => base64::engine::general_purpose::URL_SAFE.encode(creds.as_bytes()),
            _ => format!("{} ", canonical),
        };
        // if the alternative spelling coincides with the canonical one it is simply valid
        let class = if tok == canonical { "valid" } else { "noncanonical-base64-of-valid" };
        (class.to_string(), vec![AuthHeader::Raw(format!("Basic {}", tok).into_bytes())])
    });
    let malformed = prop_oneof![
        Just(("malformed-base64".to_string(), raw("Basic !!!***".into()))),
        Just(("malformed-base64".to_string(), raw("Basic =".into()))),
        Just(("empty-token".to_string(), raw("Basic ".into()))),
        Just(("empty-value".to_string(), raw("".into()))),
        Just(("scheme-only".to_string(), raw("Basic".into()))),
        Just(("non-utf8".to_string(), vec![AuthHeader::Raw(vec![b'B', b'a', b's', b'i', b'c', b' ', 0xff, 0xfe, 0x80])])),
        Just(("non-utf8".to_string(), vec![AuthHeader::Raw(vec![0xc3, 0x28])])),
        "[ -~]{1,20}".prop_map(move |s| ("random-text".to_string(), raw(s))),
    ];
    let p5 = pick.clone();
    let dup = (any::<u16>(), any::<bool>(), any::<bool>()).prop_map(move |(i, first_valid, second_valid)| {
        let (u, p) = p5(i);
        let good = format!("Basic {}", b64(&format!("{}:{}", u, p))).into_bytes();
        let bad = format!("Basic {}", b64(&format!("{}:x{}", u, p))).into_bytes();
        let a = if first_valid { good.clone() } else { bad.clone() };
        let b = if second_valid { good } else { bad };
        ("duplicate-headers".to_string(), vec![AuthHeader::Raw(a), AuthHeader::Raw(b)])
    });
    prop_oneof![
        3 => Just(("absent".to_string(), vec![AuthHeader::Absent])),
        5 => valid,
        4 => wrong,
        3 => scheme,
        1 => noncanon,
        3 => malformed,
        1 => dup,
    ]
    .boxed()
}

fn case_strategy(h2: bool, max_reqs: usize) -> BoxedStrategy<Case> {
    (
        prop::collection::vec(pair_strategy(), 1..=3),
        prop_oneof![1 => Just("none"), 5 => Just("registry"), 3 => Just("with-sni")],
        prop_oneof![3 => Just(0u8), 2 => Just(1u8), 1 => Just(2u8)],
    )
        .prop_flat_map(move |(mut clients, authenticator, sni_mode)| {
            clients.dedup_by(|a, b| a.0 == b.0);
            let sni_creds = match (authenticator, sni_mode) {
                (_, 0) => None,
                ("with-sni", 1) => Some(("goodlabel".to_string(), true)),
                ("with-sni", _) => Some(("badlabel".to_string(), false)),
                // the registry authenticator rejects every SNI label
                ("registry", _) => Some(("anylabel".to_string(), false)),
                _ => Some(("anylabel".to_string(), false)),
            };
            let kind = prop_oneof![
                4 => Just(Kind::ConnectHost),
                2 => Just(Kind::ConnectIp),
                2 => Just(Kind::Check),
                2 => Just(Kind::Udp),
                1 => Just(Kind::Icmp),
                1 => Just(Kind::GetAbsolute),
                1 => Just(Kind::PostAbsolute),
            ];
            let req = (kind, auth_strategy(clients.clone())).prop_map(|(kind, (auth_class, auth))| ReqSpec {
                kind,
                auth_class,
                auth,
            });
            (Just(clients), Just(authenticator.to_string()), Just(sni_creds), prop::collection::vec(req, 1..=max_reqs))
        })
        .prop_map(move |(clients, authenticator, sni_creds, reqs)| Case {
            h2,
            h3: false,
            clients,
            authenticator,
            sni_creds,
            reqs,
        })
        .boxed()
}

fn render(i: usize, r: &ReqSpec) -> (Req, Option<DestView>) {
    let host = format!("r{}.dest.test", i);
    let (method, target, dest) = match r.kind {
        Kind::ConnectHost => ("CONNECT", format!("{}:443", host), Some(DestView::HostName(host, 443))),
        Kind::ConnectIp => {
            let a = format!("93.184.{}.{}:8443", i / 250, 1 + i % 250);
            ("CONNECT", a.clone(), Some(DestView::Address(a.parse().unwrap())))
        }
        Kind::Check => ("CONNECT", "_check".to_string(), None),
        Kind::Udp => ("CONNECT", "_udp2".to_string(), None),
        Kind::Icmp => ("CONNECT", "_icmp".to_string(), None),
        Kind::GetAbsolute => ("GET", format!("http://{}/index.html", host), Some(DestView::HostName(host, 80))),
        Kind::PostAbsolute => ("POST", format!("http://{}:8080/submit", host), Some(DestView::HostName(host, 8080))),
    };
    let mut extra = vec![];
    if r.kind == Kind::PostAbsolute {
        extra.push(("Content-Length".to_string(), b"0".to_vec()));
    }
    (
        Req {
            method: method.into(),
            target,
            host: None,
            auth: r.auth.clone(),
            extra_headers: extra,
            payload: if method == "CONNECT" { b"ping".to_vec() } else { vec![] },
            early_payload: false,
            early_delay_ms: 0,
        },
        dest,
    )
}

pub fn execute(case: &Case) -> (Vec<Obs>, Vec<Event>) {
    let spec = CoreSpec {
        clients: case.clients.clone(),
        auth: match case.authenticator.as_str() {
            "none" => AuthKind::None,
            "registry" => AuthKind::Registry,
            _ => AuthKind::WithSni(Some("goodlabel".into())),
        },
        ..CoreSpec::default()
    };
    if case.h3 {
        let spec = CoreSpec { quic: true, ..spec };
        return aio::block_on_real(async move {
            let net = match crate::engine::networld::NetWorld::start(&spec).await {
                Ok(n) => n,
                Err(e) => return (vec![Obs { error: Some(format!("harness: {}", e)), ..Default::default() }; case.reqs.len()], vec![]),
            };
            let scripted = Scripted::new(|m| match &m.destination {
                DestView::HostName(_, 80) | DestView::HostName(_, 8080) => Outcome::Refused,
                _ => Outcome::Echo,
            });
            let _guard = scripted.install(&net.world);
            let reqs: Vec<Req> = case.reqs.iter().enumerate().map(|(i, r)| render(i, r).0).collect();
            let sni = match case.sni_creds.as_ref().map(|(l, _)| l.clone()) {
                Some(l) => format!("{}.main.x", l),
                None => "main.x".to_string(),
            };
            let debug = std::env::var("VERIF_DEBUG").is_ok();
            if debug {
                crate::engine::logcap::start();
            }
            let obs = crate::props::tunnelreq::run_h3(&net, &sni, &reqs, Duration::from_millis(1500)).await;
            tokio::time::sleep(Duration::from_millis(20)).await;
            if debug {
                for l in crate::engine::logcap::stop() {
                    if !l.contains("quiche") {
                        eprintln!("{}", &l[..l.len().min(300)]);
                    }
                }
                eprintln!("obs: {:?}", obs);
            }
            (obs, scripted.events())
        });
    }
    aio::block_on_paused(async move {
        let world = spec.build().expect("core");
        // plain-HTTP requests are refused by the destination so that they end quickly
        let scripted = Scripted::new(|m| match &m.destination {
            DestView::HostName(_, 80) | DestView::HostName(_, 8080) => Outcome::Refused,
            _ => Outcome::Echo,
        });
        let _guard = scripted.install(&world);
        let reqs: Vec<Req> = case.reqs.iter().enumerate().map(|(i, r)| render(i, r).0).collect();
        let creds = case.sni_creds.as_ref().map(|(l, _)| l.clone());
        let sni = match &creds {
            Some(l) => format!("{}.main.x", l),
            None => "main.x".to_string(),
        };
        let wait = Duration::from_secs(10);
        let obs = if case.h2 {
            run_h2(&world, &sni, creds, &reqs, wait).await
        } else {
            vec![run_h1(&world, &sni, creds, &reqs[0], wait).await]
        };
        tokio::time::sleep(Duration::from_millis(50)).await;
        (obs, scripted.events())
    })
}

pub fn judge(case: &Case, obs: &[Obs], events: &[Event]) -> Verdict {
    let n = if case.h2 { case.reqs.len() } else { 1 };
    let rejected_sni = matches!(&case.sni_creds, Some((_, false))) && case.authenticator != "none";
    if rejected_sni {
        ensure!(
            events.is_empty(),
            "egress:rejected-sni-credentials",
            "connection with rejected SNI credentials caused forwarder calls: {:?}",
            events
        );
        ensure!(
            obs.iter().all(|o| o.status.is_none()),
            "response:rejected-sni-credentials-served",
            "connection with rejected SNI credentials got responses: {:?}",
            obs.iter().map(|o| o.status).collect::<Vec<_>>()
        );
        return Ok(());
    }
    let mut want_udp = (0usize, 0usize); // (min, max)
    let mut want_icmp = (0usize, 0usize);
    for i in 0..n {
        let r = &case.reqs[i];
        let (_, dest) = render(i, r);
        let w = want(case, r);
        let o = &obs[i];
        let what = format!(
            "request #{} {:?} auth={} on {} (authenticator {}, sni creds {:?})",
            i,
            r.kind,
            r.auth_class,
            if case.h3 { "h3" } else if case.h2 { "h2" } else { "h1" },
            case.authenticator,
            case.sni_creds
        );
        let tcp_here = events.iter().any(|e| matches!(e, Event::TcpConnect(m) if Some(&m.destination) == dest.as_ref()));
        // an HTTP/2 client library refuses to send some header values; nothing to judge then
        if o.error.as_deref().is_some_and(|e| e.starts_with("cannot build request")) {
            continue;
        }
        match w {
            Want::Unauthorised => {
                ensure!(
                    !tcp_here,
                    "egress:unauthenticated",
                    "{}: outbound connection opened without valid credentials",
                    what
                );
                let sig = if o.status == Some(200) {
                    "status:unauthenticated-request-accepted"
                } else {
                    "status:unauthenticated-not-407"
                };
                ensure!(
                    o.status == Some(407),
                    sig,
                    "{}: answered {:?} {:?}, want 407",
                    what,
                    o.status,
                    o.headers
                );
                ensure!(
                    o.header("proxy-authenticate").is_some_and(|h| h.starts_with("Basic")),
                    "header:challenge-missing",
                    "{}: 407 without Basic challenge",
                    what
                );
            }
            Want::Authorised => {
                ensure!(
                    o.status.is_some() && o.status != Some(407),
                    "status:valid-credentials-refused",
                    "{}: answered {:?}",
                    what,
                    o.status
                );
                match r.kind {
                    Kind::Check => ensure!(o.status == Some(200), "status:valid-credentials-refused", "{}: health check answered {:?}", what, o.status),
                    Kind::Udp => {
                        want_udp.0 += 1;
                        want_udp.1 += 1;
                    }
                    Kind::Icmp => {
                        want_icmp.0 += 1;
                        want_icmp.1 += 1;
                    }
                    _ => ensure!(
                        tcp_here,
                        "egress:authorised-request-not-forwarded",
                        "{}: no outbound connection to {:?}",
                        what,
                        dest
                    ),
                }
            }
            Want::DontCare => {
                match r.kind {
                    Kind::Udp => want_udp.1 += 1,
                    Kind::Icmp => want_icmp.1 += 1,
                    _ => {}
                }
                ensure!(
                    o.status.is_some() || o.error.is_some() || case.authenticator == "none",
                    "response:none",
                    "{}: no response at all",
                    what
                );
            }
        }
    }
    let udp = events.iter().filter(|e| matches!(e, Event::UdpMux(_))).count();
    let icmp = events.iter().filter(|e| matches!(e, Event::IcmpMux)).count();
    ensure!(
        udp >= want_udp.0 && udp <= want_udp.1,
        if udp > want_udp.1 { "egress:unauthenticated" } else { "egress:authorised-request-not-forwarded" },
        "UDP multiplexers created: {}, authorised _udp2 requests: {}..{}",
        udp,
        want_udp.0,
        want_udp.1
    );
    ensure!(
        icmp >= want_icmp.0 && icmp <= want_icmp.1,
        if icmp > want_icmp.1 { "egress:unauthenticated" } else { "egress:authorised-request-not-forwarded" },
        "ICMP multiplexers created: {}, authorised _icmp requests: {}..{}",
        icmp,
        want_icmp.0,
        want_icmp.1
    );
    // every TCP connect must belong to a request that was not Unauthorised (checked above) and
    // must name a destination some request asked for
    for e in events {
        if let Event::TcpConnect(m) = e {
            let known = (0..n).any(|i| render(i, &case.reqs[i]).1.as_ref() == Some(&m.destination));
            if !known {
                return viol(
                    "egress:unrequested-destination",
                    format!("outbound connection to {:?} which no request named", m.destination),
                );
            }
        }
    }
    Ok(())
}

pub struct GateSuite {
    pub h2: bool,
    pub h3: bool,
}

impl Suite for GateSuite {
    type Case = Case;
    fn name(&self) -> &'static str {
        if self.h3 {
            "gate-h3-sequences"
        } else if self.h2 {
            "gate-h2-sequences"
        } else {
            "gate-h1"
        }
    }
    fn rule(&self) -> String {
        format!(
            "{}: authenticator in {{none, registry over 1-3 generated (user, password) pairs incl. colons / non-ASCII, registry + SNI label}}, connection SNI credentials in {{absent, accepted, rejected}}, request kind in {{CONNECT host:port, CONNECT ip:port, _check, _udp2, _icmp, absolute-URI GET, POST}}, Proxy-Authorization in {{absent, valid pair, wrong user / password / swapped / truncated / no colon / empty password, valid token under Bearer / basic / BASIC / two spaces / no space / Digest / bare, non-canonical base64, malformed base64, empty, non-UTF-8, random text, duplicate headers}}; real Tunnel + HttpDownstream + codec in memory with a scripted forwarder that records every call; oracle = independent decision function (authorised iff header == \"Basic \" + base64(user:pass) of a configured pair, or SNI credentials accepted): unauthorised => 407 + Basic challenge + zero forwarder calls, authorised => not 407 and the matching forwarder call, every request judged alone; non-trivial = session with both an authorised and an unauthorised request, or a header from the malformed / other-scheme classes",
            if self.h3 {
                "sequences of 1-4 requests multiplexed on one HTTP/3 session of a quiche client against the real QUIC listener (Core::listen on loopback, real time; the scripted forwarder is installed on that endpoint)"
            } else if self.h2 {
                "sequences of 1-6 requests multiplexed on one HTTP/2 session, issued together"
            } else {
                "one request per HTTP/1.1 session"
            }
        )
    }
    fn strategy(&self, _: Tier) -> BoxedStrategy<Case> {
        if self.h3 {
            return case_strategy(true, 4)
                .prop_map(|mut c| {
                    c.h3 = true;
                    c
                })
                .boxed();
        }
        case_strategy(self.h2, if self.h2 { 6 } else { 1 })
    }
    fn cases(&self, tier: Tier) -> u64 {
        if self.h3 {
            tier.pick(480, 12_000)
        } else if self.h2 {
            tier.pick(60_000, 1_000_000)
        } else {
            tier.pick(100_000, 2_000_000)
        }
    }
    fn classify(&self, c: &Case) -> Vec<&'static str> {
        let mut v = vec![];
        let n = if c.h2 { c.reqs.len() } else { 1 };
        let wants: Vec<Want> = c.reqs[..n].iter().map(|r| want(c, r)).collect();
        let mixed = wants.contains(&Want::Authorised) && wants.contains(&Want::Unauthorised);
        let odd = c.reqs[..n].iter().any(|r| {
            matches!(
                r.auth_class.as_str(),
                "other-scheme-with-valid-token" | "malformed-base64" | "empty-token" | "empty-value" | "scheme-only" | "non-utf8" | "random-text" | "noncanonical-base64-of-valid" | "duplicate-headers"
            )
        });
        if mixed {
            v.push("mixed-session");
        }
        if odd {
            v.push("odd-header");
        }
        if matches!(&c.sni_creds, Some((_, true))) {
            v.push("sni-accepted");
        }
        if matches!(&c.sni_creds, Some((_, false))) && c.authenticator != "none" {
            v.push("sni-rejected");
        }
        if c.authenticator == "none" {
            v.push("no-authenticator");
        }
        if wants.contains(&Want::Unauthorised) {
            v.push("has-unauthorised");
        }
        if wants.contains(&Want::Authorised) {
            v.push("has-authorised");
        }
        if mixed || odd {
            v.push("nontrivial");
        }
        v
    }
    fn required_classes(&self) -> Vec<&'static str> {
        let mut v = vec!["nontrivial", "odd-header", "has-unauthorised", "has-authorised", "sni-accepted", "sni-rejected"];
        if self.h2 {
            v.push("mixed-session");
        }
        v
    }
    fn check(&self, c: &Case) -> Verdict {
        let (obs, events) = execute(c);
        judge(c, &obs, &events)
    }
}

pub fn run(ctx: &mut Ctx) {
    super::replay_corpus(ctx, replay);
    ctx.run_suite(&GateSuite { h2: false, h3: false });
    ctx.run_suite(&GateSuite { h2: true, h3: false });
    ctx.run_suite(&GateSuite { h2: true, h3: true });
    ctx.run_suite(&super::c01pipe::PipelinedSuite);
    ctx.assume("don't-care (either outcome accepted): non-canonical base64 of a valid pair, a wrong header on an SNI-authenticated connection, duplicate headers of mixed validity, everything when no authenticator is configured");
    ctx.assume("HTTP/3 runs in real time against the real QUIC listener with 1.5 s to answer; a request without a response in that time counts as unanswered");
    ctx.assume("header values the h2 client library refuses to send (e.g. control bytes) are skipped on HTTP/2");
}

pub fn replay(ctx: &mut Ctx, suite: &str, case: &Value) -> bool {
    match suite {
        "gate-h1" => ctx.replay_suite(&GateSuite { h2: false, h3: false }, case),
        "gate-h2-sequences" => ctx.replay_suite(&GateSuite { h2: true, h3: false }, case),
        "gate-h3-sequences" => ctx.replay_suite(&GateSuite { h2: true, h3: true }, case),
        "gate-h1-pipelined" => ctx.replay_suite(&super::c01pipe::PipelinedSuite, case),
        _ => false,
    }
}
