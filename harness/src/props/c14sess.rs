//! C14, "a TCP tunnel on which neither direction has transferred data for the configured idle
//! timeout T is closed no later than 2T after its last activity" - on real HTTP/1.1 and HTTP/2
//! sessions, also when a direction is not merely silent but stalled with data pending (a client
//! that does not open its window, a destination that does not take writes).

use crate::engine::world::{CoreSpec, Outcome, PeerMsg, Scripted};
use crate::engine::{aio, viol, Suite, Tier, Verdict, Violation};
use crate::ensure;
use crate::props::tunnelreq::b64;
use bytes::Bytes;
use proptest::prelude::*;
use serde::{Deserialize, Serialize};
use std::sync::atomic::Ordering;
use std::time::Duration;
use tokio::io::{AsyncReadExt, AsyncWriteExt};
use trusttunnel::verif::session::{ChannelView, Proto};

#[derive(Serialize, Deserialize, Debug, Clone, Copy, PartialEq)]
pub enum Stall {
    /// nothing is pending anywhere
    Silent,
    /// the destination has sent more than the client takes: the download direction is parked
    DownloadPending,
    /// the client has sent more than the destination takes: the upload direction is parked
    UploadPending,
    /// both
    BothPending,
}

#[derive(Serialize, Deserialize, Debug, Clone)]
pub struct Case {
    pub h2: bool,
    pub stall: Stall,
    /// idle timeout in ms
    pub t_ms: u16,
    /// bytes pending in a stalled direction
    pub pending: u16,
}

pub struct IdleCloseSuite;

fn herr(what: &str, e: impl std::fmt::Display) -> Violation {
    Violation { sig: format!("harness:{}", what), msg: e.to_string() }
}

impl Suite for IdleCloseSuite {
    type Case = Case;
    fn name(&self) -> &'static str {
        "session-idle-close"
    }
    fn rule(&self) -> String {
        "a CONNECT tunnel on a real HTTP/1.1 or HTTP/2 session in memory (virtual clock) with an idle timeout T of 1.2-4 s to a scripted destination; after the tunnel is up, nothing is transferred any more: either both sides are silent, or a direction is stalled with 6000-40000 bytes pending (the client - 2 KiB transport or 4 KiB HTTP/2 window - never reads, the destination refuses writes), or both; oracle: the tunnel is torn down (both halves of the destination connection released) not earlier than T and not later than 2T + 0.2 s after the last transfer; non-trivial = a direction with data pending".into()
    }
    fn strategy(&self, _: Tier) -> BoxedStrategy<Case> {
        (any::<bool>(), prop_oneof![Just(Stall::Silent), Just(Stall::DownloadPending), Just(Stall::UploadPending), Just(Stall::BothPending)], 1200u16..4000, 6000u16..40000)
            .prop_map(|(h2, stall, t_ms, pending)| Case { h2, stall, t_ms, pending })
            .boxed()
    }
    fn cases(&self, tier: Tier) -> u64 {
        tier.pick(1_600, 32_000)
    }
    fn classify(&self, c: &Case) -> Vec<&'static str> {
        let mut v = vec![if c.h2 { "h2" } else { "h1" }];
        if c.stall != Stall::Silent {
            v.push("nontrivial");
        }
        if matches!(c.stall, Stall::DownloadPending | Stall::BothPending) {
            v.push("download-pending");
        }
        if matches!(c.stall, Stall::UploadPending | Stall::BothPending) {
            v.push("upload-pending");
        }
        v
    }
    fn required_classes(&self) -> Vec<&'static str> {
        vec!["nontrivial", "h1", "h2", "download-pending", "upload-pending"]
    }
    fn check(&self, c: &Case) -> Verdict {
        let c = c.clone();
        aio::block_on_paused(async move {
            aio::skew_clock().await;
            let t = Duration::from_millis(c.t_ms as u64);
            let spec = CoreSpec { tcp_timeout: t, ..CoreSpec::default() };
            let world = spec.build().map_err(|e| herr("core", e))?;
            let scripted = Scripted::new(|_| Outcome::Silent);
            let _g = scripted.install(&world);
            let (io, _srv) = world.serve(if c.h2 { Proto::Http2 } else { Proto::Http1 }, ChannelView::Tunnel, "main.x", None, crate::engine::world::peer_v4(), if c.h2 { 1 << 20 } else { 2048 });
            let auth = format!("Basic {}", b64("user:pass"));
            // keep the client side alive (and never reading) for the whole case
            let mut keep_h1 = None;
            let mut keep_h2 = None;
            if c.h2 {
                let (send, conn) = h2::client::Builder::new().initial_window_size(4096).initial_connection_window_size(1 << 20).handshake::<_, Bytes>(io).await.map_err(|e| herr("h2", e))?;
                let conn = tokio::spawn(async move {
                    let _ = conn.await;
                });
                let req = http::Request::builder().method("CONNECT").uri("dest.example:443").header("proxy-authorization", auth.as_str()).body(()).unwrap();
                let mut sr = send.ready().await.map_err(|e| herr("h2", e))?;
                let (fut, stream) = sr.send_request(req, false).map_err(|e| herr("h2", e))?;
                let resp = tokio::time::timeout(Duration::from_secs(5), fut).await.map_err(|_| herr("h2", "no response"))?.map_err(|e| herr("h2", e))?;
                ensure!(resp.status() == 200, "harness:connect", "CONNECT answered {}", resp.status());
                keep_h2 = Some((resp.into_body(), stream, sr, conn));
            } else {
                let (mut rd, mut wr) = tokio::io::split(io);
                let head = format!("CONNECT dest.example:443 HTTP/1.1\r\nHost: dest.example:443\r\nProxy-Authorization: {}\r\n\r\n", auth);
                wr.write_all(head.as_bytes()).await.map_err(|e| herr("io", e))?;
                let mut headbuf = vec![];
                let mut b = [0u8; 1];
                while !headbuf.ends_with(b"\r\n\r\n") {
                    match tokio::time::timeout(Duration::from_secs(5), rd.read(&mut b)).await {
                        Ok(Ok(1)) => headbuf.push(b[0]),
                        _ => return viol("harness:connect", "no response head"),
                    }
                }
                ensure!(headbuf.starts_with(b"HTTP/1.1 200"), "harness:connect", "CONNECT answered {:?}", String::from_utf8_lossy(&headbuf));
                keep_h1 = Some((rd, wr));
            }
            let Some((_, origin)) = scripted.peers.lock().unwrap().first().cloned() else {
                return viol("harness:connect", "no destination");
            };
            let data = vec![0x6du8; c.pending as usize];
            // the last transfer happens between these two instants
            let earliest_last_transfer = tokio::time::Instant::now();
            if matches!(c.stall, Stall::UploadPending | Stall::BothPending) {
                origin.set_accepting(false);
                // the client hands its bytes over in the background (they do not all fit the queues)
                if let Some((_, stream, _, _)) = keep_h2.as_mut() {
                    stream.reserve_capacity(data.len());
                    let cap = tokio::time::timeout(Duration::from_millis(200), futures::future::poll_fn(|cx| stream.poll_capacity(cx))).await;
                    if let Ok(Some(Ok(cap))) = cap {
                        let _ = stream.send_data(Bytes::copy_from_slice(&data[..cap.min(data.len())]), false);
                    }
                }
                if let Some((_, wr)) = keep_h1.as_mut() {
                    let _ = tokio::time::timeout(Duration::from_millis(200), wr.write_all(&data)).await;
                }
            }
            if matches!(c.stall, Stall::DownloadPending | Stall::BothPending) {
                let _ = origin.to_client.send(PeerMsg::Data(Bytes::from(data.clone())));
            }
            // from now on nothing moves: the endpoint has taken what its queues hold within a moment
            tokio::time::sleep(Duration::from_millis(300)).await;
            let last_transfer = tokio::time::Instant::now();
            let what = format!("{} tunnel, idle timeout {} ms, {:?} ({} bytes)", if c.h2 { "h2" } else { "h1" }, c.t_ms, c.stall, c.pending);
            let limit = 2 * t + Duration::from_millis(200) + Duration::from_millis(300);
            let mut closed_after = None;
            while last_transfer.elapsed() < limit + Duration::from_secs(3) {
                if origin.sink_dropped.load(Ordering::SeqCst) && origin.source_dropped.load(Ordering::SeqCst) {
                    closed_after = Some(last_transfer.elapsed());
                    break;
                }
                tokio::time::sleep(Duration::from_millis(10)).await;
            }
            match closed_after {
                None => viol(
                    "timeout:closed-too-late",
                    format!("{}: nothing has been transferred for {} ms (more than 2T + 3 s) and the tunnel still holds its destination connection", what, last_transfer.elapsed().as_millis()),
                ),
                Some(d) => {
                    let since_earliest = d + (last_transfer - earliest_last_transfer);
                    ensure!(since_earliest + Duration::from_millis(20) >= t, "timeout:closed-while-active", "{}: torn down only {} ms after the tunnel came up and the last bytes moved", what, since_earliest.as_millis());
                    ensure!(d <= limit, "timeout:closed-too-late", "{}: torn down {} ms after the last transfer (limit 2T + 0.2 s)", what, d.as_millis());
                    Ok(())
                }
            }
        })
    }
}
