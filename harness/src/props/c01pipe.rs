//! C01, "the decision is made per request: an accepted request never authorises a later request
//! on the same session" - HTTP/1.1: an authorised plain-HTTP request with a body, and behind it,
//! on the same connection, a request without valid credentials. Nothing of the second request may
//! leave the endpoint, neither as a request of its own nor as bytes on the first one's connection.

use crate::engine::world::{CoreSpec, Event, Outcome, PeerMsg, Scripted};
use crate::engine::{aio, Suite, Tier, Verdict, Violation};
use crate::ensure;
use crate::props::tunnelreq::b64;
use bytes::Bytes;
use proptest::prelude::*;
use serde::{Deserialize, Serialize};
use std::time::Duration;
use tokio::io::{AsyncReadExt, AsyncWriteExt};
use trusttunnel::verif::session::{ChannelView, Proto};

#[derive(Serialize, Deserialize, Debug, Clone)]
pub struct Case {
    /// first request: POST with Content-Length (false) or chunked (true)
    pub chunked: bool,
    pub body_len: u16,
    /// second request: 0 absolute-URI GET to another host, 1 CONNECT, 2 absolute-URI POST with a body
    pub second: u8,
    /// 0 no Proxy-Authorization, 1 wrong password, 2 other scheme
    pub second_auth: u8,
    /// where the client's byte stream is cut into writes (0 = one write), relative to the whole
    pub cut: u16,
    /// the origin answers the first request (true) or stays silent (false)
    pub origin_answers: bool,
}

pub struct PipelinedSuite;

const MARK: &str = "second-request-canary";

impl Suite for PipelinedSuite {
    type Case = Case;
    fn name(&self) -> &'static str {
        "gate-h1-pipelined"
    }
    fn rule(&self) -> String {
        "one HTTP/1.1 session in memory (real Tunnel + HttpDownstream + Http1Codec, scripted forwarder recording every call and every byte a destination receives): an authorised absolute-URI POST with a body of 0-3000 bytes (Content-Length or chunked), followed on the same connection - in the same write or split at a generated position - by a request without valid credentials (no header, wrong password, other scheme; absolute-URI GET to another host, CONNECT, POST with a body) whose target, headers and body carry a canary string; the origin of the first request answers or not; oracle: the forwarder is asked for exactly one connection (the first request's), that destination receives the first request's head and exactly its body and not one byte of the second request (no canary), and whatever answer the second request gets is a 407; non-trivial = the second request arrives in the same write as the end of the first one's body".into()
    }
    fn strategy(&self, _: Tier) -> BoxedStrategy<Case> {
        (any::<bool>(), prop_oneof![Just(0u16), 1u16..40, 40u16..3000], 0u8..3, 0u8..3, prop_oneof![2 => Just(0u16), 3 => any::<u16>()], any::<bool>())
            .prop_map(|(chunked, body_len, second, second_auth, cut, origin_answers)| Case { chunked, body_len, second, second_auth, cut, origin_answers })
            .boxed()
    }
    fn cases(&self, tier: Tier) -> u64 {
        tier.pick(6_000, 120_000)
    }
    fn classify(&self, c: &Case) -> Vec<&'static str> {
        let mut v = vec![if c.chunked { "chunked-body" } else { "content-length-body" }];
        if c.cut == 0 {
            v.push("nontrivial");
        }
        v
    }
    fn required_classes(&self) -> Vec<&'static str> {
        vec!["nontrivial", "chunked-body", "content-length-body"]
    }
    fn check(&self, c: &Case) -> Verdict {
        let c = c.clone();
        aio::block_on_paused(async move {
            aio::skew_clock().await;
            let herr = |e: String| Violation { sig: "harness:c01pipe".into(), msg: e };
            let spec = CoreSpec { tcp_timeout: Duration::from_secs(30), ..CoreSpec::default() };
            let world = spec.build().map_err(herr)?;
            let scripted = Scripted::new(|_| Outcome::Silent);
            let _g = scripted.install(&world);
            let (mut io, _srv) = world.serve(Proto::Http1, ChannelView::Tunnel, "main.x", None, crate::engine::world::peer_v4(), 1 << 20);
            let body: Vec<u8> = (0..c.body_len as usize).map(|i| b'a' + (i % 23) as u8).collect();
            let mut first = format!("POST http://first.test/upload HTTP/1.1\r\nHost: first.test\r\nProxy-Authorization: Basic {}\r\n", b64("user:pass")).into_bytes();
            if c.chunked {
                first.extend_from_slice(b"Transfer-Encoding: chunked\r\n\r\n");
                if !body.is_empty() {
                    first.extend_from_slice(format!("{:x}\r\n", body.len()).as_bytes());
                    first.extend_from_slice(&body);
                    first.extend_from_slice(b"\r\n");
                }
                first.extend_from_slice(b"0\r\n\r\n");
            } else {
                first.extend_from_slice(format!("Content-Length: {}\r\n\r\n", body.len()).as_bytes());
                first.extend_from_slice(&body);
            }
            let auth2 = match c.second_auth {
                0 => String::new(),
                1 => format!("Proxy-Authorization: Basic {}\r\n", b64("user:wrong")),
                _ => format!("Proxy-Authorization: Bearer {}\r\n", b64("user:pass")),
            };
            let second = match c.second {
                0 => format!("GET http://{m}.test/{m} HTTP/1.1\r\nHost: {m}.test\r\nX-Mark: {m}\r\n{a}\r\n", m = MARK, a = auth2),
                1 => format!("CONNECT {m}.test:443 HTTP/1.1\r\nHost: {m}.test:443\r\nX-Mark: {m}\r\n{a}\r\n", m = MARK, a = auth2),
                _ => format!("POST http://{m}.test/{m} HTTP/1.1\r\nHost: {m}.test\r\nContent-Length: {n}\r\n{a}\r\n{m}", m = MARK, a = auth2, n = MARK.len()),
            };
            let mut stream = first.clone();
            stream.extend_from_slice(second.as_bytes());
            let cut = if c.cut == 0 { 0 } else { 1 + (c.cut as usize * (stream.len() - 1) >> 16) };
            let what = format!(
                "POST with a {} body of {} bytes and valid credentials, then {} with {} ({}), origin {}",
                if c.chunked { "chunked" } else { "Content-Length" },
                body.len(),
                ["GET http://other/", "CONNECT other:443", "POST http://other/ with a body"][c.second as usize % 3],
                ["no Proxy-Authorization", "a wrong password", "another scheme"][c.second_auth as usize % 3],
                if cut == 0 { "one write".to_string() } else { format!("writes cut at byte {} of {}", cut, stream.len()) },
                if c.origin_answers { "answers" } else { "is silent" }
            );
            if cut == 0 {
                io.write_all(&stream).await.map_err(|e| herr(e.to_string()))?;
            } else {
                io.write_all(&stream[..cut]).await.map_err(|e| herr(e.to_string()))?;
                tokio::time::sleep(Duration::from_millis(30)).await;
                io.write_all(&stream[cut..]).await.map_err(|e| herr(e.to_string()))?;
            }
            // the origin of the first request
            let mut origin = None;
            for _ in 0..400 {
                if let Some((_, h)) = scripted.peers.lock().unwrap().first() {
                    origin = Some(h.clone());
                    break;
                }
                tokio::time::sleep(Duration::from_millis(5)).await;
            }
            let Some(origin) = origin else {
                return Err(herr(format!("{}: the first (authorised) request never reached the forwarder", what)));
            };
            tokio::time::sleep(Duration::from_millis(200)).await;
            if c.origin_answers {
                let _ = origin.to_client.send(PeerMsg::Data(Bytes::from_static(b"HTTP/1.1 200 OK\r\nContent-Length: 2\r\n\r\nok")));
            }
            // read whatever the client gets for 3 s, then look
            let mut got = vec![];
            let deadline = tokio::time::Instant::now() + Duration::from_secs(3);
            let mut buf = vec![0u8; 4096];
            loop {
                match tokio::time::timeout_at(deadline, io.read(&mut buf)).await {
                    Ok(Ok(n)) if n > 0 => got.extend_from_slice(&buf[..n]),
                    _ => break,
                }
            }
            let connects: Vec<String> = scripted
                .events()
                .iter()
                .filter_map(|e| match e {
                    Event::TcpConnect(m) => Some(format!("{:?}", m.destination)),
                    _ => None,
                })
                .collect();
            ensure!(
                connects.len() == 1 && connects[0].contains("first.test"),
                "egress:unauthenticated",
                "{}: the forwarder was asked for {:?}",
                what,
                connects
            );
            let mut all_received = vec![];
            for (_, h) in scripted.peers.lock().unwrap().iter() {
                all_received.extend_from_slice(&h.received.lock().unwrap());
            }
            let text = String::from_utf8_lossy(&all_received).into_owned();
            ensure!(
                !text.contains(MARK),
                if c.chunked { "egress:unauthenticated-request-smuggled:after-chunked-body" } else { "egress:unauthenticated-request-smuggled:after-content-length-body" },
                "{}: bytes of the second request left the endpoint on the first request's connection: ...{:?}",
                what,
                &text[text.find(MARK).unwrap_or(0).saturating_sub(60)..text.len().min(text.find(MARK).unwrap_or(0) + 80)]
            );
            // answers: the first is the origin's (or none), anything after it must be a 407
            let reply = String::from_utf8_lossy(&got).into_owned();
            let statuses: Vec<&str> = reply.match_indices("HTTP/1.1 ").map(|(i, _)| &reply[i + 9..(i + 12).min(reply.len())]).collect();
            for (k, st) in statuses.iter().enumerate() {
                let is_first_answer = k == 0 && c.origin_answers && *st == "200";
                ensure!(
                    is_first_answer || *st == "407",
                    "status:authentication-failure-not-407",
                    "{}: response #{} on the connection has status {} (all: {:?})",
                    what,
                    k + 1,
                    st,
                    statuses
                );
            }
            Ok(())
        })
    }
}
