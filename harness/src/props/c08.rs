//! C08 — HTTP/1.1 transport is segmentation-invariant and never spins.

use crate::engine::world::{
    parse_h1_response, read_to_end, AuthKind, CoreSpec, Event, Outcome, PeerMsg, Scripted, World,
};
use crate::engine::{self, aio, idx, viol, Ctx, Suite, Tier, Verdict};
use crate::ensure;
use bytes::Bytes;
use proptest::prelude::*;
use serde::{Deserialize, Serialize};
use serde_json::Value;
use std::time::Duration;
use tokio::io::AsyncWriteExt;
use trusttunnel::verif::session::{ChannelView, DestView, Proto};

#[derive(Serialize, Deserialize, Debug, Clone)]
pub enum Seg {
    /// whole, byte-at-a-time, every 1-cut and `extra` sampled 2-/3-cuts (positions from `picks`)
    Sweep { extra: u16, picks: Vec<u16> },
    Cuts(Vec<u16>),
}

#[derive(Serialize, Deserialize, Debug, Clone)]
pub struct Case {
    pub kind: String,
    pub method: String,
    pub host: String,
    pub port: u16,
    pub path: String,
    pub headers: Vec<(String, String)>,
    /// raw head override for the invalid kinds
    pub raw_head: Option<Vec<u8>>,
    pub payload: Vec<u8>,
    pub downstream: Vec<u8>,
    pub client_closes_first: bool,
    pub seg: Seg,
}

impl Case {
    fn head(&self) -> Vec<u8> {
        if let Some(r) = &self.raw_head {
            return r.clone();
        }
        let mut v = vec![];
        let target = if self.method == "CONNECT" {
            format!("{}:{}", self.host, self.port)
        } else {
            self.path.clone()
        };
        v.extend_from_slice(format!("{} {} HTTP/1.1\r\n", self.method, target).as_bytes());
        v.extend_from_slice(format!("Host: {}:{}\r\n", self.host, self.port).as_bytes());
        for (n, val) in &self.headers {
            v.extend_from_slice(format!("{}: {}\r\n", n, val).as_bytes());
        }
        v.extend_from_slice(b"\r\n");
        v
    }
}

fn header_strategy() -> BoxedStrategy<(String, String)> {
    prop_oneof![
        3 => ("X-[A-Za-z]{1,10}", "[ -~&&[^ ]][ -~]{0,30}").prop_map(|(n, v)| (n, v.trim_end().to_string())),
        1 => "[a-z]{1,8}/[0-9.]{1,5} [a-z.]{1,12}".prop_map(|v| ("User-Agent".to_string(), v)),
        1 => "[a-z]{1,6}=[a-z0-9]{1,8}".prop_map(|v| ("Cookie".to_string(), v)),
        1 => Just(("Accept".to_string(), "*/*".to_string())),
    ]
    .boxed()
}

pub fn case_strategy() -> BoxedStrategy<Case> {
    let seg = prop_oneof![
        2 => (8u16..40, prop::collection::vec(any::<u16>(), 120)).prop_map(|(extra, picks)| Seg::Sweep { extra, picks }),
        3 => prop::collection::vec(any::<u16>(), 1..6).prop_map(Seg::Cuts),
    ];
    let common = (
        "[a-z]{1,8}(\\.[a-z]{2,6}){1,2}",
        1u16..=65535,
        "/[a-z0-9/]{0,12}",
        prop::collection::vec(any::<u8>(), 0..64),
        prop::collection::vec(any::<u8>(), 0..64),
        any::<bool>(),
        seg,
    );
    let valid = (
        prop_oneof![5 => Just("CONNECT"), 1 => Just("GET"), 1 => Just("POST")],
        prop::collection::vec(header_strategy(), 0..6),
        common.clone(),
    )
        .prop_map(|(method, headers, (host, port, path, payload, downstream, ccf, seg))| {
            let mut headers = headers;
            // one User-Agent at most (the endpoint reports the first)
            let mut seen = false;
            headers.retain(|(n, _)| {
                if n == "User-Agent" {
                    let keep = !seen;
                    seen = true;
                    keep
                } else {
                    true
                }
            });
            let payload = if method == "CONNECT" { payload } else { vec![] };
            Case {
                kind: "valid".into(),
                method: method.into(),
                host,
                port,
                path,
                headers,
                raw_head: None,
                payload,
                downstream,
                client_closes_first: ccf,
                seg,
            }
        });
    let many_headers = (33usize..40, common.clone()).prop_map(|(n, (host, port, path, _, _, ccf, seg))| Case {
        kind: "too-many-headers".into(),
        method: "CONNECT".into(),
        host,
        port,
        path,
        headers: (0..n).map(|i| (format!("X-H{}", i), "v".to_string())).collect(),
        raw_head: None,
        payload: vec![],
        downstream: vec![],
        client_closes_first: ccf,
        seg,
    });
    let oversize = (1300usize..2400, common.clone()).prop_map(|(n, (host, port, path, _, _, ccf, seg))| Case {
        kind: "oversize-head".into(),
        method: "CONNECT".into(),
        host,
        port,
        path,
        headers: vec![("X-Big".to_string(), "a".repeat(n))],
        raw_head: None,
        payload: vec![],
        downstream: vec![],
        client_closes_first: ccf,
        seg,
    });
    let invalid = (
        prop::sample::select(vec![
            "CONNECT a.test:1 HTTP/3.0\r\nHost: a.test:1\r\n\r\n",
            "CON NECT a.test:1 HTTP/1.1\r\nHost: a.test:1\r\n\r\n",
            "CONNECT a.test:1 HTTP/1.1\r\nBadHeaderWithoutColon\r\n\r\n",
            "CONNECT a.test:1 HTTP/1.1\r\nBad Name: x\r\n\r\n",
            "CONNECT a.test:1 HTTX/1.1\r\n\r\n",
            "\x00\x01\x02 / HTTP/1.1\r\n\r\n",
            "GET http://[::1/ HTTP/1.1\r\n\r\n",
        ]),
        common,
    )
        .prop_map(|(raw, (host, port, path, _, _, ccf, seg))| Case {
            kind: "invalid-head".into(),
            method: "CONNECT".into(),
            host,
            port,
            path,
            headers: vec![],
            raw_head: Some(raw.as_bytes().to_vec()),
            payload: vec![],
            downstream: vec![],
            client_closes_first: ccf,
            seg,
        });
    prop_oneof![10 => valid, 1 => many_headers, 1 => oversize, 2 => invalid].boxed()
}

#[derive(Debug, Default, Clone, PartialEq, Eq)]
struct Seen {
    status: Option<u16>,
    connects: Vec<(DestView, Option<String>)>,
    peer_received: Vec<u8>,
    client_body: Vec<u8>,
    closed: bool,
    malformed_response: Option<String>,
}

async fn settle() {
    tokio::time::sleep(Duration::from_millis(1)).await;
}

async fn run_once(world: &World, case: &Case, stream: &[u8], cuts: &[usize]) -> Seen {
    let outcome = if case.method == "CONNECT" { Outcome::Silent } else { Outcome::Silent };
    let scripted = Scripted::new(move |_| outcome.clone());
    let _g = scripted.install(world);
    let (mut io, server) = world.serve(
        Proto::Http1,
        ChannelView::Tunnel,
        "main.x",
        None,
        crate::engine::world::peer_v4(),
        64 * 1024,
    );
    let mut seen = Seen::default();
    let mut prev = 0;
    let mut write_failed = false;
    for &c in cuts.iter().chain(std::iter::once(&stream.len())) {
        if c > prev {
            if io.write_all(&stream[prev..c]).await.is_err() {
                write_failed = true;
                break;
            }
            prev = c;
            settle().await;
        }
    }
    let _ = write_failed;
    settle().await;
    // downstream traffic from the destination
    let peer = scripted.peers.lock().unwrap().first().map(|p| p.1.clone());
    if let Some(p) = &peer {
        if case.method == "CONNECT" && !case.downstream.is_empty() {
            let _ = p.to_client.send(PeerMsg::Data(Bytes::from(case.downstream.clone())));
            settle().await;
        }
    }
    if case.client_closes_first || peer.is_none() {
        let _ = io.shutdown().await;
    } else if let Some(p) = &peer {
        let _ = p.to_client.send(PeerMsg::Eof);
    }
    let (bytes, closed) = read_to_end(&mut io, Duration::from_secs(5)).await;
    seen.closed = closed;
    match parse_h1_response(&bytes) {
        Ok(Some(r)) => {
            seen.status = Some(r.status);
            seen.client_body = r.rest;
        }
        Ok(None) => {
            if !bytes.is_empty() {
                seen.malformed_response = Some(format!("incomplete response head: {:?}", String::from_utf8_lossy(&bytes)));
            }
        }
        Err(e) => seen.malformed_response = Some(e),
    }
    settle().await;
    for e in scripted.events() {
        if let Event::TcpConnect(m) = e {
            seen.connects.push((m.destination, m.user_agent));
        }
    }
    if let Some(p) = &peer {
        seen.peer_received = p.received.lock().unwrap().clone();
    }
    server.abort();
    seen
}

fn expected(case: &Case) -> Seen {
    let mut s = Seen::default();
    if case.kind != "valid" {
        s.closed = true;
        return s;
    }
    let ua = case
        .headers
        .iter()
        .find(|(n, _)| n.eq_ignore_ascii_case("user-agent"))
        .map(|(_, v)| v.clone());
    s.connects = vec![(DestView::HostName(case.host.clone(), case.port), ua)];
    s.closed = true;
    s
}

fn judge(case: &Case, got: &Seen, what: &str) -> Verdict {
    let exp = expected(case);
    ensure!(
        got.malformed_response.is_none(),
        "h1:malformed-response",
        "{}: {}",
        what,
        got.malformed_response.clone().unwrap_or_default()
    );
    if case.kind != "valid" {
        ensure!(
            got.connects.is_empty() && got.status != Some(200),
            "h1:invalid-or-oversize-head-accepted",
            "{}: a {} was accepted: status {:?}, connects {:?}",
            what,
            case.kind,
            got.status,
            got.connects
        );
        ensure!(got.closed, "h1:connection-not-closed-after-rejection", "{}: connection left open after a rejected head", what);
        return Ok(());
    }
    ensure!(
        got.connects == exp.connects,
        "h1:request-differs-under-segmentation",
        "{}: the endpoint saw destination / user agent {:?}, the client sent {:?}",
        what,
        got.connects,
        exp.connects
    );
    if case.method == "CONNECT" {
        ensure!(got.status == Some(200), "h1:no-200", "{}: status {:?}", what, got.status);
        ensure!(
            got.peer_received == case.payload,
            "h1:upload-payload-differs",
            "{}: destination received {} bytes {:?}, client sent {} bytes after the head",
            what,
            got.peer_received.len(),
            engine::hex(&got.peer_received[..got.peer_received.len().min(24)]),
            case.payload.len()
        );
        ensure!(
            got.client_body == case.downstream,
            "h1:download-payload-differs",
            "{}: client received {} bytes after the response head, destination sent {}",
            what,
            got.client_body.len(),
            case.downstream.len()
        );
    } else {
        // plain HTTP: the origin must receive the same method, path and generated headers
        let mut hs = [httparse::EMPTY_HEADER; 64];
        let mut r = httparse::Request::new(&mut hs);
        let parsed = r.parse(&got.peer_received);
        ensure!(
            matches!(parsed, Ok(httparse::Status::Complete(_))),
            "h1:forwarded-request-malformed",
            "{}: origin received {:?}",
            what,
            String::from_utf8_lossy(&got.peer_received)
        );
        ensure!(
            r.method == Some(case.method.as_str()) && r.path == Some(case.path.as_str()),
            "h1:request-differs-under-segmentation",
            "{}: origin saw {:?} {:?}",
            what,
            r.method,
            r.path
        );
        for (n, v) in &case.headers {
            if n.to_ascii_lowercase().starts_with("proxy-") {
                continue;
            }
            ensure!(
                r.headers.iter().any(|h| h.name.eq_ignore_ascii_case(n) && h.value == v.as_bytes()),
                "h1:request-differs-under-segmentation",
                "{}: header {}: {} did not reach the origin",
                what,
                n,
                v
            );
        }
    }
    ensure!(got.closed, "h1:not-closed", "{}: connection not closed after both sides ended", what);
    Ok(())
}

pub struct SegSuite;

impl Suite for SegSuite {
    type Case = Case;
    fn name(&self) -> &'static str {
        "segmentation"
    }
    fn rule(&self) -> String {
        "request heads from a grammar (CONNECT / GET / POST, host:port, 0-6 headers incl. User-Agent and Cookie; also > 32 headers, heads of 1.3-2.4 KB and definitely invalid heads) followed by 0-63 payload bytes, delivered to the real Http1Codec inside a real tunnel session as: one piece, byte-at-a-time, every 1-cut and 8-40 sampled 2-/3-cuts, or 1-5 random cuts, each piece only after the endpoint went idle on the previous one (paused clock); destination sends 0-63 bytes back, then either side closes; oracle from the generated structure: the connector sees exactly the destination and user agent sent, the destination receives exactly the payload, the client receives one well-formed response head followed by exactly the downstream bytes and a clean close; rejected heads cause no connect and a close; a poll that never returns is caught by the CPU watchdog; non-trivial = a cut strictly inside the head".into()
    }
    fn strategy(&self, _: Tier) -> BoxedStrategy<Case> {
        case_strategy()
    }
    fn cases(&self, tier: Tier) -> u64 {
        tier.pick(12_000, 120_000)
    }
    fn classify(&self, c: &Case) -> Vec<&'static str> {
        let head = c.head().len();
        let total = head + c.payload.len();
        let mut v = vec![];
        let inside = match &c.seg {
            Seg::Sweep { .. } => true,
            Seg::Cuts(x) => x.iter().any(|p| {
                let pos = 1 + idx(*p, total.saturating_sub(1));
                pos < head
            }),
        };
        if inside {
            v.push("cut-inside-head");
            v.push("nontrivial");
        }
        match c.kind.as_str() {
            "valid" => v.push("valid"),
            _ => v.push("rejected-kind"),
        }
        if c.method != "CONNECT" {
            v.push("plain-http");
        }
        v
    }
    fn required_classes(&self) -> Vec<&'static str> {
        vec!["nontrivial", "valid", "rejected-kind", "plain-http"]
    }
    fn check(&self, c: &Case) -> Verdict {
        let mut stream = c.head();
        stream.extend_from_slice(&c.payload);
        let spec = CoreSpec {
            clients: vec![],
            auth: AuthKind::None,
            ..CoreSpec::default()
        };
        let case = c.clone();
        aio::block_on_paused(async move {
            aio::skew_clock().await;
            let world = spec.build().expect("core");
            let n = stream.len();
            let mut segs: Vec<Vec<usize>> = vec![];
            match &case.seg {
                Seg::Cuts(x) => {
                    let mut cuts: Vec<usize> = x.iter().map(|p| 1 + idx(*p, n.saturating_sub(1))).filter(|c| *c < n).collect();
                    cuts.sort();
                    cuts.dedup();
                    segs.push(cuts);
                }
                Seg::Sweep { extra, picks } => {
                    segs.push(vec![]);
                    segs.push((1..n).collect());
                    // every 1-cut inside the head and the first payload bytes
                    let head = case.head().len().min(n);
                    for c in 1..(head + 2).min(n) {
                        segs.push(vec![c]);
                    }
                    for k in 0..*extra as usize {
                        let mut cuts: Vec<usize> = (0..2 + k % 2)
                            .map(|j| 1 + idx(picks[(3 * k + j) % picks.len()], n.saturating_sub(1)))
                            .filter(|c| *c < n)
                            .collect();
                        cuts.sort();
                        cuts.dedup();
                        segs.push(cuts);
                    }
                }
            }
            engine::bump("segmentations", segs.len() as u64);
            for cuts in &segs {
                let got = run_once(&world, &case, &stream, cuts).await;
                judge(&case, &got, &format!("{} {}:{} cuts {:?}", case.method, case.host, case.port, cuts))?;
            }
            Ok(())
        })
    }
}

/// A head that never ends must be rejected after a bounded number of bytes.
fn unbounded_head(ctx: &mut Ctx) {
    const SUITE: &str = "head-size-bound";
    if !ctx.suite_enabled(SUITE) || ctx.shard != 0 {
        return;
    }
    ctx.suite_mut(SUITE).rule = "a request head that never terminates (endless header line / endless header lines / endless request line) is written in pieces of 1, 7, 64 and 700 bytes over a transport with a 256-byte buffer; the endpoint must close the connection after accepting at most 1024 + 256 + 1024 bytes; every case non-trivial".into();
    for (shape, piece) in [(0usize, 1usize), (0, 7), (0, 64), (0, 700), (1, 7), (1, 64), (2, 1), (2, 64)] {
        let case = serde_json::json!({"shape": shape, "piece": piece});
        engine::watchdog::begin_case(ctx.prop, SUITE, &case);
        let accepted = aio::block_on_paused(async move {
            aio::skew_clock().await;
            let spec = CoreSpec { clients: vec![], auth: AuthKind::None, ..CoreSpec::default() };
            let world = spec.build().expect("core");
            let (mut io, _server) = world.serve(Proto::Http1, ChannelView::Tunnel, "main.x", None, crate::engine::world::peer_v4(), 256);
            let prefix: &[u8] = match shape {
                0 => b"CONNECT a.test:1 HTTP/1.1\r\nX-Long: ",
                1 => b"CONNECT a.test:1 HTTP/1.1\r\n",
                _ => b"CONNECT ",
            };
            let mut sent = 0usize;
            if io.write_all(prefix).await.is_err() {
                return sent;
            }
            sent += prefix.len();
            let unit: Vec<u8> = match shape {
                1 => b"X-H: v\r\n".iter().copied().cycle().take(piece.max(8) / 8 * 8).collect(),
                _ => vec![b'a'; piece],
            };
            while sent < 64 * 1024 {
                match tokio::time::timeout(Duration::from_secs(2), io.write_all(&unit)).await {
                    Ok(Ok(())) => sent += unit.len(),
                    _ => break,
                }
                settle().await;
            }
            sent
        });
        engine::watchdog::end_case();
        ctx.record(SUITE, &["nontrivial"], || case.clone());
        if accepted > 1024 + 256 + 1024 {
            ctx.violation(
                SUITE,
                case,
                engine::Violation {
                    sig: "h1:unbounded-head-buffering".into(),
                    msg: format!("the endpoint accepted {} bytes of a head that never ends", accepted),
                },
            );
        }
    }
}

pub fn run(ctx: &mut Ctx) {
    super::replay_corpus(ctx, replay);
    ctx.run_suite(&SegSuite);
    ctx.run_suite(&super::c02bp::BackPressureSuite);
    ctx.run_suite(&EofInHeadSuite);
    ctx.run_suite(&super::c19sess::H1DownloadAcrossShutdownSuite);
    unbounded_head(ctx);
    ctx.assume("heads of 1000-1299 bytes are not generated: their acceptance legitimately depends on read sizes");
    ctx.assume("the codec is exercised inside a real tunnel session (Tunnel + HttpDownstream + scripted forwarder); its observable request is the forwarder's view (destination, user agent) for CONNECT and the origin's view for plain HTTP");
    let _ = viol::<()>("", "");
}

pub fn replay(ctx: &mut Ctx, suite: &str, case: &Value) -> bool {
    match suite {
        "segmentation" => ctx.replay_suite(&SegSuite, case),
        "bidirectional-back-pressure" => ctx.replay_suite(&super::c02bp::BackPressureSuite, case),
        "end-of-stream-inside-head" => ctx.replay_suite(&EofInHeadSuite, case),
        "h1-download-across-shutdown" => ctx.replay_suite(&super::c19sess::H1DownloadAcrossShutdownSuite, case),
        _ => false,
    }
}

// ---------------------------------------------------------------------------------------------
// the end of the client's stream inside a request head

#[derive(Serialize, Deserialize, Debug, Clone)]
pub struct EofCase {
    pub head: Case,
    /// where the head stops (mapped strictly inside it)
    pub stop: u16,
    /// cuts of the delivered prefix
    pub cuts: Vec<u16>,
    /// true: the client ends only its sending direction; false: it drops the connection
    pub half_close: bool,
}

pub struct EofInHeadSuite;

impl Suite for EofInHeadSuite {
    type Case = EofCase;
    fn name(&self) -> &'static str {
        "end-of-stream-inside-head"
    }
    fn rule(&self) -> String {
        "a proper prefix (1 byte .. all but the last byte) of a request head from the grammar of suite segmentation, delivered to a real HTTP/1.1 tunnel session in 1-4 pieces (each after the endpoint went idle), after which the client ends its sending direction or drops the connection; the endpoint's side of the transport counts the reads that return end-of-stream (and fails the 1000th so that a loop which never yields comes to an end); oracle: the session ends within 5 virtual seconds, it has read the end of the stream at most 3 times, the forwarder was never called and no 2xx response was produced; non-trivial = every case".into()
    }
    fn strategy(&self, t: Tier) -> BoxedStrategy<EofCase> {
        (SegSuite.strategy(t), any::<u16>(), prop::collection::vec(any::<u16>(), 0..4), any::<bool>())
            .prop_filter_map("an ordinary head", |(head, stop, cuts, half_close)| {
                if head.raw_head.is_some() || head.head().len() > 900 {
                    return None;
                }
                Some(EofCase { head, stop, cuts, half_close })
            })
            .boxed()
    }
    fn cases(&self, tier: Tier) -> u64 {
        tier.pick(4_000, 100_000)
    }
    fn classify(&self, c: &EofCase) -> Vec<&'static str> {
        vec!["nontrivial", if c.half_close { "half-close" } else { "dropped-connection" }]
    }
    fn required_classes(&self) -> Vec<&'static str> {
        vec!["nontrivial", "half-close", "dropped-connection"]
    }
    fn check(&self, c: &EofCase) -> Verdict {
        let c = c.clone();
        aio::block_on_paused(async move {
            aio::skew_clock().await;
            let herr = |e: String| engine::Violation { sig: "harness:c08".into(), msg: e };
            let world = CoreSpec::default().build().map_err(herr)?;
            let scripted = Scripted::new(|_| Outcome::Echo);
            let _g = scripted.install(&world);
            let (mut io, rec, srv) = world.serve_recorded(Proto::Http1, ChannelView::Tunnel, "main.x", engine::world::peer_v4(), 64 * 1024);
            let head = c.head.head();
            let stop = 1 + idx(c.stop, head.len() - 1); // 1 ..= len-1
            let prefix = &head[..stop];
            let mut cuts: Vec<usize> = c.cuts.iter().map(|x| 1 + idx(*x, prefix.len().saturating_sub(1).max(1))).filter(|x| *x < prefix.len()).collect();
            cuts.sort();
            cuts.dedup();
            cuts.push(prefix.len());
            let mut prev = 0;
            for cut in cuts {
                if io.write_all(&prefix[prev..cut]).await.is_err() {
                    break; // the endpoint has already refused what it got and closed
                }
                prev = cut;
                tokio::time::sleep(Duration::from_millis(20)).await;
            }
            let what = format!("{} of {} head bytes ({:?}...), then {}", stop, head.len(), String::from_utf8_lossy(&prefix[..prefix.len().min(30)]), if c.half_close { "the client ends its sending direction" } else { "the client drops the connection" });
            let mut reply = vec![];
            if c.half_close {
                let _ = io.shutdown().await;
                let (more, _) = read_to_end(&mut io, Duration::from_secs(5)).await;
                reply = more;
            } else {
                drop(io);
            }
            let ended = tokio::time::timeout(Duration::from_secs(5), srv).await.is_ok();
            let eof_reads = rec.eof_reads.load(std::sync::atomic::Ordering::SeqCst);
            ensure!(
                eof_reads <= 3,
                "h1:spins-on-end-of-stream-inside-head",
                "{}: the endpoint read the finished stream {} times{}",
                what,
                eof_reads,
                if eof_reads >= 1000 { " (a loop that never yields: only the harness's failing 1000th read ended it)" } else { "" }
            );
            ensure!(ended, "h1:session-survives-end-of-stream", "{}: the session is still there 5 s later", what);
            ensure!(scripted.events().iter().all(|e| !matches!(e, Event::TcpConnect(_))), "h1:request-recognised-in-incomplete-head", "{}: the forwarder was called", what);
            ensure!(!reply.starts_with(b"HTTP/1.1 2"), "h1:request-recognised-in-incomplete-head", "{}: answered {:?}", what, String::from_utf8_lossy(&reply[..reply.len().min(40)]));
            Ok(())
        })
    }
}
