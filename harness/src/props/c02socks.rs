//! C02 on the SOCKS5 upstream path: after the real client dialogue the connection is the
//! tunnel's destination side; everything the proxy relays - including bytes that arrive together
//! with its success reply - must reach the tunnel, and everything written must reach the proxy.

use crate::engine::{aio, idx, viol, Suite, Tier, Verdict};
use crate::ensure;
use proptest::prelude::*;
use serde::{Deserialize, Serialize};
use std::time::Duration;
use tokio::io::{AsyncReadExt, AsyncWriteExt};
use trusttunnel::verif::socks::{connect, SocksAddrView, SocksAuthView, SocksOutcome, SocksRequestView};

#[derive(Serialize, Deserialize, Debug, Clone)]
pub struct Case {
    /// user name / password authentication (method 2) instead of none
    pub with_auth: bool,
    /// bound address type of the success reply: 1 IPv4, 4 IPv6, 3 domain (with this length)
    pub atyp: u8,
    pub domain_len: u8,
    /// chunks the destination sends; the first `coalesced` of them go out in the same write as
    /// the success reply
    pub down: Vec<Vec<u8>>,
    pub coalesced: u8,
    /// where the server's byte stream (replies + coalesced data) is cut into writes
    pub cuts: Vec<u16>,
    pub up: Vec<Vec<u8>>,
    pub transport: u16,
}

pub struct SocksStreamSuite;

impl Suite for SocksStreamSuite {
    type Case = Case;
    fn name(&self) -> &'static str {
        "socks5-tunnel-stream"
    }
    fn rule(&self) -> String {
        "the real SOCKS5 client dialogue (socks5_client::connect, with or without user/password authentication) over an in-memory transport of 64-4096 bytes against a well-behaved scripted proxy whose success reply carries an IPv4, IPv6 or domain bound address; the destination's byte stream (0-5 chunks of 1-300 bytes) starts in the same writes as the reply for a generated number of chunks, the writes are cut at generated points; afterwards the client side writes 0-4 chunks; oracle: the bytes readable from the returned connection are exactly the destination's stream from its first byte, and the proxy receives exactly the written bytes after the request; non-trivial = destination data coalesced with the reply".into()
    }
    fn strategy(&self, _: Tier) -> BoxedStrategy<Case> {
        let chunk = prop::collection::vec(any::<u8>(), 1..300);
        (
            any::<bool>(),
            prop_oneof![3 => Just(1u8), 1 => Just(4u8), 1 => Just(3u8)],
            0u8..40,
            prop::collection::vec(chunk.clone(), 0..=5),
            0u8..4,
            prop::collection::vec(any::<u16>(), 0..5),
            prop::collection::vec(chunk, 0..=4),
            64u16..4096,
        )
            .prop_map(|(with_auth, atyp, domain_len, down, coalesced, cuts, up, transport)| Case {
                with_auth,
                atyp,
                domain_len,
                down,
                coalesced,
                cuts,
                up,
                transport,
            })
            .boxed()
    }
    fn cases(&self, tier: Tier) -> u64 {
        tier.pick(24_000, 400_000)
    }
    fn classify(&self, c: &Case) -> Vec<&'static str> {
        let mut v = vec![];
        if c.coalesced > 0 && !c.down.is_empty() {
            v.push("destination-data-with-the-reply");
            v.push("nontrivial");
        }
        if c.with_auth {
            v.push("authenticated");
        }
        if c.atyp == 3 {
            v.push("domain-bound-address");
        }
        v
    }
    fn required_classes(&self) -> Vec<&'static str> {
        vec!["nontrivial", "authenticated", "domain-bound-address"]
    }
    fn check(&self, c: &Case) -> Verdict {
        let c = c.clone();
        aio::block_on_paused(async move {
            let (client, mut server) = tokio::io::duplex(c.transport as usize);
            let c2 = c.clone();
            let srv = tokio::spawn(async move {
                let c = c2;
                let mut buf = vec![0u8; 1024];
                // greeting
                let n = server.read(&mut buf).await.unwrap_or(0);
                if n < 3 {
                    return Err("no greeting".to_string());
                }
                let method = if c.with_auth { 2u8 } else { 0u8 };
                server.write_all(&[5, method]).await.map_err(|e| e.to_string())?;
                if c.with_auth {
                    let n = server.read(&mut buf).await.unwrap_or(0);
                    if n < 3 {
                        return Err("no authentication message".to_string());
                    }
                    server.write_all(&[1, 0]).await.map_err(|e| e.to_string())?;
                }
                // request: VER CMD RSV ATYP(3) LEN name PORT
                let mut req = vec![];
                while req.len() < 5 || req.len() < 7 + req[4] as usize {
                    let n = server.read(&mut buf).await.unwrap_or(0);
                    if n == 0 {
                        return Err("request incomplete".to_string());
                    }
                    req.extend_from_slice(&buf[..n]);
                }
                let extra_after_request = req.split_off(7 + req[4] as usize);
                let mut first = vec![5u8, 0, 0, c.atyp];
                match c.atyp {
                    1 => first.extend_from_slice(&[10, 1, 2, 3]),
                    4 => first.extend_from_slice(&[0x20, 1, 0xd, 0xb8, 0, 0, 0, 0, 0, 0, 0, 0, 0, 0, 0, 9]),
                    _ => {
                        first.push(c.domain_len);
                        first.extend(std::iter::repeat(b'd').take(c.domain_len as usize));
                    }
                }
                first.extend_from_slice(&[0x1f, 0x90]);
                let k = (c.coalesced as usize).min(c.down.len());
                for ch in &c.down[..k] {
                    first.extend_from_slice(ch);
                }
                let mut points: Vec<usize> = c.cuts.iter().map(|x| idx(*x, first.len() + 1)).collect();
                points.sort();
                points.push(first.len());
                let (mut rd, mut wr) = tokio::io::split(server);
                let want: usize = c.up.iter().map(|x| x.len()).sum();
                let down = async {
                    let mut prev = 0;
                    for p in points {
                        if p > prev {
                            wr.write_all(&first[prev..p]).await.map_err(|e| e.to_string())?;
                            tokio::time::sleep(Duration::from_millis(1)).await;
                            prev = p;
                        }
                    }
                    for ch in &c.down[k..] {
                        wr.write_all(ch).await.map_err(|e| e.to_string())?;
                        tokio::time::sleep(Duration::from_millis(1)).await;
                    }
                    Ok::<_, String>(())
                };
                // what the tunnel writes
                let up = async {
                    let mut got = extra_after_request;
                    let mut buf = vec![0u8; 1024];
                    while got.len() < want {
                        match tokio::time::timeout(Duration::from_secs(5), rd.read(&mut buf)).await {
                            Ok(Ok(n)) if n > 0 => got.extend_from_slice(&buf[..n]),
                            _ => break,
                        }
                    }
                    got
                };
                let (d, got) = tokio::join!(down, up);
                d?;
                Ok::<_, String>(got)
            });
            let auth = c.with_auth.then(|| SocksAuthView::UsernamePassword("user".into(), "pass".into()));
            let out = tokio::time::timeout(
                Duration::from_secs(30),
                connect(client, auth, SocksRequestView::Connect(SocksAddrView::Domain("dest.example".into()), 443)),
            )
            .await;
            let io = match out {
                Ok(SocksOutcome::Tcp(io)) => io,
                Ok(SocksOutcome::Failure(e)) => return viol("socks-stream:dialogue-failed", format!("well-behaved proxy, client reports failure {}", e)),
                Ok(SocksOutcome::ErrProtocol(e)) | Ok(SocksOutcome::ErrAuthentication(e)) => {
                    return viol("socks-stream:dialogue-failed", format!("well-behaved proxy, client reports {}", e))
                }
                Ok(SocksOutcome::ErrIo(k)) => return viol("socks-stream:dialogue-failed", format!("well-behaved proxy, client reports I/O error {:?}", k)),
                Ok(SocksOutcome::Udp(_)) => return viol("socks-stream:dialogue-failed", "UDP association for a CONNECT"),
                Err(_) => return viol("socks-stream:dialogue-failed", "the dialogue with a well-behaved proxy does not finish"),
            };
            let want: Vec<u8> = c.down.concat();
            let (mut rd, mut wr) = tokio::io::split(io);
            let writing = async {
                for ch in &c.up {
                    if wr.write_all(ch).await.is_err() {
                        break;
                    }
                }
            };
            let reading = async {
                let mut got = vec![];
                let mut buf = vec![0u8; 4096];
                while got.len() < want.len() {
                    match tokio::time::timeout(Duration::from_secs(5), rd.read(&mut buf)).await {
                        Ok(Ok(n)) if n > 0 => got.extend_from_slice(&buf[..n]),
                        _ => break,
                    }
                }
                got
            };
            let ((), got) = tokio::join!(writing, reading);
            ensure!(
                got == want,
                "socks-stream:destination-bytes-lost",
                "the destination sent {} bytes ({} chunk(s) of them together with the proxy's reply), the tunnel's side reads {} bytes; first difference at {}",
                want.len(),
                (c.coalesced as usize).min(c.down.len()),
                got.len(),
                got.iter().zip(&want).position(|(a, b)| a != b).unwrap_or(got.len().min(want.len()))
            );
            let up_want: Vec<u8> = c.up.concat();
            match tokio::time::timeout(Duration::from_secs(60), srv).await {
                Ok(Ok(Ok(up_got))) => {
                    ensure!(
                        up_got == up_want,
                        "socks-stream:client-bytes-lost",
                        "{} bytes written into the tunnel's destination side, the proxy received {}",
                        up_want.len(),
                        up_got.len()
                    );
                    Ok(())
                }
                Ok(Ok(Err(e))) => viol("socks-stream:dialogue-failed", e),
                _ => viol("harness:socks-server", "scripted proxy task failed"),
            }
        })
    }
}
