//! C09 — no untrusted input can panic, wedge or unboundedly grow the endpoint.

use crate::engine::world::{AuthKind, CoreSpec};
use crate::engine::{self, aio, idx, viol, Ctx, Suite, Tier, Verdict, Violation};
use crate::ensure;
use crate::props::c04::TempFile;
use crate::reference::icmp;
use bytes::Bytes;
use proptest::prelude::*;
use serde::{Deserialize, Serialize};
use serde_json::{json, Value};
use std::net::IpAddr;
use std::time::Duration;
use tokio::io::{AsyncReadExt, AsyncWriteExt};
use trusttunnel::verif::codecs::{
    h1_decode_request, h1_decode_response, icmp_parse, skip_ipv4_header, skip_ipv6_header, IcmpDecoder, UdpDecoder,
};
use trusttunnel::verif::session::{ChannelView, Proto};
use trusttunnel::verif::socks::{connect, SocksAddrView, SocksAuthView, SocksOutcome, SocksRequestView};
use trusttunnel::verif::tls::extract_client_random;

#[derive(Serialize, Deserialize, Debug, Clone)]
pub struct BytesCase {
    /// which parser
    pub parser: String,
    pub data: Vec<u8>,
    /// cut points for the incremental parsers
    pub cuts: Vec<u16>,
}

const PARSERS: [&str; 9] = [
    "ipv4-header",
    "ipv6-header",
    "icmp4-message",
    "icmp6-message",
    "udp-mux-stream",
    "icmp-mux-stream",
    "h1-request-head",
    "h1-response-head",
    "client-hello",
];

fn valid_template(parser: &str, a: &[u8]) -> Vec<u8> {
    // a well-formed message of each kind, to be mutated
    let id = u16::from_be_bytes([a[0], a[1]]);
    match parser {
        "ipv4-header" => icmp::ipv4_packet(1, &vec![1u8; (a[2] as usize % 11) * 4], [127, 0, 0, 1], [10, 0, 0, 1], &icmp::echo(8, 0, id, 7, &a[..a.len().min(12)])),
        "ipv6-header" => {
            let mut inner = vec![];
            let nh = match a[2] % 5 {
                0 => 58u8,
                1 => {
                    inner.extend_from_slice(&[58, a[3] % 4, 0, 0, 0, 0, 0, 0]);
                    inner.extend(std::iter::repeat(0).take((a[3] as usize % 4) * 8));
                    0
                }
                2 => {
                    inner.extend_from_slice(&[58, 0, 0, 0, 0, 0, 0, 0]);
                    44
                }
                3 => {
                    inner.extend_from_slice(&[58, a[3], 0, 0]);
                    60
                }
                _ => {
                    inner.extend_from_slice(&[43, 0, 0, 0, 0, 0, 0, 0, 58, 0, 0, 0, 0, 0, 0, 0]);
                    0
                }
            };
            inner.extend_from_slice(&icmp::echo(128, 0, id, 7, &a[..a.len().min(12)]));
            icmp::ipv6_packet(nh, [0xfe; 16], [0x20; 16], &inner)
        }
        "icmp4-message" => {
            let q = icmp::ipv4_packet(1, &vec![1u8; (a[2] as usize % 4) * 4], [127, 0, 0, 1], [10, 0, 0, 1], &icmp::echo(8, 0, id, 7, &a[..a.len().min(12)]));
            match a[3] % 4 {
                0 => icmp::echo(0, 0, id, 7, &a[..a.len().min(12)]),
                1 => icmp::error(3, a[4] % 6, [0; 4], &q),
                2 => icmp::error(11, a[4] % 2, [0; 4], &q),
                _ => icmp::error([4u8, 5, 12, 13, 14, 15, 16][a[4] as usize % 7], 0, [0; 4], &q),
            }
        }
        "icmp6-message" => {
            let q = icmp::ipv6_packet([58u8, 0, 43, 60, 44][a[2] as usize % 5], [0xfe; 16], [0x20; 16], &icmp::echo(128, 0, id, 7, &a[..a.len().min(12)]));
            match a[3] % 3 {
                0 => icmp::echo(129, 0, id, 7, &a[..a.len().min(12)]),
                1 => icmp::error(1 + a[4] % 4, a[5] % 2, [0; 4], &q),
                _ => icmp::echo(128, 0, id, 7, &[]),
            }
        }
        "udp-mux-stream" => {
            let d = crate::reference::udpmux::Datagram {
                source: "10.0.0.1:1000".parse().unwrap(),
                destination: "[2001:db8::1]:53".parse().unwrap(),
                app_name: "app".into(),
                payload: a.to_vec(),
            };
            let mut v = crate::reference::udpmux::encode_in(&d);
            v.extend_from_slice(&crate::reference::udpmux::encode_in(&d));
            v
        }
        "icmp-mux-stream" => {
            let mut v = vec![];
            for i in 0..2u16 {
                v.extend_from_slice(&icmp::encode_request(&icmp::Request { id, destination: "127.0.0.1".parse().unwrap(), seq: i, ttl: 64, data_size: a[2] as u16 }));
            }
            v
        }
        "h1-request-head" => format!("CONNECT host.test:{} HTTP/1.1\r\nHost: host.test\r\nUser-Agent: x/{}\r\nProxy-Authorization: Basic dTpw\r\n\r\npayload", id, a[2]).into_bytes(),
        "h1-response-head" => format!("HTTP/1.1 {} OK\r\nContent-Length: {}\r\nX-A: b\r\n\r\nbody", 100 + id % 500, a[2]).into_bytes(),
        _ => crate::props::c12::synthetic(&crate::props::c12::SyntheticSpec {
            random: (0..32).map(|i| a[i % a.len()]).collect(),
            session_id_len: a[2] % 33,
            cipher_suites: 3,
            extensions: vec![(10, a[3] as u16), (51, (a[4] as u16) * 4)],
            sni: Some("main.x".into()),
            record_split: None,
            trailing: vec![],
            legacy_version: [3, 1],
        }),
    }
}

fn bytes_strategy() -> BoxedStrategy<BytesCase> {
    let parser = prop::sample::select(PARSERS.to_vec());
    let seed = prop::collection::vec(any::<u8>(), 16);
    let mutation = prop::collection::vec((any::<u16>(), any::<u8>(), 0u8..4), 0..4);
    let random_tail = prop::collection::vec(any::<u8>(), 0..40);
    (
        parser,
        seed,
        mutation,
        prop_oneof![6 => Just(0u8), 2 => Just(1u8), 1 => Just(2u8)],
        random_tail,
        prop::collection::vec(any::<u16>(), 0..5),
    )
        .prop_map(|(parser, seed, mutation, mode, tail, cuts)| {
            let mut data = match mode {
                1 => tail.clone(),
                _ => valid_template(parser, &seed),
            };
            if mode != 1 {
                for (pos, val, op) in mutation {
                    if data.is_empty() {
                        break;
                    }
                    let i = idx(pos, data.len());
                    match op {
                        0 => data[i] = val,
                        1 => data.truncate(i),
                        2 => data[i] ^= 1 << (val % 8),
                        _ => data.insert(i, val),
                    }
                }
                if mode == 2 {
                    data.extend_from_slice(&tail);
                }
            }
            BytesCase {
                parser: parser.to_string(),
                data,
                cuts,
            }
        })
        .boxed()
}

fn pieces<'a>(data: &'a [u8], cuts: &[u16]) -> Vec<&'a [u8]> {
    let mut c: Vec<usize> = cuts.iter().map(|p| idx(*p, data.len() + 1)).collect();
    c.sort();
    c.dedup();
    let mut out = vec![];
    let mut prev = 0;
    for x in c {
        if x > prev {
            out.push(&data[prev..x]);
            prev = x;
        }
    }
    out.push(&data[prev..]);
    out
}

/// Run one parser on one input; returns whether the first validation layer accepted it.
pub fn exercise(c: &BytesCase) -> Result<bool, Violation> {
    let d = &c.data;
    match c.parser.as_str() {
        "ipv4-header" | "ipv6-header" => {
            let v6 = c.parser == "ipv6-header";
            let r = engine::no_panic("panic:ip-header", || if v6 { skip_ipv6_header(Bytes::copy_from_slice(d)) } else { skip_ipv4_header(Bytes::copy_from_slice(d)) })?;
            if let Some((_, rest)) = &r {
                ensure!(
                    rest.len() + if v6 { 40 } else { 20 } <= d.len() && d.ends_with(rest),
                    "ip-header:payload-not-a-suffix",
                    "{}: payload of {} bytes out of a {}-byte packet is not a proper suffix",
                    c.parser,
                    rest.len(),
                    d.len()
                );
            }
            Ok(r.is_some())
        }
        "icmp4-message" | "icmp6-message" => {
            let v6 = c.parser == "icmp6-message";
            let peer: IpAddr = if v6 { "fe80::1".parse().unwrap() } else { "10.1.1.1".parse().unwrap() };
            let r = engine::no_panic("panic:icmp-message", || icmp_parse(v6, Bytes::copy_from_slice(d), peer))?;
            if let Ok(p) = &r {
                ensure!(p.len <= d.len().max(8) + 8, "icmp:length-exceeds-input", "parsed message claims {} bytes from a {}-byte packet", p.len, d.len());
                if let Some(enc) = &p.encoded_reply {
                    ensure!(enc.len() == 22, "icmp:reply-record-size", "7.4 record of {} bytes", enc.len());
                }
            }
            Ok(r.is_ok())
        }
        "udp-mux-stream" => {
            let ps = pieces(d, &c.cuts);
            let (n, bytes) = engine::no_panic("panic:udp-decoder", || {
                let mut dec = UdpDecoder::default();
                let (mut n, mut bytes) = (0usize, 0usize);
                for p in &ps {
                    let mut pending = std::collections::VecDeque::from([Bytes::copy_from_slice(p)]);
                    let mut guard = 0;
                    while let Some(chunk) = pending.pop_front() {
                        if chunk.is_empty() {
                            continue;
                        }
                        guard += 1;
                        if guard > 100_000 {
                            return (usize::MAX, 0);
                        }
                        let before = chunk.len();
                        if let Some((dg, tail)) = dec.decode_chunk(chunk) {
                            n += 1;
                            bytes += dg.payload.len();
                            // progress: the tail must be shorter than what was offered, unless a datagram came out
                            if !tail.is_empty() {
                                if tail.len() > before {
                                    return (usize::MAX, 1);
                                }
                                pending.push_front(tail);
                            }
                        }
                    }
                }
                (n, bytes)
            })?;
            ensure!(n != usize::MAX, "udp-decoder:no-progress", "the decoder does not consume its input");
            ensure!(bytes <= d.len(), "udp-decoder:invented-bytes", "{} payload bytes decoded from {} input bytes", bytes, d.len());
            Ok(n > 0)
        }
        "icmp-mux-stream" => {
            let ps = pieces(d, &c.cuts);
            let n = engine::no_panic("panic:icmp-decoder", || {
                let mut dec = IcmpDecoder::default();
                let mut n = 0usize;
                for p in &ps {
                    let mut pending = std::collections::VecDeque::from([Bytes::copy_from_slice(p)]);
                    let mut guard = 0;
                    while let Some(chunk) = pending.pop_front() {
                        if chunk.is_empty() {
                            continue;
                        }
                        guard += 1;
                        if guard > 100_000 {
                            return usize::MAX;
                        }
                        if let Some((_, tail)) = dec.decode_chunk(chunk) {
                            n += 1;
                            if !tail.is_empty() {
                                pending.push_front(tail);
                            }
                        }
                    }
                }
                n
            })?;
            ensure!(n != usize::MAX, "icmp-decoder:no-progress", "the decoder does not consume its input");
            ensure!(n == d.len() / 23, "icmp-decoder:wrong-count", "{} requests decoded from {} bytes", n, d.len());
            Ok(n > 0)
        }
        "h1-request-head" | "h1-response-head" => {
            let req = c.parser == "h1-request-head";
            let r = engine::no_panic("panic:h1-head", || if req { h1_decode_request(d) } else { h1_decode_response(d) })?;
            match &r {
                Ok(Some(n)) => ensure!(*n <= d.len() && *n >= 16, "h1:head-length", "head of {} bytes in {} bytes of input", n, d.len()),
                Ok(None) => ensure!(d.len() < 1024, "h1:partial-beyond-limit", "{} bytes accepted as a partial head (limit 1024)", d.len()),
                Err(_) => {}
            }
            Ok(matches!(r, Ok(Some(_))))
        }
        _ => {
            let r = engine::no_panic("panic:client-hello", || extract_client_random(d))?;
            Ok(matches!(r, trusttunnel::verif::tls::Extraction::Found(_)))
        }
    }
}

pub struct BytesSuite;

impl Suite for BytesSuite {
    type Case = BytesCase;
    fn name(&self) -> &'static str {
        "parsers-mutated"
    }
    fn rule(&self) -> String {
        "for each of 9 parsers (IPv4 / IPv6 header skipping, ICMPv4 / ICMPv6 message deserialisation + quoted-request extraction + 7.4 encoder, UDP- and ICMP-multiplexer stream decoders under segmentation, HTTP/1.1 request and response head decoders, ClientHello random extraction): a well-formed message (options, extension-header chains, quoted packets, ...) with 0-3 byte-level mutations (overwrite, truncate, bit flip, insert), optionally followed by random bytes, or purely random bytes; oracle: no panic (arithmetic overflow checks on), every call returns, output is consistent with the input (payload is a suffix, decoded bytes <= input bytes, exactly len/23 ICMP requests, head length within the input, no partial head beyond 1024 bytes); non-trivial = input accepted by the parser's first validation layer".into()
    }
    fn strategy(&self, _: Tier) -> BoxedStrategy<BytesCase> {
        bytes_strategy()
    }
    fn cases(&self, tier: Tier) -> u64 {
        tier.pick(600_000, 12_000_000)
    }
    fn classify(&self, c: &BytesCase) -> Vec<&'static str> {
        let mut v = vec![];
        if let Ok(true) = exercise(c) {
            v.push("accepted");
            v.push("nontrivial");
        }
        v.push(match c.parser.as_str() {
            "ipv4-header" => "ipv4-header",
            "ipv6-header" => "ipv6-header",
            "icmp4-message" => "icmp4-message",
            "icmp6-message" => "icmp6-message",
            "udp-mux-stream" => "udp-mux-stream",
            "icmp-mux-stream" => "icmp-mux-stream",
            "h1-request-head" => "h1-request-head",
            "h1-response-head" => "h1-response-head",
            _ => "client-hello",
        });
        v
    }
    fn required_classes(&self) -> Vec<&'static str> {
        let mut v = vec!["nontrivial"];
        v.extend(PARSERS.iter());
        v
    }
    fn check(&self, c: &BytesCase) -> Verdict {
        exercise(c).map(|_| ())
    }
}

/// Every string up to length 4 over a reduced alphabet, placed at the critical positions of each
/// packet parser.
fn exhaustive_short(ctx: &mut Ctx) {
    const SUITE: &str = "parsers-exhaustive-short";
    if !ctx.suite_enabled(SUITE) {
        return;
    }
    const ALPHABET: [u8; 12] = [0x00, 0x01, 0x04, 0x06, 0x2b, 0x2c, 0x3a, 0x3c, 0x45, 0x60, 0x80, 0xff];
    let len = ctx.tier.pick(3usize, 4usize);
    let total = (ALPHABET.len() as u64).pow(len as u32);
    let mut evals = 0u64;
    let mut accepted = 0u64;
    engine::watchdog::begin_case(ctx.prop, SUITE, &json!("enumeration"));
    let mut n = ctx.shard as u64;
    // positions: (parser, template index where the string is written)
    let v4 = icmp::ipv4_packet(1, &[], [127, 0, 0, 1], [10, 0, 0, 1], &icmp::echo(8, 0, 1, 1, b"abcd"));
    let v6ext = {
        let mut inner = vec![58u8, 0, 0, 0, 0, 0, 0, 0];
        inner.extend_from_slice(&icmp::echo(128, 0, 1, 1, b"abcd"));
        icmp::ipv6_packet(0, [0xfe; 16], [0x20; 16], &inner)
    };
    let err4 = icmp::error(3, 1, [0; 4], &v4);
    let err6 = icmp::error(1, 0, [0; 4], &v6ext);
    let sites: Vec<(&str, Vec<u8>, usize)> = vec![
        ("ipv4-header", v4.clone(), 0),
        ("ipv4-header", v4.clone(), 9),
        ("ipv6-header", v6ext.clone(), 6),
        ("ipv6-header", v6ext.clone(), 40),
        ("icmp4-message", err4.clone(), 0),
        ("icmp4-message", err4.clone(), 8),
        ("icmp4-message", err4.clone(), 28),
        ("icmp6-message", err6.clone(), 0),
        ("icmp6-message", err6.clone(), 14),
        ("icmp6-message", err6.clone(), 48),
        ("ipv4-header", vec![], 0),
        ("icmp4-message", vec![], 0),
        ("icmp6-message", vec![], 0),
        ("h1-request-head", b"GET / HTTP/1.1\r\n\r\n".to_vec(), 12),
        ("client-hello", vec![22, 3, 1, 0, 50, 1, 0, 0, 46, 3, 3], 3),
    ];
    while n < total {
        if evals % 400_000 == 0 {
            engine::watchdog::heartbeat();
        }
        let mut s = Vec::with_capacity(len);
        let mut x = n;
        for _ in 0..len {
            s.push(ALPHABET[(x % ALPHABET.len() as u64) as usize]);
            x /= ALPHABET.len() as u64;
        }
        for (parser, template, at) in &sites {
            let mut data = template.clone();
            if data.len() < at + s.len() {
                data.resize(at + s.len(), 0);
            }
            data[*at..*at + s.len()].copy_from_slice(&s);
            // also the truncation right after the string
            for cut in [data.len(), at + s.len()] {
                let case = BytesCase { parser: parser.to_string(), data: data[..cut].to_vec(), cuts: vec![] };
                evals += 1;
                match exercise(&case) {
                    Ok(true) => accepted += 1,
                    Ok(false) => {}
                    Err(v) => {
                        ctx.violation(SUITE, serde_json::to_value(&case).unwrap(), v);
                    }
                }
            }
        }
        n += ctx.nshards as u64;
    }
    engine::watchdog::end_case();
    ctx.record_bulk(SUITE, evals, accepted, &[("nontrivial", accepted)], vec![json!({"string": "every string over the alphabet", "alphabet": ALPHABET.iter().map(|b| format!("{:02x}", b)).collect::<Vec<_>>(), "length": len})]);
    let s = ctx.suite_mut(SUITE);
    s.exhaustive = Some(true);
    s.rule = format!(
        "every string of length {} over the alphabet {{00,01,04,06,2b,2c,3a,3c,45,60,80,ff}} (version nibbles, header lengths, next-header and type codes, extremes) written at 15 critical positions of well-formed IPv4 / IPv6 / ICMP / ICMPv6 / HTTP / TLS templates (and as the whole input), with and without truncation right behind it; same oracle; non-trivial = accepted by the first validation layer",
        len
    );
}

// ---------------------------------------------------------------------------------------------
// whole-connection level: garbage on an accepted connection, SOCKS server garbage, config files

#[derive(Serialize, Deserialize, Debug, Clone)]
pub struct ConnCase {
    /// 0 = HTTP/1.1 session bytes, 1 = HTTP/2 session bytes, 2 = SOCKS5 server bytes
    pub kind: u8,
    pub data: Vec<u8>,
    pub cuts: Vec<u16>,
}

pub struct ConnSuite;

impl Suite for ConnSuite {
    type Case = ConnCase;
    fn name(&self) -> &'static str {
        "connections-garbage"
    }
    fn rule(&self) -> String {
        "byte streams (mutated well-formed prefixes and random bytes, 0-400 bytes, 0-4 cuts) fed (a) to a real HTTP/1.1 tunnel session, (b) to a real HTTP/2 tunnel session, (c) as the server side of the real SOCKS5 client dialogue; oracle: the session / dialogue ends by itself within its time-outs (virtual time), no panic anywhere in the process (panic hook counter), no forwarder call for garbage; non-trivial = the stream starts with a well-formed protocol prefix".into()
    }
    fn strategy(&self, _: Tier) -> BoxedStrategy<ConnCase> {
        let prefix = prop_oneof![
            Just(b"CONNECT a.test:1 HTTP/1.1\r\nHost: a.test:1\r\n".to_vec()),
            Just(b"GET http://a.test/ HTTP/1.1\r\nHost: a.test\r\nContent-Length: 5\r\n\r\n".to_vec()),
            Just(b"PRI * HTTP/2.0\r\n\r\nSM\r\n\r\n\x00\x00\x00\x04\x00\x00\x00\x00\x00".to_vec()),
            Just(b"PRI * HTTP/2.0\r\n\r\nSM\r\n\r\n\x00\x00\x05\x01\x05\x00\x00\x00\x01".to_vec()),
            Just(vec![5u8, 2]),
            Just(vec![5u8, 0, 5, 0, 0, 1]),
            Just(vec![5u8, 0, 5, 0, 0, 3, 200]),
            Just(vec![]),
        ];
        (0u8..3, prefix, prop::collection::vec(any::<u8>(), 0..200), prop::collection::vec((any::<u16>(), any::<u8>()), 0..3), prop::collection::vec(any::<u16>(), 0..4))
            .prop_map(|(kind, mut data, tail, muts, cuts)| {
                data.extend_from_slice(&tail);
                for (p, v) in muts {
                    if !data.is_empty() {
                        let i = idx(p, data.len());
                        data[i] = v;
                    }
                }
                ConnCase { kind, data, cuts }
            })
            .boxed()
    }
    fn cases(&self, tier: Tier) -> u64 {
        tier.pick(24_000, 480_000)
    }
    fn classify(&self, c: &ConnCase) -> Vec<&'static str> {
        let wf = c.data.starts_with(b"CONNECT") || c.data.starts_with(b"GET") || c.data.starts_with(b"PRI") || c.data.first() == Some(&5);
        let mut v = vec![["h1-session", "h2-session", "socks-server"][c.kind as usize % 3]];
        if wf {
            v.push("nontrivial");
        }
        v
    }
    fn required_classes(&self) -> Vec<&'static str> {
        vec!["nontrivial", "h1-session", "h2-session", "socks-server"]
    }
    fn check(&self, c: &ConnCase) -> Verdict {
        let c = c.clone();
        aio::block_on_paused(async move {
            aio::skew_clock().await;
            let ps: Vec<Vec<u8>> = pieces(&c.data, &c.cuts).into_iter().map(|p| p.to_vec()).collect();
            if c.kind % 3 == 2 {
                let (client, mut server) = tokio::io::duplex(4096);
                let srv = tokio::spawn(async move {
                    let mut sink = vec![0u8; 4096];
                    for p in ps {
                        let _ = tokio::time::timeout(Duration::from_millis(5), server.read(&mut sink)).await;
                        if server.write_all(&p).await.is_err() {
                            return;
                        }
                    }
                    let _ = tokio::time::timeout(Duration::from_millis(5), server.read(&mut sink)).await;
                });
                let out = tokio::time::timeout(
                    Duration::from_secs(60),
                    connect(client, Some(SocksAuthView::UsernamePassword("u".into(), "p".into())), SocksRequestView::Connect(SocksAddrView::Domain("a.test".into()), 80)),
                )
                .await;
                ensure!(out.is_ok(), "socks:dialogue-wedged", "the SOCKS5 dialogue did not end although the server closed the connection");
                if let Ok(SocksOutcome::Tcp(_)) = out {
                    // success must have been earned by a well-formed success reply; checked in C15
                }
                let _ = srv.await;
                return Ok(());
            }
            let spec = CoreSpec { clients: vec![], auth: AuthKind::None, listener_timeout: Duration::from_secs(30), ..CoreSpec::default() };
            let world = spec.build().map_err(|e| Violation { sig: "harness:core".into(), msg: e })?;
            let scripted = crate::engine::world::Scripted::new(|_| crate::engine::world::Outcome::Refused);
            let _g = scripted.install(&world);
            let proto = if c.kind % 3 == 0 { Proto::Http1 } else { Proto::Http2 };
            let (mut io, srv) = world.serve(proto, ChannelView::Tunnel, "main.x", None, crate::engine::world::peer_v4(), 1 << 16);
            for p in ps {
                if io.write_all(&p).await.is_err() {
                    break;
                }
                tokio::time::sleep(Duration::from_millis(1)).await;
            }
            let _ = io.shutdown().await;
            let done = tokio::time::timeout(Duration::from_secs(120), srv).await;
            match done {
                Err(_) => viol("session:wedged", "the session did not end within 120 virtual seconds after the client closed"),
                Ok(Err(e)) if e.is_panic() => viol("panic:session-task", "the session task panicked"),
                _ => Ok(()),
            }
        })
    }
}

#[derive(Serialize, Deserialize, Debug, Clone)]
pub struct FileCase {
    /// 0 settings, 1 credentials, 2 rules, 3 tls hosts
    pub which: u8,
    pub doc: String,
}

pub struct FileSuite;

fn value_strategy() -> BoxedStrategy<String> {
    prop_oneof![
        Just("\"127.0.0.1:8443\"".to_string()),
        Just("\"text\"".to_string()),
        Just("'lit'".to_string()),
        Just("10".to_string()),
        Just("-1".to_string()),
        Just("9223372036854775807".to_string()),
        Just("18446744073709551616".to_string()),
        Just("1.5".to_string()),
        Just("true".to_string()),
        Just("[]".to_string()),
        Just("[1, 2]".to_string()),
        Just("[\"a\"]".to_string()),
        Just("{}".to_string()),
        Just("{ a = 1 }".to_string()),
        Just("1979-05-27T07:32:00Z".to_string()),
        Just("\"\"".to_string()),
        // values of the right type and the right vocabulary, well-formed or nearly so: the rule
        // evaluation and the host loading get to work on them
        "[0-9a-fA-F]{0,12}".prop_map(|h| format!("\"{}\"", h)),
        ("[0-9a-f]{0,10}", "[0-9a-f]{0,10}").prop_map(|(p, m)| format!("\"{}/{}\"", p, m)),
        ("[0-9a-f]{2,8}", "[0-9a-f]{2,8}", "[0-9a-f]{0,4}").prop_map(|(p, m, x)| format!("\"{}/{}/{}\"", p, m, x)),
        (any::<[u8; 4]>(), 0u8..40).prop_map(|(a, l)| format!("\"{}.{}.{}.{}/{}\"", a[0], a[1], a[2], a[3], l)),
        (any::<[u16; 8]>(), 0u8..140).prop_map(|(a, l)| format!("\"{}/{}\"", std::net::Ipv6Addr::from(a), l)),
        prop::sample::select(vec!["\"allow\"", "\"deny\"", "\"Allow\"", "\"drop\""]).prop_map(|s| s.to_string()),
    ]
    .boxed()
}

impl Suite for FileSuite {
    type Case = FileCase;
    fn name(&self) -> &'static str {
        "configuration-files"
    }
    fn rule(&self) -> String {
        "TOML documents for the main settings, the credentials file, the rules file and the TLS hosts file, generated from the documented grammar with perturbations: keys missing, values of the wrong type (integers, huge integers, floats, booleans, arrays, inline tables, dates, empty strings) or of the right vocabulary (hex strings, prefix/mask pairs of equal and unequal lengths, CIDRs with in- and out-of-range prefix lengths, actions); a rules file that loads is evaluated for five connections; arrays where tables are expected and vice versa, unknown keys, duplicated tables; loaded exactly as the endpoint does (toml::from_str, credentials_file / rules_file indirection) and handed to Core::new; oracle: Ok or Err, never a panic; non-trivial = the document parses as TOML".into()
    }
    fn strategy(&self, _: Tier) -> BoxedStrategy<FileCase> {
        let settings_keys = vec![
            "listen_address", "ipv6_available", "allow_private_network_connections", "tls_handshake_timeout_secs", "client_listener_timeout_secs",
            "connection_establishment_timeout_secs", "tcp_connections_timeout_secs", "udp_connections_timeout_secs", "speedtest_enable", "credentials_file", "rules_file", "unknown_key",
        ];
        let settings_tables = vec![
            "[listen_protocols]", "[listen_protocols.http1]", "[listen_protocols.http2]", "[listen_protocols.quic]", "[forward_protocol]", "[forward_protocol.direct]",
            "[forward_protocol.socks5]", "[reverse_proxy]", "[icmp]", "[metrics]", "[[listen_protocols]]", "[[reverse_proxy]]",
        ];
        let table_keys = vec![
            "upload_buffer_size", "initial_stream_window_size", "max_concurrent_streams", "recv_udp_payload_size", "address", "extended_auth", "server_address", "path_mask",
            "interface_name", "request_timeout_secs", "recv_message_queue_capacity", "h3_backward_compatibility",
        ];
        let settings = (
            prop::collection::vec((prop::sample::select(settings_keys), value_strategy()), 0..6),
            prop::collection::vec((prop::sample::select(settings_tables), prop::collection::vec((prop::sample::select(table_keys), value_strategy()), 0..3)), 0..5),
        )
            .prop_map(|(top, tables)| {
                let mut seen = std::collections::BTreeSet::new();
                let mut d = String::new();
                for (k, v) in top {
                    if seen.insert(k) {
                        d.push_str(&format!("{} = {}\n", k, v));
                    }
                }
                for (t, kv) in tables {
                    d.push_str(t);
                    d.push('\n');
                    let mut seen = std::collections::BTreeSet::new();
                    for (k, v) in kv {
                        if seen.insert(k) {
                            d.push_str(&format!("{} = {}\n", k, v));
                        }
                    }
                }
                FileCase { which: 0, doc: d }
            });
        let list_file = |which: u8, table: &'static str, keys: Vec<&'static str>| {
            prop::collection::vec((prop_oneof![6 => Just(format!("[[{}]]", table)), 1 => Just(format!("[{}]", table)), 1 => Just(format!("{} = 5", table)), 1 => Just(format!("{} = [1, 2]", table))], prop::collection::vec((prop::sample::select(keys), value_strategy()), 0..4)), 0..4)
                .prop_map(move |entries| {
                    let mut d = String::new();
                    for (t, kv) in entries {
                        d.push_str(&t);
                        d.push('\n');
                        if t.contains('=') {
                            continue;
                        }
                        let mut seen = std::collections::BTreeSet::new();
                        for (k, v) in kv {
                            if seen.insert(k) {
                                d.push_str(&format!("{} = {}\n", k, v));
                            }
                        }
                    }
                    FileCase { which, doc: d }
                })
        };
        prop_oneof![
            3 => settings,
            3 => list_file(1, "client", vec!["username", "password", "extra"]),
            1 => list_file(2, "rule", vec!["cidr", "client_random_prefix", "action", "extra"]),
            // rules that mostly load, so that the evaluation gets to see them
            3 => prop::collection::vec(
                (
                    prop_oneof![
                        3 => Just(None),
                        2 => (any::<[u8; 4]>(), 0u8..36).prop_map(|(a, l)| Some(format!("\"{}.{}.{}.{}/{}\"", a[0], a[1], a[2], a[3], l))),
                        1 => (any::<[u16; 8]>(), 0u8..132).prop_map(|(a, l)| Some(format!("\"{}/{}\"", std::net::Ipv6Addr::from(a), l))),
                        1 => Just(Some("\"0.0.0.0/0\"".to_string())),
                        1 => Just(Some("\"::/0\"".to_string())),
                    ],
                    prop_oneof![
                        2 => Just(None),
                        3 => "[0-9a-fA-F]{0,70}".prop_map(|h| Some(format!("\"{}\"", h))),
                        4 => ("[0-9a-f]{0,12}", "[0-9a-f]{0,12}").prop_map(|(p, m)| Some(format!("\"{}/{}\"", p, m))),
                        1 => ("[0-9a-f]{2,66}", "[0-9a-f]{2,66}").prop_map(|(p, m)| Some(format!("\"{}/{}\"", p, m))),
                        1 => value_strategy().prop_map(Some),
                    ],
                    prop_oneof![8 => Just("\"allow\"".to_string()), 8 => Just("\"deny\"".to_string()), 1 => value_strategy()],
                ),
                0..5,
            )
            .prop_map(|rules| {
                let mut d = String::new();
                for (cidr, random, action) in rules {
                    d.push_str("[[rule]]\n");
                    if let Some(c) = cidr {
                        d.push_str(&format!("cidr = {}\n", c));
                    }
                    if let Some(r) = random {
                        d.push_str(&format!("client_random_prefix = {}\n", r));
                    }
                    d.push_str(&format!("action = {}\n", action));
                }
                FileCase { which: 2, doc: d }
            }),
            2 => list_file(3, "main_hosts", vec!["hostname", "cert_chain_path", "private_key_path", "allowed_sni"]),
        ]
        .boxed()
    }
    fn cases(&self, tier: Tier) -> u64 {
        tier.pick(40_000, 800_000)
    }
    fn classify(&self, c: &FileCase) -> Vec<&'static str> {
        let mut v = vec![["settings", "credentials", "rules", "tls-hosts"][c.which as usize % 4]];
        if toml::from_str::<toml::Value>(&c.doc).is_ok() {
            v.push("nontrivial");
        }
        v
    }
    fn required_classes(&self) -> Vec<&'static str> {
        vec!["nontrivial", "settings", "credentials", "rules", "tls-hosts"]
    }
    fn check(&self, c: &FileCase) -> Verdict {
        let doc = c.doc.clone();
        let which = c.which % 4;
        engine::no_panic(
            match which {
                0 => "panic:settings-file",
                1 => "panic:credentials-file",
                2 => "panic:rules-file",
                _ => "panic:tls-hosts-file",
            },
            move || {
                let base = "listen_address = \"127.0.0.1:8443\"\n";
                let protocols = "[listen_protocols]\n[listen_protocols.http1]\n";
                let settings: Option<trusttunnel::settings::Settings> = match which {
                    0 => toml::from_str(&doc).ok(),
                    1 => {
                        let f = TempFile::new("c09cred", &doc);
                        toml::from_str(&format!("{}credentials_file = \"{}\"\n{}", base, f.path(), protocols)).ok()
                    }
                    2 => {
                        let f = TempFile::new("c09rules", &doc);
                        let s: Option<trusttunnel::settings::Settings> = toml::from_str(&format!("{}rules_file = \"{}\"\n{}", base, f.path(), protocols)).ok();
                        if let Some(s) = &s {
                            if let Some(e) = s.get_rules_engine().as_ref() {
                                let _ = e.evaluate(&"10.0.0.1".parse().unwrap(), Some(&[0xaa; 32]));
                                let _ = e.evaluate(&"::1".parse().unwrap(), None);
                                let _ = e.evaluate(&"::ffff:10.0.0.1".parse().unwrap(), Some(&[0u8; 32]));
                                let _ = e.evaluate(&"203.0.113.9".parse().unwrap(), Some(&[0xff; 32]));
                                let _ = e.evaluate(&"2001:db8::1".parse().unwrap(), Some(&[]));
                            }
                        }
                        s
                    }
                    _ => {
                        let hosts: Option<trusttunnel::settings::TlsHostsSettings> = toml::from_str(&doc).ok();
                        if let Some(h) = hosts {
                            if let Ok(s) = toml::from_str::<trusttunnel::settings::Settings>(&format!("{}{}", base, protocols)) {
                                let _ = trusttunnel::core::Core::new(s, None, h, trusttunnel::shutdown::Shutdown::new());
                            }
                        }
                        None
                    }
                };
                if let Some(s) = settings {
                    if let Ok(h) = CoreSpec::default().hosts() {
                        let _ = trusttunnel::core::Core::new(s, None, h, trusttunnel::shutdown::Shutdown::new());
                    }
                }
            },
        )
    }
}

pub fn run(ctx: &mut Ctx) {
    super::replay_corpus(ctx, replay);
    exhaustive_short(ctx);
    ctx.run_suite(&BytesSuite);
    ctx.run_suite(&ConnSuite);
    ctx.run_suite(&FileSuite);
    ctx.run_suite(&super::c09net::ListenerGarbageSuite);
    ctx.run_suite(&super::c09num::HostileNumbersSuite);
    ctx.run_suite(&super::c15::UdpSuite);
    ctx.assume("buffering bounds are checked where they are observable from outside: HTTP/1.1 head (C08 head-size-bound suite), partial head limit here; the 16 KiB ClientHello peek is bounded by construction of the loop and exercised by C12");
    ctx.assume("a panic anywhere in the process (including tasks spawned by the library, which the runtime swallows) is detected through the process-wide panic hook counter");
}

pub fn replay(ctx: &mut Ctx, suite: &str, case: &Value) -> bool {
    match suite {
        "parsers-mutated" => ctx.replay_suite(&BytesSuite, case),
        "parsers-exhaustive-short" => {
            let Ok(c) = serde_json::from_value::<BytesCase>(case.clone()) else { return false };
            ctx.record(suite, &["replayed"], || case.clone());
            if let Err(v) = exercise(&c) {
                ctx.violation(suite, case.clone(), v);
            }
            true
        }
        "connections-garbage" => ctx.replay_suite(&ConnSuite, case),
        "configuration-files" => ctx.replay_suite(&FileSuite, case),
        "listeners-garbage" => ctx.replay_suite(&super::c09net::ListenerGarbageSuite, case),
        "udp-relay-header" => ctx.replay_suite(&super::c15::UdpSuite, case),
        "hostile-numbers" => ctx.replay_suite(&super::c09num::HostileNumbersSuite, case),
        _ => false,
    }
}
