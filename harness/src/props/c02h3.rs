//! C02 over HTTP/3: a CONNECT tunnel from a quiche client through the real QUIC listener to a
//! scripted destination; both byte streams and both half-closes.

use crate::engine::networld::NetWorld;
use crate::engine::quic::{h3_tunnel, TunnelScript};
use crate::engine::world::{CoreSpec, Outcome, PeerMsg, Scripted};
use crate::engine::{aio, viol, Suite, Tier, Verdict};
use crate::ensure;
use crate::props::tunnelreq::b64;
use bytes::Bytes;
use proptest::prelude::*;
use serde::{Deserialize, Serialize};
use std::sync::atomic::Ordering;
use std::time::Duration;

#[derive(Serialize, Deserialize, Debug, Clone)]
pub struct Case {
    /// sizes of the pieces the client writes / the destination writes
    pub up: Vec<u16>,
    pub down: Vec<u16>,
    /// the client finishes its side after its last piece
    pub client_fin: bool,
    /// the destination ends its side after its last piece
    pub dest_eof: bool,
    /// the destination only starts writing after it has seen the client's end of stream
    pub dest_after_client_fin: bool,
}

fn pat(tag: u8, off: usize, len: usize) -> Vec<u8> {
    (off..off + len).map(|i| ((i * 7 + (i >> 8) * 3) as u8) ^ tag).collect()
}

pub struct H3TunnelSuite;

impl Suite for H3TunnelSuite {
    type Case = Case;
    fn name(&self) -> &'static str {
        "h3-tunnel-stream"
    }
    fn rule(&self) -> String {
        "CONNECT host:port from a quiche HTTP/3 client through the real QUIC listener (Core::listen on loopback, real time) to a scripted in-memory destination; the client writes 0-6 pieces of 1-30000 position-coded bytes and then finishes its stream or not, the destination writes 0-6 pieces (optionally only after it has seen the client's end of stream) and then ends or not; oracle: the destination receives exactly the client's bytes (and the end of stream iff the client finished), the client receives exactly the destination's bytes (and the end of the response stream iff the destination ended), no reset; non-trivial = the client finishes while destination data is still to come".into()
    }
    fn strategy(&self, _: Tier) -> BoxedStrategy<Case> {
        let sizes = || prop::collection::vec(prop_oneof![3 => 1u16..200, 2 => 200u16..5000, 1 => 5000u16..30000], 0..=6);
        (sizes(), sizes(), any::<bool>(), any::<bool>(), any::<bool>())
            .prop_map(|(up, down, client_fin, dest_eof, dest_after_client_fin)| Case { up, down, client_fin, dest_eof, dest_after_client_fin: dest_after_client_fin && client_fin })
            .boxed()
    }
    fn cases(&self, tier: Tier) -> u64 {
        tier.pick(640, 16_000)
    }
    fn classify(&self, c: &Case) -> Vec<&'static str> {
        let mut v = vec![];
        if c.client_fin {
            v.push("client-half-close");
        }
        if c.dest_eof {
            v.push("destination-half-close");
        }
        if c.client_fin && !c.down.is_empty() {
            v.push("nontrivial");
        }
        if c.dest_after_client_fin && !c.down.is_empty() {
            v.push("download-after-client-finished");
        }
        v
    }
    fn required_classes(&self) -> Vec<&'static str> {
        vec!["nontrivial", "client-half-close", "destination-half-close", "download-after-client-finished"]
    }
    fn check(&self, c: &Case) -> Verdict {
        let c = c.clone();
        aio::block_on_real(async move {
            let spec = CoreSpec { quic: true, ..CoreSpec::default() };
            let net = match NetWorld::start(&spec).await {
                Ok(n) => n,
                Err(e) => return viol("harness:networld", e),
            };
            let scripted = Scripted::new(|_| Outcome::Silent);
            let _g = scripted.install(&net.world);
            let mut up = vec![];
            let mut off = 0;
            for n in &c.up {
                up.push(pat(0x55, off, *n as usize));
                off += *n as usize;
            }
            let up_all: Vec<u8> = up.concat();
            let mut down = vec![];
            let mut off = 0;
            for n in &c.down {
                down.push(pat(0xaa, off, *n as usize));
                off += *n as usize;
            }
            let down_all: Vec<u8> = down.concat();
            let headers = vec![
                (b":method".to_vec(), b"CONNECT".to_vec()),
                (b":authority".to_vec(), b"dest.example:443".to_vec()),
                (b"proxy-authorization".to_vec(), format!("Basic {}", b64("user:pass")).into_bytes()),
            ];
            let (stop_tx, stop_rx) = tokio::sync::oneshot::channel();
            let addr = net.addr;
            let script = TunnelScript { up, fin: c.client_fin };
            let client = tokio::spawn(async move { h3_tunnel(addr, "main.x", headers, script, stop_rx, Duration::from_secs(6)).await });
            // the destination
            let mut origin = None;
            for _ in 0..2000 {
                if let Some((_, h)) = scripted.peers.lock().unwrap().first() {
                    origin = Some(h.clone());
                    break;
                }
                tokio::time::sleep(Duration::from_millis(1)).await;
            }
            let Some(origin) = origin else {
                let _ = stop_tx.send(());
                let seen = client.await.unwrap_or_default();
                return viol("h3-tunnel:not-established", format!("the endpoint never connected to the destination (client: status {:?}, error {:?})", seen.status, seen.error));
            };
            let wait_until = |cond: Box<dyn Fn() -> bool + Send>| async move {
                for _ in 0..3000 {
                    if cond() {
                        return true;
                    }
                    tokio::time::sleep(Duration::from_millis(1)).await;
                }
                false
            };
            if c.dest_after_client_fin {
                let o = origin.clone();
                let _ = wait_until(Box::new(move || o.eof_seen.load(Ordering::SeqCst))).await;
            }
            for d in &down {
                let _ = origin.to_client.send(PeerMsg::Data(Bytes::from(d.clone())));
                tokio::time::sleep(Duration::from_millis(1)).await;
            }
            if c.dest_eof {
                let _ = origin.to_client.send(PeerMsg::Eof);
            }
            // let both directions settle
            let o = origin.clone();
            let want_up = up_all.len();
            let want_fin = c.client_fin;
            let up_done = wait_until(Box::new(move || o.received.lock().unwrap().len() >= want_up && (!want_fin || o.eof_seen.load(Ordering::SeqCst)))).await;
            tokio::time::sleep(Duration::from_millis(if c.dest_eof || !down_all.is_empty() { 150 } else { 30 })).await;
            let _ = stop_tx.send(());
            let seen = client.await.unwrap_or_default();
            let what = format!("up {:?} fin={} / down {:?} eof={} after-client-fin={}", c.up, c.client_fin, c.down, c.dest_eof, c.dest_after_client_fin);
            if let Some(e) = &seen.error {
                if seen.status.is_none() {
                    return viol("harness:quic-client", e.clone());
                }
            }
            ensure!(seen.status == Some(200), "h3-tunnel:not-established", "{}: CONNECT answered {:?}", what, seen.status);
            ensure!(!seen.reset, "h3-tunnel:reset", "{}: the response stream was reset after {} of {} download bytes", what, seen.down.len(), down_all.len());
            let got_up = origin.received.lock().unwrap().clone();
            ensure!(
                up_done && got_up == up_all,
                "h3-tunnel:upload-differs",
                "{}: the destination received {} of {} bytes (client wrote {}, fin sent {}), end of stream seen {}",
                what,
                got_up.len(),
                up_all.len(),
                seen.up_sent,
                seen.fin_sent,
                origin.eof_seen.load(Ordering::SeqCst)
            );
            ensure!(
                origin.eof_seen.load(Ordering::SeqCst) == c.client_fin,
                "h3-tunnel:end-of-stream-to-destination",
                "{}: client finished its stream: {}, destination saw the end of stream: {}",
                what,
                c.client_fin,
                origin.eof_seen.load(Ordering::SeqCst)
            );
            ensure!(
                seen.down == down_all,
                if seen.down.len() < down_all.len() && down_all.starts_with(&seen.down) { "h3-tunnel:download-truncated" } else { "h3-tunnel:download-differs" },
                "{}: the client received {} of {} bytes",
                what,
                seen.down.len(),
                down_all.len()
            );
            if c.dest_eof {
                ensure!(seen.ended, "h3-tunnel:end-of-stream-to-client", "{}: the destination ended its side, the client's response stream was not finished", what);
            }
            Ok(())
        })
    }
}
