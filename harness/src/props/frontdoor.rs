//! The TLS front door end to end: the real `Core::listen` on loopback, a hand-driven rustls
//! client from a generated 127.x.y.z source address (or ::1), generated hosts / protocols / rules and a
//! segmented ClientHello. Serves C04 (verdict by rules, before the handshake is answered), C05
//! (certificate, channel protocol, refusals), C12 (the random the rules see) and C20 (log records
//! of this path).

use crate::engine::networld::{client_conn, NetWorld};
use crate::engine::world::CoreSpec;
use crate::engine::{aio, idx, logcap, viol, Suite, Tier, Verdict};
use crate::ensure;
use crate::props::c04::{cidr_for, pattern_for, to_real, to_ref, RuleSpec};
use crate::props::c05::{self, HostCfg};
use crate::reference::rules as refr;
use proptest::prelude::*;
use serde::{Deserialize, Serialize};
use std::io::{Read, Write};
use std::net::{IpAddr, Ipv4Addr, SocketAddr};
use std::time::Duration;
use tokio::io::{AsyncReadExt, AsyncWriteExt};
use trusttunnel::verif::session::{ChannelView, Proto};

#[derive(Serialize, Deserialize, Debug, Clone)]
pub struct Recipe {
    pub cidr_how: u8,
    pub cidr_pick: u16,
    pub cidr_delta: u8,
    pub pat_how: u8,
    pub pat_pick: u16,
    pub pat_bit: u8,
    pub upper: bool,
    pub allow: bool,
}

#[derive(Serialize, Deserialize, Debug, Clone)]
pub enum Sni {
    None,
    Name(String),
    /// `<canary label>.<name of main host #i>`
    Credentials(u8),
    /// the k-th name the configuration knows (hosts of all classes, then alternative SNIs)
    Configured(u8),
}

#[derive(Serialize, Deserialize, Debug, Clone)]
pub struct Case {
    pub cfg: HostCfg,
    pub h1: bool,
    pub h2: bool,
    pub reverse_proxy: bool,
    /// listen on [::] (an IPv4 client then appears as ::ffff:a.b.c.d) instead of 127.0.0.1
    pub dual_stack: bool,
    pub src: [u8; 3],
    pub rules: Vec<Recipe>,
    pub sni: Sni,
    pub alpn: Vec<Vec<u8>>,
    pub cuts: Vec<u16>,
    pub gap_ms: u8,
    pub nonce: u32,
    /// unknown 250-byte ALPN entries appended to the offer (a ClientHello of several KiB)
    #[serde(default)]
    pub pad_alpn: u8,
    /// rustls max_fragment_size (the ClientHello then spans several records)
    #[serde(default)]
    pub fragment: Option<u16>,
    /// connect from ::1 (dual-stack listener only) instead of 127.a.b.c
    #[serde(default)]
    pub from_v6: bool,
    /// the QUIC listener is enabled too (h3 then counts as an enabled protocol for the routing)
    #[serde(default)]
    pub quic: bool,
}

pub fn canary_label(nonce: u32) -> String {
    format!("snicanary{:08x}", nonce.rotate_left(19))
}

impl Case {
    /// what the client really offers: the generated list plus padding entries nobody selects
    pub fn offered(&self) -> Vec<Vec<u8>> {
        let mut v = self.alpn.clone();
        for i in 0..self.pad_alpn {
            let mut p = format!("x-pad-{}-", i).into_bytes();
            p.resize(250, b'p');
            v.push(p);
        }
        v
    }
    pub fn v6(&self) -> bool {
        self.from_v6 && self.dual_stack
    }
    pub fn sni_text(&self) -> Option<String> {
        match &self.sni {
            Sni::None => None,
            Sni::Name(s) => Some(s.clone()),
            Sni::Credentials(i) => {
                let (n, _, _) = &self.cfg.main[*i as usize % self.cfg.main.len()];
                Some(format!("{}.{}", canary_label(self.nonce), c05::name(*n)))
            }
            Sni::Configured(k) => {
                let names: Vec<u8> = self
                    .cfg
                    .main
                    .iter()
                    .map(|x| x.0)
                    .chain(self.cfg.ping.iter().map(|x| x.0))
                    .chain(self.cfg.speed.iter().map(|x| x.0))
                    .chain(self.cfg.rp.iter().map(|x| x.0))
                    .chain(self.cfg.main.iter().flat_map(|x| x.2.iter().copied()))
                    .collect();
                Some(c05::name(names[*k as usize % names.len()]).to_string())
            }
        }
    }
}

#[derive(Debug)]
pub enum Front {
    /// the endpoint closed the connection without sending a single byte
    DroppedSilently,
    /// the endpoint answered with something that is not a completed handshake (alert, close after bytes)
    Refused(String),
    Served { leaf: Vec<u8>, alpn: Option<Vec<u8>>, check_status: Option<String> },
    /// neither closed nor answered within the time allowed
    Hanging,
}

pub struct FrontDoorSuite;

fn alpn_of(p: Proto) -> &'static [u8] {
    match p {
        Proto::Http1 => b"http/1.1",
        Proto::Http2 => b"h2",
        Proto::Http3 => b"h3",
    }
}

impl Suite for FrontDoorSuite {
    type Case = Case;
    fn name(&self) -> &'static str {
        "tls-front-door"
    }
    fn rule(&self) -> String {
        "the real Core::listen on a loopback port (127.0.0.1, or [::] so that the IPv4 client appears as ::ffff:a.b.c.d) with generated TLS hosts (1-3 main hosts with alternative SNIs, 0-2 ping / speedtest / reverse-proxy hosts, 6 certificates), enabled protocols, and 0-4 rules built at run time around the client's real source address 127.a.b.c (containing / adjacent / unrelated / malformed CIDRs) and around the 32-byte random of the ClientHello the rustls client actually produced (prefix, prefix off by one bit, longer than the random, masked, malformed); the ClientHello (any SNI over the host-name alphabet, <credentials>.<main host>, or none; ALPN lists of known / unknown / non-UTF-8 / empty entries, optionally padded to 5-15 KiB or 17-25 KiB, or fragmented into records of 64-300 bytes) is written in 1-5 pieces from 127.a.b.c or ::1; oracle: reference rule evaluator says deny -> the endpoint closes without sending one byte, allow -> the reference routing decides: an SNI that designates no entry (or no SNI, or no permitted protocol) never completes a handshake, otherwise the handshake completes on exactly these bytes with the leaf certificate of an acceptable entry and the most preferred offered+enabled+permitted protocol as ALPN (never h3 on this TCP connection, also when the QUIC listener is enabled), and CONNECT _check works on tunnel hosts; at trace level no log record contains the credentials label of the SNI; non-trivial = a rule list whose verdict depends on the random or the source address, or an SNI that is not an exact main host".into()
    }
    fn strategy(&self, _: Tier) -> BoxedStrategy<Case> {
        let recipe = (
            prop_oneof![3 => Just(0u8), 3 => Just(1u8), 1 => Just(2u8), 3 => Just(3u8), 2 => Just(4u8), 1 => Just(5u8), 1 => Just(6u8)],
            any::<u16>(),
            any::<u8>(),
            prop_oneof![3 => Just(0u8), 3 => Just(1u8), 3 => Just(2u8), 1 => Just(3u8), 3 => Just(4u8), 3 => Just(5u8), 1 => Just(6u8), 1 => Just(8u8)],
            any::<u16>(),
            any::<u8>(),
            any::<bool>(),
            any::<bool>(),
        )
            .prop_map(|(cidr_how, cidr_pick, cidr_delta, pat_how, pat_pick, pat_bit, upper, allow)| Recipe { cidr_how, cidr_pick, cidr_delta, pat_how, pat_pick, pat_bit, upper, allow });
        let sni = prop_oneof![
            8 => c05::sni_strategy().prop_map(|s| if s.is_empty() { Sni::None } else { Sni::Name(s) }),
            3 => (0u8..3).prop_map(Sni::Credentials),
            8 => any::<u8>().prop_map(Sni::Configured),
            1 => Just(Sni::None),
        ];
        (
            c05::cfg_strategy().prop_filter("valid host configuration", c05::cfg_valid),
            any::<[bool; 2]>(),
            any::<bool>(),
            any::<bool>(),
            (any::<u8>(), any::<u8>(), 1u8..=254),
            prop_oneof![2 => Just(vec![]), 3 => prop::collection::vec(recipe, 1..=4)],
            sni,
            c05::alpn_strategy(),
            prop::collection::vec(any::<u16>(), 0..5),
            0u8..8,
            (any::<u32>(), prop_oneof![4 => Just(0u8), 1 => 1u8..4, 2 => 18u8..60, 1 => 68u8..100], prop_oneof![5 => Just(None), 1 => (64u16..300).prop_map(Some)], prop_oneof![3 => Just(false), 1 => Just(true)], prop_oneof![2 => Just(false), 1 => Just(true)]),
        )
            .prop_map(|(cfg, p, reverse_proxy, dual_stack, (a, b, c), rules, sni, alpn, cuts, gap_ms, (nonce, pad_alpn, fragment, from_v6, quic))| Case {
                cfg,
                h1: p[0] || !p[1],
                h2: p[1],
                reverse_proxy,
                dual_stack,
                src: [a, b, c],
                rules,
                sni,
                alpn,
                cuts,
                gap_ms,
                nonce,
                pad_alpn,
                fragment,
                from_v6,
                quic,
            })
            .boxed()
    }
    fn cases(&self, tier: Tier) -> u64 {
        tier.pick(1600, 40_000)
    }
    fn classify(&self, c: &Case) -> Vec<&'static str> {
        let mut v = vec![];
        if !c.rules.is_empty() {
            v.push("with-rules");
        }
        if c.rules.iter().any(|r| r.pat_how != 0) {
            v.push("rule-on-client-random");
        }
        if c.dual_stack {
            v.push("dual-stack-listener");
        }
        match &c.sni {
            Sni::Credentials(_) => v.push("sni-credentials"),
            Sni::None => v.push("no-sni"),
            Sni::Name(_) | Sni::Configured(_) => {
                let n = &c.sni_text().unwrap_or_default();
                if c.cfg.main.iter().any(|(m, _, _)| c05::name(*m) == n) {
                    v.push("exact-main-host");
                } else {
                    v.push("other-sni");
                }
            }
        }
        if !c.cuts.is_empty() {
            v.push("segmented-hello");
        }
        if c.pad_alpn >= 18 {
            v.push("hello-larger-than-4-KiB");
        }
        if c.pad_alpn >= 68 {
            v.push("hello-larger-than-the-peek-buffer");
        }
        if c.fragment.is_some() {
            v.push("hello-over-several-records");
        }
        if c.v6() {
            v.push("ipv6-client");
        }
        if c.quic && c.alpn.iter().any(|a| a == b"h3") {
            v.push("h3-offered-on-tcp-with-quic-enabled");
        }
        if c.rules.iter().any(|r| r.pat_how != 0 || r.cidr_how != 0) || !c.sni_text().is_some_and(|n| c.cfg.main.iter().any(|(m, _, _)| c05::name(*m) == n)) {
            v.push("nontrivial");
        }
        v
    }
    fn required_classes(&self) -> Vec<&'static str> {
        vec!["nontrivial", "with-rules", "rule-on-client-random", "dual-stack-listener", "sni-credentials", "no-sni", "exact-main-host", "other-sni", "segmented-hello", "hello-larger-than-4-KiB", "hello-over-several-records", "ipv6-client", "h3-offered-on-tcp-with-quic-enabled"]
    }
    fn check(&self, c: &Case) -> Verdict {
        let c = c.clone();
        let src = Ipv4Addr::new(127, c.src[0], c.src[1], c.src[2]);
        let peer = if c.v6() { IpAddr::V6(std::net::Ipv6Addr::LOCALHOST) } else { IpAddr::V4(src) };
        let mut spec = CoreSpec { h1: c.h1, h2: c.h2, quic: c.quic, ..CoreSpec::default() };
        c05::apply_cfg(&mut spec, &c.cfg);
        if c.reverse_proxy {
            spec.reverse_proxy = Some(("127.0.0.1:9".parse().unwrap(), "/api".into()));
        }
        logcap::start();
        let c2 = c.clone();
        let res = aio::block_on_real(async move { knock_with_rules(spec, src, peer, &c2).await });
        let logs = logcap::stop();
        let (random, rules, front) = match res {
            Ok(x) => x,
            Err(e) => return viol("harness:front-door", e),
        };
        judge(&c, peer, &random, &rules, &front, &logs)
    }
}

async fn knock_with_rules(mut spec: CoreSpec, src: Ipv4Addr, peer: IpAddr, c: &Case) -> Result<(Vec<u8>, Vec<RuleSpec>, Front), String> {
    // The random is fixed when the rustls connection object is created, before a single byte is
    // written: create it here, derive the rules, start the endpoint, then send.
    let sni = c.sni_text();
    let (mut conn, verifier) = crate::engine::networld::client_conn_frag(
        sni.as_deref().filter(|s| rustls::ServerName::try_from(*s).is_ok()),
        &c.offered(),
        c.fragment.map(|f| f as usize),
    );
    let mut hello = vec![];
    while conn.wants_write() {
        conn.write_tls(&mut hello).map_err(|e| e.to_string())?;
    }
    let random = hello.get(11..43).map(|x| x.to_vec()).unwrap_or_default();
    let rules: Vec<RuleSpec> = c
        .rules
        .iter()
        .map(|r| {
            let (cidr, cidr_class) = cidr_for(&peer, r.cidr_how, r.cidr_pick, r.cidr_delta);
            let (pattern, pattern_class) = pattern_for(&Some(random.clone()), r.pat_how, r.pat_pick, r.pat_bit, r.upper);
            RuleSpec { cidr, pattern, allow: r.allow, cidr_class: cidr_class.to_string(), pattern_class: pattern_class.to_string() }
        })
        .collect();
    if !rules.is_empty() {
        spec.rules = Some(to_real(&rules));
    }
    let net = NetWorld::start_on(&spec, if c.dual_stack { "[::]" } else { "127.0.0.1" }).await?;
    let addr = if c.v6() { SocketAddr::new(IpAddr::V6(std::net::Ipv6Addr::LOCALHOST), net.addr.port()) } else { SocketAddr::new(IpAddr::V4(Ipv4Addr::LOCALHOST), net.addr.port()) };
    let front = knock_prepared(addr, src, c, conn, verifier, hello).await?;
    drop(net);
    Ok((random, rules, front))
}

async fn knock_prepared(
    addr: SocketAddr,
    src: Ipv4Addr,
    c: &Case,
    mut conn: rustls::ClientConnection,
    verifier: std::sync::Arc<crate::engine::networld::RecordingVerifier>,
    hello: Vec<u8>,
) -> Result<Front, String> {
    let sock = if addr.is_ipv6() {
        tokio::net::TcpSocket::new_v6().map_err(|e| e.to_string())?
    } else {
        let s = tokio::net::TcpSocket::new_v4().map_err(|e| e.to_string())?;
        s.bind(SocketAddr::new(IpAddr::V4(src), 0)).map_err(|e| format!("bind {}: {}", src, e))?;
        s
    };
    let mut sock = sock.connect(addr).await.map_err(|e| format!("connect: {}", e))?;
    sock.set_nodelay(true).map_err(|e| e.to_string())?;
    let mut cuts: Vec<usize> = c.cuts.iter().map(|p| 1 + idx(*p, hello.len().saturating_sub(1))).filter(|x| *x < hello.len()).collect();
    cuts.sort();
    cuts.dedup();
    cuts.push(hello.len());
    let mut prev = 0;
    for cut in cuts {
        if sock.write_all(&hello[prev..cut]).await.is_err() {
            break;
        }
        prev = cut;
        if c.gap_ms > 0 {
            tokio::time::sleep(Duration::from_millis(c.gap_ms as u64)).await;
        }
    }
    let mut got_bytes = 0usize;
    let mut buf = vec![0u8; 16384];
    let deadline = tokio::time::Instant::now() + Duration::from_secs(4);
    loop {
        while conn.wants_write() {
            let mut out = vec![];
            conn.write_tls(&mut out).map_err(|e| e.to_string())?;
            if sock.write_all(&out).await.is_err() {
                break;
            }
        }
        if !conn.is_handshaking() {
            break;
        }
        match tokio::time::timeout_at(deadline, sock.read(&mut buf)).await {
            Err(_) => return Ok(Front::Hanging),
            Ok(Ok(0)) | Ok(Err(_)) => {
                return Ok(if got_bytes == 0 { Front::DroppedSilently } else { Front::Refused("closed during the handshake".into()) });
            }
            Ok(Ok(n)) => {
                got_bytes += n;
                let mut rd = &buf[..n];
                while !rd.is_empty() {
                    match conn.read_tls(&mut rd) {
                        Ok(0) => break,
                        Ok(_) => {}
                        Err(e) => return Ok(Front::Refused(e.to_string())),
                    }
                    if let Err(e) = conn.process_new_packets() {
                        return Ok(Front::Refused(e.to_string()));
                    }
                }
            }
        }
    }
    let leaf = verifier.0.lock().unwrap().clone().unwrap_or_default();
    let alpn = conn.alpn_protocol().map(|a| a.to_vec());
    let mut check_status = None;
    if alpn.as_deref() != Some(b"h2") {
        let req = format!(
            "CONNECT _check HTTP/1.1\r\nHost: _check\r\nProxy-Authorization: Basic {}\r\n\r\n",
            crate::props::tunnelreq::b64("user:pass")
        );
        let _ = conn.writer().write_all(req.as_bytes());
        let mut plain = vec![];
        let deadline = tokio::time::Instant::now() + Duration::from_secs(3);
        'outer: loop {
            while conn.wants_write() {
                let mut out = vec![];
                let _ = conn.write_tls(&mut out);
                if sock.write_all(&out).await.is_err() {
                    break 'outer;
                }
            }
            let mut tmp = [0u8; 4096];
            while let Ok(n) = conn.reader().read(&mut tmp) {
                if n == 0 {
                    break 'outer;
                }
                plain.extend_from_slice(&tmp[..n]);
            }
            if plain.windows(4).any(|w| w == b"\r\n\r\n") {
                break;
            }
            match tokio::time::timeout_at(deadline, sock.read(&mut buf)).await {
                Ok(Ok(n)) if n > 0 => {
                    let mut rd = &buf[..n];
                    while !rd.is_empty() {
                        if conn.read_tls(&mut rd).unwrap_or(0) == 0 {
                            break;
                        }
                        if conn.process_new_packets().is_err() {
                            break 'outer;
                        }
                    }
                }
                _ => break,
            }
        }
        check_status = Some(String::from_utf8_lossy(&plain).lines().next().unwrap_or("").to_string());
    }
    Ok(Front::Served { leaf, alpn, check_status })
}

fn judge(c: &Case, peer: IpAddr, random: &[u8], rules: &[RuleSpec], front: &Front, logs: &[String]) -> Verdict {
    let sni = c.sni_text();
    // rustls puts the name on the wire in lower case; names it cannot encode go as "no SNI"
    let sent_sni = sni.clone().filter(|s| rustls::ServerName::try_from(s.as_str()).is_ok()).map(|s| s.to_ascii_lowercase());
    let what = format!(
        "client {} -> {} listener, SNI {:?}, ALPN {:?}, h1={} h2={}, rules {:?}, hello random {}..",
        peer,
        if c.dual_stack { "[::]" } else { "127.0.0.1" },
        sent_sni,
        c.alpn.iter().map(|a| String::from_utf8_lossy(a).into_owned()).collect::<Vec<_>>(),
        c.h1,
        c.h2,
        rules.iter().map(|r| format!("{} cidr={:?} random={:?}", if r.allow { "allow" } else { "deny" }, r.cidr, r.pattern)).collect::<Vec<_>>(),
        crate::engine::hex(&random[..random.len().min(4)])
    );
    // C20: nothing about this connection may carry the credentials label
    if let Sni::Credentials(_) = c.sni {
        let label = canary_label(c.nonce);
        for line in logs {
            // the harness's own TLS client logs through the same facade
            if line.split(' ').nth(1).is_some_and(|t| t.starts_with("rustls::client")) {
                continue;
            }
            ensure!(
                !line.contains(&label),
                "leak:front-door:SNI-credentials-label",
                "{}: the credentials label of the SNI appears in a log record: {}",
                what,
                &line[..line.len().min(300)]
            );
        }
    }
    ensure!(!matches!(front, Front::Hanging), "frontdoor:connection-left-hanging", "{}: neither answered nor closed within 4 s", what);
    // C04 / C12: verdict of the rules on the real address and the real random
    let mut verdict = refr::evaluate(&to_ref(rules), &peer, Some(random), true);
    if c.fragment.is_some() || c.pad_alpn >= 64 {
        // a ClientHello over several records may be reported as "client random absent"
        let blind = refr::evaluate(&to_ref(rules), &peer, None, true);
        if blind != verdict {
            verdict = None;
        }
    }
    crate::engine::bump(
        match (&verdict, front) {
            (Some(refr::Verdict::Deny), _) => "rules-say-deny",
            (None, _) => "rules-unspecified",
            (_, Front::Served { .. }) => "allowed-and-served",
            _ => "allowed-and-refused",
        },
        1,
    );
    match verdict {
        Some(refr::Verdict::Deny) => {
            ensure!(
                matches!(front, Front::DroppedSilently),
                if matches!(front, Front::Served { .. }) { "frontdoor:denied-connection-served" } else { "frontdoor:denied-connection-answered" },
                "{}: the rules deny this connection, but the endpoint answered the handshake: {:?}",
                what,
                match front {
                    Front::Served { .. } => "handshake completed".to_string(),
                    other => format!("{:?}", other),
                }
            );
            return Ok(());
        }
        None => return Ok(()), // unspecified rule semantics (malformed patterns ...): either
        Some(refr::Verdict::Allow) => {}
    }
    // C05: routing
    let offered = c.offered();
    let des = match &sent_sni {
        Some(s) => c05::designations(&c.cfg, c.reverse_proxy, s),
        None => vec![],
    };
    let acceptable: Vec<&c05::Designation> = if des.iter().any(|d| d.exact) { des.iter().filter(|d| d.exact).collect() } else { des.iter().collect() };
    // on a TCP connection HTTP/3 is not a candidate
    let served = |d: &&c05::Designation| c05::expected_protocol_flags(c.h1, c.h2, false, d.channel, &offered);
    // ... but when the routing would prefer h3 (QUIC enabled, h3 offered), refusing the TCP
    // connection instead of falling back to the next protocol is accepted as well
    let h3_preferred = c.quic && acceptable.iter().any(|d| c05::expected_protocol_flags(c.h1, c.h2, true, d.channel, &offered) == Ok(Proto::Http3));
    let must_refuse = acceptable.is_empty() || acceptable.iter().all(|d| served(d).is_err());
    match front {
        Front::Served { leaf, alpn, check_status } => {
            ensure!(
                alpn.as_deref() != Some(b"h3"),
                "frontdoor:h3-selected-on-tcp",
                "{}: the TLS handshake on a TCP connection completed with ALPN h3",
                what
            );
            ensure!(
                !acceptable.is_empty(),
                "frontdoor:undesignated-sni-served",
                "{}: the SNI designates no host entry (or is absent) but the handshake completed",
                what
            );
            ensure!(!must_refuse, "frontdoor:no-permitted-protocol-but-served", "{}: no offered protocol is enabled and permitted, yet the handshake completed (ALPN {:?})", what, alpn);
            let Some(d) = acceptable.iter().find(|d| &c05::leaf_of(d.cert) == leaf) else {
                return viol("frontdoor:wrong-certificate", format!("{}: the served leaf certificate belongs to none of the acceptable entries {:?}", what, acceptable));
            };
            // protocol: among the acceptable entries with that certificate, one must explain the ALPN
            let explained = acceptable.iter().filter(|x| c05::leaf_of(x.cert) == *leaf).any(|x| match served(x) {
                Ok(p) => {
                    if offered.is_empty() {
                        alpn.is_none()
                    } else {
                        alpn.as_deref() == Some(alpn_of(p))
                    }
                }
                Err(()) => false,
            });
            ensure!(
                explained,
                "frontdoor:wrong-protocol",
                "{}: negotiated ALPN {:?}; the most preferred offered+enabled+permitted protocol of {:?} is {:?}",
                what,
                alpn.as_ref().map(|a| String::from_utf8_lossy(a).into_owned()),
                d.channel,
                served(d)
            );
            if d.channel == ChannelView::Tunnel && d.creds.is_none() {
                if let Some(st) = check_status {
                    ensure!(st.starts_with("HTTP/1.1 200"), "frontdoor:session-not-serving", "{}: handshake completed, CONNECT _check answered {:?}", what, st);
                }
            }
            Ok(())
        }
        Front::DroppedSilently | Front::Refused(_) => {
            // an empty protocol name makes the ALPN extension itself malformed (RFC 7301): a TLS
            // stack may reject such a ClientHello outright
            if c.alpn.iter().any(|a| a.is_empty()) {
                return Ok(());
            }
            if h3_preferred {
                return Ok(());
            }
            ensure!(
                must_refuse,
                "frontdoor:designated-sni-refused",
                "{}: the connection is allowed by the rules and designates {:?}, but the handshake was refused ({:?})",
                what,
                acceptable,
                front
            );
            Ok(())
        }
        Front::Hanging => unreachable!(),
    }
}
