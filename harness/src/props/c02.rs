//! C02 — TCP tunnel relays the byte stream exactly, both ways.

use crate::engine::{self, aio, Ctx, Suite, Tier, Verdict};
use crate::props::pipes::{case_strategy, check_history, judge, End, PipeCase};
use proptest::prelude::*;
use serde_json::Value;

pub struct PipeSuite;

fn static_partial(c: &PipeCase) -> bool {
    (0..2).any(|d| {
        let s = &c.sinks[d];
        let biggest = c.sources[d].chunks.iter().map(|x| x.1).max().unwrap_or(0);
        s.max_per_write < biggest || (!s.grants.is_empty() && s.grants.iter().any(|g| g.1 < biggest))
    })
}

impl Suite for PipeSuite {
    type Case = PipeCase;
    fn name(&self) -> &'static str {
        "scripted-pipe"
    }
    fn rule(&self) -> String {
        "two scripted sources (0-7 position-coded chunks of 1-4096 bytes becoming available at generated virtual times, ending in EOF / read error / never) and two scripted sinks (capacity grants over time, per-write cap, flush delay, optional fault at the n-th write / wait_writable / eof / flush) around the REAL DuplexPipe::exchange under tokio's paused clock, idle timeout huge or small enough (50-1000 ms) that the per-direction timers cancel and restart the copy loops while traffic continues; oracle = invariants over the recorded history: every accepted byte continues the source stream, eof only after all bytes, no write after eof, flush after eof, consume(n) = metrics(n) = bytes accepted after every write, totals equal, Ok only when both streams were delivered completely, Err immediately when an endpoint failed (a close by the idle timer is judged by C14, here only the relay invariants up to it), exchange() always returns, all four endpoints dropped; non-trivial = both directions carry >= 2 chunks and some sink accepts partially".into()
    }
    fn strategy(&self, _: Tier) -> BoxedStrategy<PipeCase> {
        case_strategy(true)
    }
    fn cases(&self, tier: Tier) -> u64 {
        tier.pick(120_000, 3_000_000)
    }
    fn classify(&self, c: &PipeCase) -> Vec<&'static str> {
        let mut v = vec![];
        let two = c.sources.iter().all(|s| s.chunks.len() >= 2);
        let partial = static_partial(c);
        if two && partial {
            v.push("nontrivial");
        }
        if c.sinks.iter().any(|s| s.fault.is_some()) || c.sources.iter().any(|s| s.end == End::Error) {
            v.push("with-fault");
        }
        if c.timeout_ms < 10_000 {
            v.push("small-timeout");
        }
        if c.sources.iter().any(|s| s.end == End::Hang) {
            v.push("never-ending-source");
        }
        v
    }
    fn required_classes(&self) -> Vec<&'static str> {
        vec!["nontrivial", "with-fault", "small-timeout", "ran-partial-write", "ran-restart", "ran-ok", "ran-timed-out", "ran-error"]
    }
    fn check(&self, c: &PipeCase) -> Verdict {
        let r = aio::block_on_paused(c.run());
        if std::env::var("VERIF_DEBUG").is_ok() {
            eprintln!("result={:?} returned_at={} horizon={}", r.result, r.returned_at, r.horizon);
            for e in &r.events {
                eprintln!("  {:?}", e);
            }
        }
        if let Ok(f) = check_history(c, &r) {
            if f.partial_writes > 0 {
                engine::bump("ran-partial-write", 1);
            }
            if f.restarts_likely && c.timeout_ms < 10_000 {
                engine::bump("ran-restart", 1);
            }
        }
        match &r.result {
            Some(Ok(())) => engine::bump("ran-ok", 1),
            Some(Err(std::io::ErrorKind::TimedOut)) => engine::bump("ran-timed-out", 1),
            Some(Err(_)) => engine::bump("ran-error", 1),
            None => {}
        }
        judge(c, &r, false)
    }
}

pub fn run(ctx: &mut Ctx) {
    super::replay_corpus(ctx, replay);
    ctx.run_suite(&PipeSuite);
    ctx.run_suite(&super::c02socks::SocksStreamSuite);
    ctx.run_suite(&super::c02h3::H3TunnelSuite);
    ctx.run_suite(&super::c02bp::BackPressureSuite);
    ctx.run_suite(&super::c02sess::TunnelEndsSuite);
    ctx.run_suite(&super::c02tick::TickSuite);
    ctx.run_suite(&super::c02real::RealEndsSuite);
    ctx.run_suite(&super::c02real::RealRelaySuite);
    ctx.run_suite(&super::c02credit::CreditSuite);
    ctx.assume("scripted endpoints are cancel-safe like real sockets (a cancelled read or wait loses nothing) and keep answering EOF after EOF");
    ctx.assume("this check covers the pipe level (pipe.rs); the HTTP/2 window credit of the real codec halves is exercised by C16/C17 sessions, HTTP/3 only through the full stack");
}

pub fn replay(ctx: &mut Ctx, suite: &str, case: &Value) -> bool {
    match suite {
        "scripted-pipe" => ctx.replay_suite(&PipeSuite, case),
        "socks5-tunnel-stream" => ctx.replay_suite(&super::c02socks::SocksStreamSuite, case),
        "h3-tunnel-stream" => ctx.replay_suite(&super::c02h3::H3TunnelSuite, case),
        "bidirectional-back-pressure" => ctx.replay_suite(&super::c02bp::BackPressureSuite, case),
        "session-tunnel-ends" => ctx.replay_suite(&super::c02sess::TunnelEndsSuite, case),
        "session-stall-across-idle-tick" => ctx.replay_suite(&super::c02tick::TickSuite, case),
        "real-destination-ends" => ctx.replay_suite(&super::c02real::RealEndsSuite, case),
        "real-destination-relay" => ctx.replay_suite(&super::c02real::RealRelaySuite, case),
        "h2-connection-window-credit" => ctx.replay_suite(&super::c02credit::CreditSuite, case),
        _ => false,
    }
}
