//! C07 — UDP flows: correct routing, isolation, expiry and bounded sockets.
//!
//! A real `CONNECT _udp2` stream over an in-memory HTTP/2 session is wired (through the scripted
//! forwarder's `MuxPlan::Real`) to the real direct UDP multiplexer; destinations are loopback UDP
//! servers owned by the harness. Real sockets, real time (flow timeout T = 320 ms).

use crate::engine::world::{CoreSpec, Outcome, Scripted, World};
use crate::engine::{self, aio, idx, viol, Ctx, Suite, Tier, Verdict, Violation};
use crate::ensure;
use crate::props::c16::parse_prometheus;
use crate::props::tunnelreq::b64;
use crate::reference::udpmux;
use bytes::Bytes;
use proptest::prelude::*;
use serde::{Deserialize, Serialize};
use serde_json::Value;
use std::collections::BTreeMap;
use std::net::SocketAddr;
use std::sync::{Arc, Mutex};
use std::time::{Duration, Instant};
use tokio::net::UdpSocket;
use tokio::sync::mpsc;
use trusttunnel::verif::session::{ChannelView, MuxPlan, Proto};

const T_MS: u64 = 320;

#[derive(Serialize, Deserialize, Debug, Clone, PartialEq, Eq)]
pub enum Op {
    /// client datagram on flow i (4 flows: 0-2 ordinary, 3 = port 53)
    Send(u8),
    /// the destination of flow i answers k datagrams
    Reply(u8, u8),
    /// let this many eighths of T pass (1 = T/8, 4 = T/2, 12 = 1.5 T)
    Wait(u8),
    /// client datagram to a destination no socket can be connected to
    SendUnconnectable(u8),
    /// client datagrams to a closed loopback port (the second send is refused by the kernel)
    SendClosedPort,
    /// the destination of flow i keeps the flow alive on its own: n replies, one every
    /// `gap` eighths of T (2 or 3), with no client datagram in between
    ReplyChain(u8, u8, u8),
    /// flow i is busy: 10-25 client datagrams, one every T/8, for longer than T (the other flows
    /// see no traffic meanwhile and must expire on time)
    BusyFlow(u8, u8),
    /// flows 0, 1 and 2 are used within a few milliseconds of each other and then all stay idle for
    /// 12 or 13 eighths of T: they expire at the same timer tick
    IdleTogether(u8),
    /// a flow of its own whose destination goes away and comes back on the same port: the pending
    /// ICMP error surfaces on the flow's read path (a socket error confined to that flow), then
    /// another datagram is sent on the same pair
    DestRestart(u8),
}

#[derive(Serialize, Deserialize, Debug, Clone)]
pub struct Case {
    pub ops: Vec<Op>,
}

struct Server {
    sock: Arc<UdpSocket>,
    addr: SocketAddr,
    /// (peer, payload) in arrival order
    got: Arc<Mutex<Vec<(SocketAddr, Vec<u8>)>>>,
}

async fn server(bind: &str) -> Result<Server, String> {
    let sock = Arc::new(UdpSocket::bind(bind).await.map_err(|e| format!("bind {}: {}", bind, e))?);
    let addr = sock.local_addr().unwrap();
    let got = Arc::new(Mutex::new(vec![]));
    let (s2, g2) = (sock.clone(), got.clone());
    tokio::spawn(async move {
        let mut buf = vec![0u8; 2048];
        while let Ok((n, peer)) = s2.recv_from(&mut buf).await {
            g2.lock().unwrap().push((peer, buf[..n].to_vec()));
        }
    });
    Ok(Server { sock, addr, got })
}

struct Client {
    send: h2::SendStream<Bytes>,
    /// decoded 6.4 records
    rx: mpsc::UnboundedReceiver<(SocketAddr, SocketAddr, Vec<u8>)>,
    closed: Arc<Mutex<Option<String>>>,
    _conn: tokio::task::JoinHandle<()>,
}

async fn open_mux(world: &World) -> Result<Client, String> {
    let (io, _srv) = world.serve(Proto::Http2, ChannelView::Tunnel, "main.x", None, crate::engine::world::peer_v4(), 1 << 20);
    let (send_req, conn) = h2::client::handshake(io).await.map_err(|e| e.to_string())?;
    let conn = tokio::spawn(async move {
        let _ = conn.await;
    });
    let req = http::Request::builder()
        .method("CONNECT")
        .uri("_udp2")
        .header("proxy-authorization", format!("Basic {}", b64("user:pass")))
        .body(())
        .unwrap();
    let mut sr = send_req.ready().await.map_err(|e| e.to_string())?;
    let (fut, send) = sr.send_request(req, false).map_err(|e| e.to_string())?;
    let resp = tokio::time::timeout(Duration::from_secs(5), fut).await.map_err(|_| "no response to CONNECT _udp2".to_string())?.map_err(|e| e.to_string())?;
    if resp.status() != 200 {
        return Err(format!("CONNECT _udp2 answered {}", resp.status()));
    }
    let mut body = resp.into_body();
    let (tx, rx) = mpsc::unbounded_channel();
    let closed = Arc::new(Mutex::new(None));
    let c2 = closed.clone();
    tokio::spawn(async move {
        let _keep = sr;
        let mut buf: Vec<u8> = vec![];
        loop {
            match body.data().await {
                Some(Ok(b)) => {
                    let _ = body.flow_control().release_capacity(b.len());
                    buf.extend_from_slice(&b);
                    loop {
                        if buf.len() < 4 {
                            break;
                        }
                        let len = u32::from_be_bytes([buf[0], buf[1], buf[2], buf[3]]) as usize;
                        if buf.len() < 4 + len {
                            break;
                        }
                        let rec: Vec<u8> = buf.drain(..4 + len).collect();
                        if let Some(d) = udpmux::decode_out(&rec) {
                            let _ = tx.send(d);
                        }
                    }
                }
                Some(Err(e)) => {
                    *c2.lock().unwrap() = Some(format!("stream error: {}", e));
                    return;
                }
                None => {
                    *c2.lock().unwrap() = Some("stream ended".into());
                    return;
                }
            }
        }
    });
    Ok(Client { send, rx, closed, _conn: conn })
}

fn gauge(world: &World) -> f64 {
    let s = parse_prometheus(&world.core.verif_metrics_text());
    s.get("outbound_udp_sockets").map(|m| m.values().sum()).unwrap_or(0.0)
}

#[derive(Clone)]
struct FlowModel {
    src: SocketAddr,
    dst: SocketAddr,
    /// instant of the last datagram in either direction while the flow was (possibly) alive
    last: Option<Instant>,
    sent: Vec<Vec<u8>>,
    /// how many of `sent` the destination had when we last looked
    pending_dns: i64,
    /// replies the destination sent (each must reach the client)
    replies: usize,
    /// the port-53 bookkeeping of this incarnation is not known exactly (a datagram was sent
    /// around the expiry instant)
    dns_fuzzy: bool,
}

async fn run_history(c: &Case, shard_tag: u32) -> Verdict {
    let herr = |e: String| Violation { sig: "harness:c07".into(), msg: e };
    let t = Duration::from_millis(T_MS);
    let spec = CoreSpec { udp_timeout: t, ..CoreSpec::default() };
    let world = spec.build().map_err(herr)?;
    let mut scripted = Scripted::new(|_| Outcome::Refused);
    Arc::get_mut(&mut scripted).unwrap().udp_plan = || MuxPlan::Real;
    let _g = scripted.install(&world);
    // destinations: three ordinary servers and a "DNS" server on port 53 of a private loopback address
    let mut servers = vec![];
    for _ in 0..3 {
        servers.push(server("127.0.0.1:0").await.map_err(herr)?);
    }
    let dns_ip = format!("127.{}.{}.53:53", 1 + (std::process::id() % 250), 1 + shard_tag % 250);
    let dns = match server(&dns_ip).await {
        Ok(s) => s,
        Err(_) => server("127.0.0.1:0").await.map_err(herr)?, // no port-53 rule then
    };
    let dns_is_53 = dns.addr.port() == 53;
    servers.push(dns);
    // a closed port outside the ephemeral range, private to this worker (nobody ever binds it)
    let closed_port: SocketAddr = format!("127.0.0.1:{}", 12_000 + (engine::SHARD.load(std::sync::atomic::Ordering::SeqCst) % 64) * 16 + shard_tag % 16)
        .parse()
        .unwrap();
    let mut client = open_mux(&world).await.map_err(herr)?;
    let base = gauge(&world);
    let mut flows: Vec<FlowModel> = (0..4)
        .map(|i| FlowModel {
            src: format!("10.9.{}.1:{}", i, 4000 + i).parse().unwrap(),
            dst: servers[i].addr,
            last: None,
            sent: vec![],
            pending_dns: 0,
            replies: 0,
            dns_fuzzy: false,
        })
        .collect();
    let mut seq = 0u32;
    let mut closed_last: Option<Instant> = None;
    let mut restart_last: Vec<Instant> = vec![];
    let mut client_got: Vec<(SocketAddr, SocketAddr, Vec<u8>)> = vec![];
    let mut expected_replies: Vec<(SocketAddr, SocketAddr, Vec<u8>)> = vec![];
    // replies whose delivery the model cannot decide (a port-53 flow whose query count is
    // uncertain because a query was sent around the expiry instant): they may arrive, need not
    let mut optional_replies: std::collections::HashSet<Vec<u8>> = Default::default();

    let send_record = |client: &mut Client, src: SocketAddr, dst: SocketAddr, payload: &[u8]| -> Result<(), String> {
        let rec = udpmux::encode_in(&udpmux::Datagram { source: src, destination: dst, app_name: "app".into(), payload: payload.to_vec() });
        client.send.send_data(Bytes::from(rec), false).map_err(|e| e.to_string())
    };

    let ops: Vec<Op> = c
        .ops
        .iter()
        .flat_map(|o| match o {
            Op::IdleTogether(w) => vec![Op::Send(0), Op::Send(1), Op::Send(2), Op::Wait(12)],
            o => vec![o.clone()],
        })
        .collect();
    for (step, op) in ops.iter().enumerate() {
        let mux_dead = client.closed.lock().unwrap().clone();
        if let Some(why) = mux_dead {
            return viol(
                "udp:multiplexer-terminated",
                format!("before step {} ({:?}): the multiplexer stream is gone ({}) although only per-flow faults happened", step, op, why),
            );
        }
        match op {
            Op::Send(_) | Op::BusyFlow(..) => {
              let (i, reps) = match op {
                  Op::Send(i) => (*i as usize % 4, 1usize),
                  Op::BusyFlow(i, n) => (*i as usize % 3, 10 + *n as usize % 16),
                  _ => unreachable!(),
              };
              for rep in 0..reps {
                if rep > 0 {
                    tokio::time::sleep(Duration::from_millis(T_MS / 8)).await;
                }
                seq += 1;
                let payload = format!("f{}-{}", i, seq).into_bytes();
                send_record(&mut client, flows[i].src, flows[i].dst, &payload).map_err(herr)?;
                let f = &mut flows[i];
                let expired_for_sure = f.last.map_or(true, |l| l.elapsed() > t + t / 2);
                let alive_for_sure = f.last.is_some_and(|l| l.elapsed() < t / 2);
                // wait for delivery
                let want = f.sent.len() + 1;
                let deadline = Instant::now() + Duration::from_millis(150);
                let mut delivered = false;
                while Instant::now() < deadline {
                    let n = servers[i].got.lock().unwrap().iter().filter(|(_, p)| p.starts_with(format!("f{}-", i).as_bytes())).count();
                    if n >= want {
                        delivered = true;
                        break;
                    }
                    tokio::time::sleep(Duration::from_millis(2)).await;
                }
                if delivered {
                    f.sent.push(payload);
                    if alive_for_sure && !(i == 3 && dns_is_53) {
                        let tag = format!("f{}-", i);
                        let peers: Vec<SocketAddr> = servers[i].got.lock().unwrap().iter().filter(|(_, p)| p.starts_with(tag.as_bytes())).map(|(a, _)| *a).collect();
                        if peers.len() >= 2 {
                            ensure!(
                                peers[peers.len() - 1] == peers[peers.len() - 2],
                                "udp:live-flow-changed-socket",
                                "step {}: flow {} was active {:?} ago (T = {:?}) yet its next datagram left from {} instead of {}: the flow had been released although it was never idle for T",
                                step,
                                i,
                                f.last.map(|l| l.elapsed()),
                                t,
                                peers[peers.len() - 1],
                                peers[peers.len() - 2]
                            );
                        }
                    }
                } else if expired_for_sure || alive_for_sure {
                    return viol(
                        if expired_for_sure && f.last.is_some() { "udp:datagram-after-expiry-lost" } else { "udp:datagram-not-delivered" },
                        format!("step {}: datagram {:?} on flow {} ({} -> {}) never reached its destination (flow idle {:?})", step, String::from_utf8_lossy(&payload), i, f.src, f.dst, f.last.map(|l| l.elapsed())),
                    );
                } else {
                    // sent around the expiry instant: either outcome
                    f.sent.push(payload.clone());
                    servers[i].got.lock().unwrap().push((f.dst, payload));
                }
                f.last = Some(Instant::now());
                if i == 3 && dns_is_53 {
                    if expired_for_sure {
                        // a fresh flow starts counting again
                        f.pending_dns = 0;
                        f.replies = 0;
                        f.dns_fuzzy = false;
                    } else if !alive_for_sure {
                        f.dns_fuzzy = true;
                    }
                    f.pending_dns += 1;
                }
              }
            }
            Op::Reply(i, k) => {
                let i = *i as usize % 4;
                // the destination answers to the socket it last heard from on this flow
                let peer = servers[i].got.lock().unwrap().iter().rev().find(|(_, p)| p.starts_with(format!("f{}-", i).as_bytes())).map(|(a, _)| *a);
                let Some(peer) = peer else { continue };
                let f = &mut flows[i];
                // only meaningful while the flow is surely alive
                if !f.last.is_some_and(|l| l.elapsed() < t / 2) {
                    continue;
                }
                if i == 3 && dns_is_53 && f.pending_dns == 0 {
                    continue;
                }
                let k = 1 + (*k as usize % 3);
                for nth in 0..k {
                    if i == 3 && dns_is_53 && f.pending_dns == 0 {
                        break;
                    }
                    seq += 1;
                    // an empty datagram is a datagram too; so are large ones
                    let mut payload = if seq % 5 == 0 { vec![] } else { format!("r{}-{}", i, seq).into_bytes() };
                    match seq % 7 {
                        1 if !payload.is_empty() => payload.resize(1400, b'.'),
                        3 if !payload.is_empty() => payload.resize(9000, b'.'),
                        _ => {}
                    }
                    servers[i].sock.send_to(&payload, peer).await.map_err(|e| herr(e.to_string()))?;
                    if payload.is_empty() {
                        engine::bump("empty-reply-datagram", 1);
                    }
                    if i == 3 && dns_is_53 && f.dns_fuzzy && nth > 0 {
                        // the real flow may have had one query fewer pending than the model
                        optional_replies.insert(payload.clone());
                    }
                    expected_replies.push((f.dst, f.src, payload));
                    f.replies += 1;
                    f.last = Some(Instant::now());
                    if i == 3 && dns_is_53 {
                        f.pending_dns -= 1;
                    }
                    tokio::time::sleep(Duration::from_millis(3)).await;
                }
            }
            Op::ReplyChain(i, n, gap) => {
                let i = *i as usize % 4;
                if i == 3 && dns_is_53 {
                    continue; // a DNS flow ends with its answers
                }
                let peer = servers[i].got.lock().unwrap().iter().rev().find(|(_, p)| p.starts_with(format!("f{}-", i).as_bytes())).map(|(a, _)| *a);
                let Some(peer) = peer else { continue };
                let gap = Duration::from_millis(T_MS * (2 + *gap as u64 % 2) / 8);
                for _ in 0..(3 + *n as usize % 6) {
                    // only meaningful while the flow is surely alive when the reply is sent
                    if !flows[i].last.is_some_and(|l| l.elapsed() + gap < t / 2) {
                        break;
                    }
                    tokio::time::sleep(gap).await;
                    seq += 1;
                    let payload = format!("r{}-{}", i, seq).into_bytes();
                    servers[i].sock.send_to(&payload, peer).await.map_err(|e| herr(e.to_string()))?;
                    let f = &mut flows[i];
                    expected_replies.push((f.dst, f.src, payload));
                    f.replies += 1;
                    f.last = Some(Instant::now());
                }
            }
            Op::IdleTogether(_) => unreachable!("expanded above"),
            Op::Wait(e) => {
                let e = 1 + (*e as u64 % 13);
                tokio::time::sleep(Duration::from_millis(T_MS * e / 8)).await;
            }
            Op::SendUnconnectable(which) => {
                let dst: SocketAddr = if which % 2 == 0 { "255.255.255.255:9".parse().unwrap() } else { "[fe80::1]:9".parse().unwrap() };
                let src: SocketAddr = "10.9.9.9:999".parse().unwrap();
                for _ in 0..2 {
                    if let Err(e) = send_record(&mut client, src, dst, b"x") {
                        return viol(
                            "udp:multiplexer-terminated",
                            format!("step {}: the multiplexer stream was closed by the endpoint while datagrams were sent to an unconnectable destination ({})", step, e),
                        );
                    }
                    tokio::time::sleep(Duration::from_millis(5)).await;
                }
            }
            Op::DestRestart(_) => {
                seq += 1;
                let src: SocketAddr = format!("10.9.7.7:{}", 7000 + seq % 1000).parse().unwrap();
                let Ok(peer1) = UdpSocket::bind("127.0.0.1:0").await else { continue };
                let dst = peer1.local_addr().unwrap();
                let mut buf = vec![0u8; 2048];
                // 1. the flow comes up
                send_record(&mut client, src, dst, format!("z1-{}", seq).as_bytes()).map_err(herr)?;
                let Ok(Ok((_, outbound))) = tokio::time::timeout(Duration::from_millis(150), peer1.recv_from(&mut buf)).await else {
                    return viol("udp:datagram-not-delivered", format!("step {}: the first datagram of a new flow {} -> {} never reached its destination", step, src, dst));
                };
                // 2. the destination goes away; the next datagram earns an ICMP error
                drop(peer1);
                send_record(&mut client, src, dst, format!("z2-{}", seq).as_bytes()).map_err(herr)?;
                tokio::time::sleep(Duration::from_millis(30)).await;
                // 3. it comes back on the same port and sends a datagram to the flow's socket, whose
                //    read now reports the pending error (the datagram itself may or may not get through)
                let Ok(peer2) = UdpSocket::bind(dst).await else {
                    engine::bump("udp-port-taken-meanwhile", 1);
                    restart_last.push(Instant::now());
                    continue;
                };
                let hello = format!("z-back-{}", seq).into_bytes();
                let _ = peer2.send_to(&hello, outbound).await;
                expected_replies.push((dst, src, hello.clone()));
                optional_replies.insert(hello);
                tokio::time::sleep(Duration::from_millis(40)).await;
                // 4. the pair still works - through the old flow if it survived, a fresh one otherwise
                if let Err(e) = send_record(&mut client, src, dst, format!("z3-{}", seq).as_bytes()) {
                    return viol("udp:multiplexer-terminated", format!("step {}: the multiplexer stream was closed by the endpoint after a socket error on one flow ({})", step, e));
                }
                restart_last.push(Instant::now());
                let mut arrived = false;
                let deadline = Instant::now() + Duration::from_millis(150);
                while let Ok(Ok((n, from))) = tokio::time::timeout_at(tokio::time::Instant::from_std(deadline), peer2.recv_from(&mut buf)).await {
                    if buf[..n].starts_with(b"z3-") {
                        engine::bump(if from == outbound { "flow-survived-the-destination-restart" } else { "flow-replaced-after-the-socket-error" }, 1);
                        arrived = true;
                        break;
                    }
                }
                ensure!(
                    arrived,
                    "udp:datagram-after-socket-error-lost",
                    "step {}: flow {} -> {}: its destination went away and came back on the same port (socket error on the flow's read path); the next datagram on the same pair never arrived (multiplexer: {:?})",
                    step,
                    src,
                    dst,
                    client.closed.lock().unwrap().clone()
                );
            }
            Op::SendClosedPort => {
                let src: SocketAddr = "10.9.8.8:888".parse().unwrap();
                for _ in 0..3 {
                    if let Err(e) = send_record(&mut client, src, closed_port, b"y") {
                        return viol(
                            "udp:multiplexer-terminated",
                            format!("step {}: the multiplexer stream was closed by the endpoint while datagrams were sent to a closed port ({})", step, e),
                        );
                    }
                    tokio::time::sleep(Duration::from_millis(5)).await;
                }
                closed_last = Some(Instant::now());
            }
        }
        // settle, then the invariants
        tokio::time::sleep(Duration::from_millis(12)).await;
        while let Ok(d) = client.rx.try_recv() {
            client_got.push(d);
        }
        // (b) replies, correctly labelled
        for (src, dst, p) in &client_got {
            ensure!(
                expected_replies.iter().any(|(s, d, q)| q == p && s == src && d == dst),
                "udp:reply-mislabelled",
                "step {}: the client received {:?} labelled {} -> {}, expected one of {:?}",
                step,
                String::from_utf8_lossy(p),
                src,
                dst,
                expected_replies.iter().filter(|(_, _, q)| q == p).map(|(s, d, _)| (s, d)).collect::<Vec<_>>()
            );
        }
        // (a) routing: every server saw only its own flows' payloads, per flow from one port per incarnation
        for (i, s) in servers.iter().enumerate() {
            for (_, p) in s.got.lock().unwrap().iter() {
                ensure!(
                    p.starts_with(format!("f{}-", i).as_bytes()),
                    "udp:datagram-misrouted",
                    "step {}: destination {} received {:?}",
                    step,
                    i,
                    String::from_utf8_lossy(p)
                );
            }
        }
        // concurrent flows never share a source port
        let mut ports: BTreeMap<u16, usize> = BTreeMap::new();
        for (i, s) in servers.iter().enumerate() {
            if flows[i].last.is_some_and(|l| l.elapsed() < t / 2) {
                if let Some((peer, _)) = s.got.lock().unwrap().last() {
                    if let Some(j) = ports.insert(peer.port(), i) {
                        return viol("udp:flows-share-a-socket", format!("step {}: flows {} and {} use the same outbound port {}", step, j, i, peer.port()));
                    }
                }
            }
        }
        // (c) socket count at unambiguous instants
        let tick = t / 4;
        let mut sure_alive = 0usize;
        let mut maybe = 0usize;
        for (i, f) in flows.iter().enumerate() {
            let Some(l) = f.last else { continue };
            let idle = l.elapsed();
            let dns_done = i == 3 && dns_is_53 && f.pending_dns == 0 && f.replies > 0;
            if dns_done && !f.dns_fuzzy {
                continue;
            }
            if i == 3 && dns_is_53 && f.dns_fuzzy {
                if idle < t * 13 / 10 + tick + Duration::from_millis(40) {
                    maybe += 1;
                }
                continue;
            }
            if idle < t * 7 / 10 {
                sure_alive += 1;
            } else if idle < t * 13 / 10 + tick + Duration::from_millis(40) {
                maybe += 1;
            }
        }
        let g = gauge(&world) - base;
        // the flow to the closed port is a flow like any other until its error is noticed or it
        // expires: it may hold a socket for up to 1.3 T + tick after its last datagram
        let slack = closed_last.is_some_and(|l: Instant| l.elapsed() < t * 13 / 10 + tick + Duration::from_millis(40)) as usize
            + restart_last.iter().filter(|l| l.elapsed() < t * 13 / 10 + tick + Duration::from_millis(40)).count();
        ensure!(
            g >= sure_alive as f64 && g <= (sure_alive + maybe + slack) as f64,
            if g > (sure_alive + maybe + slack) as f64 { "udp:sockets-not-released" } else { "udp:socket-count-below-live-flows" },
            "step {} ({:?}): outbound_udp_sockets = {} with {} flows surely alive and {} around their expiry",
            step,
            op,
            g,
            sure_alive,
            maybe
        );
    }
    // replies must all have arrived
    tokio::time::sleep(Duration::from_millis(30)).await;
    while let Ok(d) = client.rx.try_recv() {
        client_got.push(d);
    }
    for (s, d, p) in &expected_replies {
        if optional_replies.contains(p) {
            continue;
        }
        // equal datagrams (empty ones) are counted
        let want = expected_replies.iter().filter(|(a, b, q)| a == s && b == d && q == p).count();
        ensure!(
            client_got.iter().filter(|(a, b, q)| a == s && b == d && q == p).count() >= want,
            "udp:reply-lost",
            "reply {:?} ({} bytes, {} -> {}) never reached the client",
            String::from_utf8_lossy(&p[..p.len().min(24)]),
            p.len(),
            s,
            d
        );
    }
    let dead = client.closed.lock().unwrap().clone();
    ensure!(dead.is_none(), "udp:multiplexer-terminated", "the multiplexer stream ended: {:?}", dead);
    // everything idle: all sockets released within 1.3 T + tick
    tokio::time::sleep(t * 13 / 10 + t / 4 + Duration::from_millis(60)).await;
    let g = gauge(&world) - base;
    ensure!(g == 0.0, "udp:sockets-not-released", "{} outbound UDP sockets still open after every flow has been idle for more than 1.5 T", g);
    Ok(())
}

pub struct FlowSuite;

impl Suite for FlowSuite {
    type Case = Case;
    fn name(&self) -> &'static str {
        "flow-histories"
    }
    fn rule(&self) -> String {
        "histories of 3-16 operations over 4 flows (three loopback UDP servers and one on port 53 of a private loopback address): client datagram on flow i, k replies from the destination of flow i, a chain of 3-8 replies one every T/4 or 3T/8 without any client datagram, a burst of 10-25 client datagrams on one flow, one every T/8 (longer than T, while the other flows are silent), wait T/8 .. 13T/8 (T = 320 ms, real time), datagrams to a destination no socket can be connected to (255.255.255.255:9, fe80::1), datagrams to a closed port, a flow of its own whose destination goes away and comes back on the same port (the pending ICMP error surfaces on the flow's read path) followed by another datagram on the same pair, which must arrive; a real CONNECT _udp2 stream over in-memory HTTP/2 feeds the real codec, udp_pipe and direct UDP multiplexer; after every step: each destination received exactly its flows' payloads, concurrent flows use distinct outbound ports, every reply reaches the client labelled (flow destination -> flow source), the outbound_udp_sockets gauge lies between the flows surely alive (idle < 0.7 T, DNS flow not yet fully answered) and those possibly alive (idle < 1.3 T + tick), a datagram after sure expiry is delivered, a flow that was active less than T/2 ago keeps its outbound socket, the multiplexer stream stays open after per-flow faults, and all sockets are released at the end; non-trivial = an expiry followed by reuse of the same pair, or a fault on one flow followed by traffic on another".into()
    }
    fn strategy(&self, _: Tier) -> BoxedStrategy<Case> {
        let op = prop_oneof![
            6 => (0u8..4).prop_map(Op::Send),
            3 => (0u8..4, 0u8..3).prop_map(|(a, b)| Op::Reply(a, b)),
            2 => prop_oneof![Just(0u8), Just(3u8), Just(11u8), Just(12u8)].prop_map(Op::Wait),
            1 => (0u8..2).prop_map(Op::SendUnconnectable),
            1 => Just(Op::SendClosedPort),
            3 => (0u8..3, 0u8..6, 0u8..2).prop_map(|(i, n, g)| Op::ReplyChain(i, n, g)),
            2 => (0u8..3, 0u8..16).prop_map(|(i, n)| Op::BusyFlow(i, n)),
            2 => (0u8..2).prop_map(Op::IdleTogether),
            1 => (0u8..2).prop_map(Op::DestRestart),
        ];
        prop::collection::vec(op, 3..=16).prop_map(|ops| Case { ops }).boxed()
    }
    fn cases(&self, tier: Tier) -> u64 {
        tier.pick(320, 6400)
    }
    fn classify(&self, c: &Case) -> Vec<&'static str> {
        let mut v = vec![];
        // expiry followed by reuse
        let mut reuse = false;
        for (i, op) in c.ops.iter().enumerate() {
            if let Op::Send(f) = op {
                let mut waited = false;
                for later in &c.ops[i + 1..] {
                    match later {
                        Op::Wait(e) if 1 + (*e as u64 % 13) >= 12 => waited = true,
                        Op::Send(g) if g == f && waited => reuse = true,
                        _ => {}
                    }
                }
            }
        }
        let mut fault_then_traffic = false;
        let mut seen_fault = false;
        for op in &c.ops {
            match op {
                Op::SendUnconnectable(_) | Op::SendClosedPort | Op::DestRestart(_) => seen_fault = true,
                Op::Send(_) if seen_fault => fault_then_traffic = true,
                _ => {}
            }
        }
        // a flow kept alive by its destination alone for longer than T, then used again
        let mut chain_then_send = false;
        for (i, op) in c.ops.iter().enumerate() {
            if let Op::ReplyChain(f, n, g) = op {
                let total = (3 + *n as u64 % 6) * (2 + *g as u64 % 2);
                let sent_before = c.ops[..i].iter().rev().take(3).any(|o| *o == Op::Send(*f));
                let sent_after = c.ops[i + 1..].iter().take(2).any(|o| *o == Op::Send(*f));
                if total > 8 && sent_before && sent_after {
                    chain_then_send = true;
                }
            }
        }
        if chain_then_send {
            v.push("kept-alive-by-replies-then-reused");
        }
        // another flow was used shortly before a flow gets busy for longer than T
        for (i, op) in c.ops.iter().enumerate() {
            if let Op::BusyFlow(f, _) = op {
                if c.ops[..i].iter().rev().take(3).any(|o| matches!(o, Op::Send(g) if g % 4 != f % 3)) {
                    v.push("idle-flow-next-to-a-busy-one");
                    break;
                }
            }
        }
        if c.ops.iter().any(|o| matches!(o, Op::DestRestart(_))) {
            v.push("destination-restart");
        }
        if reuse {
            v.push("expiry-then-reuse");
        }
        if fault_then_traffic {
            v.push("fault-then-traffic");
        }
        if reuse || fault_then_traffic {
            v.push("nontrivial");
        }
        v
    }
    fn required_classes(&self) -> Vec<&'static str> {
        vec!["nontrivial", "expiry-then-reuse", "fault-then-traffic", "kept-alive-by-replies-then-reused", "idle-flow-next-to-a-busy-one", "destination-restart"]
    }
    fn check(&self, c: &Case) -> Verdict {
        let c = c.clone();
        let tag = engine::hash_value(&serde_json::to_value(&c).unwrap()) as u32;
        aio::block_on_real(async move { run_history(&c, tag).await })
    }
}

pub fn run(ctx: &mut Ctx) {
    super::replay_corpus(ctx, replay);
    ctx.run_suite(&FlowSuite);
    ctx.assume("real loopback sockets and real time with T = 320 ms: socket counts are judged only at instants where the model is unambiguous (idle < 0.7 T alive, idle > 1.3 T + tick released); a datagram sent around the expiry instant may take either path");
    ctx.assume("the direct forwarder only; the SOCKS5 UDP path is not covered by this check");
    let _ = idx(0, 1);
}

pub fn replay(ctx: &mut Ctx, suite: &str, case: &Value) -> bool {
    match suite {
        "flow-histories" => ctx.replay_suite(&FlowSuite, case),
        _ => false,
    }
}
