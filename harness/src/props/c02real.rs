//! C02 with the real direct forwarder and a real TCP destination on loopback: the way the
//! destination's socket ends (FIN after its data, or RST right behind it) must reach the client as
//! what it is - a clean end, or a failure - after exactly the bytes that were sent.

use crate::engine::world::CoreSpec;
use crate::engine::{aio, viol, Suite, Tier, Verdict, Violation};
use crate::ensure;
use crate::props::tunnelreq::b64;
use bytes::Bytes;
use proptest::prelude::*;
use serde::{Deserialize, Serialize};
use std::sync::atomic::Ordering;
use std::time::Duration;
use tokio::io::{AsyncReadExt, AsyncWriteExt};
use trusttunnel::verif::session::{ChannelView, Proto};

#[derive(Serialize, Deserialize, Debug, Clone)]
pub struct Case {
    pub h2: bool,
    /// bytes the destination writes as soon as it has accepted the connection
    pub download: u32,
    /// true: the destination closes with SO_LINGER 0 (RST) right after its data; false: FIN
    pub reset: bool,
    /// the client starts reading the tunnel this long after the 200 (data and RST / FIN are then
    /// already queued on the endpoint's socket)
    pub client_delay_ms: u8,
}

fn pat(n: usize) -> Vec<u8> {
    (0..n).map(|i| ((i * 3 + (i >> 9)) as u8) ^ 0x42).collect()
}

fn herr(what: &str, e: impl std::fmt::Display) -> Violation {
    Violation { sig: format!("harness:{}", what), msg: e.to_string() }
}

pub struct RealEndsSuite;

impl Suite for RealEndsSuite {
    type Case = Case;
    fn name(&self) -> &'static str {
        "real-destination-ends"
    }
    fn rule(&self) -> String {
        "a CONNECT tunnel on a real HTTP/1.1 or HTTP/2 session (in-memory client transport that records an orderly shutdown, real time) through the real DirectForwarder / TcpForwarder to a TCP listener on loopback that, as soon as it has accepted, writes 0-60000 position-coded bytes and closes - with FIN, or with SO_LINGER 0 so that an RST follows its data at once; the client starts reading 0-120 ms later; oracle: what the client receives is a prefix of the destination's bytes; after FIN it is all of them followed by a clean end (h1: orderly transport shutdown, h2: END_STREAM); after RST the client is never told a clean end (h1: transport dropped without shutdown, h2: RST_STREAM / connection error), and it learns about the end within 5 s; non-trivial = RST behind at least one byte".into()
    }
    fn strategy(&self, _: Tier) -> BoxedStrategy<Case> {
        (any::<bool>(), prop_oneof![Just(0u32), 1u32..200, 200u32..5000, 5000u32..60000], any::<bool>(), 0u8..120)
            .prop_map(|(h2, download, reset, client_delay_ms)| Case { h2, download, reset, client_delay_ms })
            .boxed()
    }
    fn cases(&self, tier: Tier) -> u64 {
        tier.pick(800, 16_000)
    }
    fn classify(&self, c: &Case) -> Vec<&'static str> {
        let mut v = vec![if c.h2 { "h2" } else { "h1" }, if c.reset { "reset" } else { "fin" }];
        if c.reset && c.download > 0 {
            v.push("nontrivial");
        }
        v
    }
    fn required_classes(&self) -> Vec<&'static str> {
        vec!["nontrivial", "h1", "h2", "reset", "fin"]
    }
    fn check(&self, c: &Case) -> Verdict {
        let c = c.clone();
        aio::block_on_real(async move {
            let listener = tokio::net::TcpListener::bind("127.0.0.1:0").await.map_err(|e| herr("bind", e))?;
            let dest = listener.local_addr().map_err(|e| herr("bind", e))?;
            let data = pat(c.download as usize);
            let d2 = data.clone();
            let reset = c.reset;
            let server = tokio::spawn(async move {
                let Ok((mut s, _)) = listener.accept().await else { return };
                let _ = s.write_all(&d2).await;
                if reset {
                    let _ = s.set_linger(Some(Duration::ZERO));
                    drop(s);
                } else {
                    let _ = s.shutdown().await;
                    // read until the other side ends too, so that no RST is provoked
                    let mut sink = vec![0u8; 1024];
                    while let Ok(Ok(n)) = tokio::time::timeout(Duration::from_secs(5), s.read(&mut sink)).await {
                        if n == 0 {
                            break;
                        }
                    }
                }
            });
            let spec = CoreSpec { allow_private: true, ..CoreSpec::default() };
            let world = spec.build().map_err(|e| herr("core", e))?;
            let (io, rec, _srv) = world.serve_recorded(if c.h2 { Proto::Http2 } else { Proto::Http1 }, ChannelView::Tunnel, "main.x", crate::engine::world::peer_v4(), 1 << 20);
            let auth = format!("Basic {}", b64("user:pass"));
            let what = format!("{} tunnel to a loopback destination that writes {} bytes and closes with {} at once, client reads after {} ms", if c.h2 { "h2" } else { "h1" }, c.download, if c.reset { "RST" } else { "FIN" }, c.client_delay_ms);
            let mut got = vec![];
            // how the client learnt about the end: Ok(()) clean, Err(text) failure, None nothing within 5 s
            let end: Option<Result<(), String>>;
            if c.h2 {
                let (send, conn) = h2::client::handshake(io).await.map_err(|e| herr("h2", e))?;
                let conn = tokio::spawn(async move {
                    let _ = conn.await;
                });
                let req = http::Request::builder().method("CONNECT").uri(format!("{}", dest)).header("proxy-authorization", auth.as_str()).body(()).unwrap();
                let mut sr = send.ready().await.map_err(|e| herr("h2", e))?;
                let (fut, _stream) = sr.send_request(req, false).map_err(|e| herr("h2", e))?;
                let resp = tokio::time::timeout(Duration::from_secs(5), fut).await.map_err(|_| herr("h2", "no response"))?.map_err(|e| herr("h2", e))?;
                if c.reset && resp.status() == 502 {
                    // the reset arrived before the endpoint had finished connecting
                    crate::engine::bump("reset-before-the-tunnel-was-up", 1);
                    conn.abort();
                    return Ok(());
                }
                ensure!(resp.status() == 200, "harness:connect", "CONNECT answered {}", resp.status());
                tokio::time::sleep(Duration::from_millis(c.client_delay_ms as u64)).await;
                let mut body = resp.into_body();
                end = loop {
                    match tokio::time::timeout(Duration::from_secs(5), body.data()).await {
                        Err(_) => break None,
                        Ok(None) => break Some(Ok(())),
                        Ok(Some(Ok(b))) => {
                            let _ = body.flow_control().release_capacity(b.len());
                            got.extend_from_slice(&b);
                        }
                        Ok(Some(Err(e))) => break Some(Err(e.to_string())),
                    }
                };
                conn.abort();
            } else {
                let mut io = io;
                let head = format!("CONNECT {0} HTTP/1.1\r\nHost: {0}\r\nProxy-Authorization: {1}\r\n\r\n", dest, auth);
                io.write_all(head.as_bytes()).await.map_err(|e| herr("io", e))?;
                let mut headbuf = vec![];
                let mut b = [0u8; 1];
                while !headbuf.ends_with(b"\r\n\r\n") {
                    match tokio::time::timeout(Duration::from_secs(5), io.read(&mut b)).await {
                        Ok(Ok(1)) => headbuf.push(b[0]),
                        _ => return viol("harness:connect", format!("no response head ({:?})", String::from_utf8_lossy(&headbuf))),
                    }
                }
                if c.reset && headbuf.starts_with(b"HTTP/1.1 502") {
                    crate::engine::bump("reset-before-the-tunnel-was-up", 1);
                    return Ok(());
                }
                ensure!(headbuf.starts_with(b"HTTP/1.1 200"), "harness:connect", "CONNECT answered {:?}", String::from_utf8_lossy(&headbuf));
                tokio::time::sleep(Duration::from_millis(c.client_delay_ms as u64)).await;
                let mut buf = vec![0u8; 16384];
                end = loop {
                    match tokio::time::timeout(Duration::from_secs(5), io.read(&mut buf)).await {
                        Err(_) => break None,
                        Ok(Ok(0)) => {
                            // the transport record tells an orderly shutdown from a drop
                            tokio::time::sleep(Duration::from_millis(20)).await;
                            break Some(if rec.shut_down.load(Ordering::SeqCst) { Ok(()) } else { Err("transport dropped without an orderly shutdown".into()) });
                        }
                        Ok(Ok(n)) => got.extend_from_slice(&buf[..n]),
                        Ok(Err(e)) => break Some(Err(e.to_string())),
                    }
                };
            }
            let _ = tokio::time::timeout(Duration::from_secs(6), server).await;
            let same = got.iter().zip(&data).take_while(|(a, b)| a == b).count();
            ensure!(got.len() <= data.len() && same == got.len(), "tunnel:download-differs", "{}: the client has {} bytes, equal to the destination's up to offset {}", what, got.len(), same);
            let Some(end) = end else {
                return viol("tunnel:end-not-passed-on", format!("{}: 5 s later the client still waits ({} bytes received)", what, got.len()));
            };
            if c.reset {
                ensure!(
                    end.is_err(),
                    "tunnel:failure-reported-as-clean-end",
                    "{}: the destination's connection was reset, yet the client was told a clean end after {} of {} bytes",
                    what,
                    got.len(),
                    data.len()
                );
            } else {
                ensure!(end.is_ok(), "tunnel:clean-end-not-clean", "{}: the destination ended with FIN, the client saw {:?} after {} bytes", what, end, got.len());
                ensure!(got.len() == data.len(), "tunnel:download-truncated", "{}: clean end after {} of {} bytes", what, got.len(), data.len());
            }
            let _ = Bytes::new();
            Ok(())
        })
    }
}


// ---------------------------------------------------------------------------------------------
// exact relay through the real forwarder's socket halves

#[derive(Serialize, Deserialize, Debug, Clone)]
pub struct RelayCase {
    pub h2: bool,
    pub up: u32,
    pub down: u32,
    /// the destination / the client starts reading this long after the tunnel is up
    pub dest_delay_ms: u8,
    pub client_delay_ms: u8,
    /// the destination reads in pieces of this many bytes with 1 ms pauses (0 = as fast as it can)
    pub dest_read_piece: u16,
    /// the upload is 5-7 MB towards a destination with a 4 KiB receive buffer that starts reading
    /// after 200 ms: more than the kernel's socket buffers take, so the endpoint's socket refuses
    /// writes (WouldBlock) and the forwarder has to wait and resume
    #[serde(default)]
    pub beyond_socket_buffers: bool,
}

pub struct RealRelaySuite;

impl Suite for RealRelaySuite {
    type Case = RelayCase;
    fn name(&self) -> &'static str {
        "real-destination-relay"
    }
    fn rule(&self) -> String {
        "a CONNECT tunnel on a real HTTP/1.1 or HTTP/2 session (in-memory client transport, real time) through the real DirectForwarder / TcpForwarder to a TCP listener on loopback; both directions at once: the client uploads 0-400000 position-coded bytes (in one case in six 5-7 MB towards a destination with a 4 KiB receive buffer that starts reading after 200 ms, which is more than the kernel's socket buffers take: the endpoint's socket refuses writes and the forwarder has to wait and resume), the destination sends 0-400000; either side starts reading 0-100 ms late and the destination may read in small pieces with pauses (back-pressure through the kernel's socket buffers); then the client ends its direction, the destination answers with its own end; oracle: each side receives exactly the other's bytes, followed by a clean end; non-trivial = at least 100000 bytes in some direction".into()
    }
    fn strategy(&self, _: Tier) -> BoxedStrategy<RelayCase> {
        let size = || prop_oneof![Just(0u32), 1u32..5000, 5000u32..100_000, 100_000u32..400_000];
        (any::<bool>(), size(), size(), 0u8..100, 0u8..100, prop_oneof![Just(0u16), 512u16..8192], prop_oneof![5 => Just(false), 1 => Just(true)])
            .prop_map(|(h2, up, down, dest_delay_ms, client_delay_ms, dest_read_piece, beyond_socket_buffers)| {
                if beyond_socket_buffers {
                    RelayCase { h2, up: 5_000_000 + up % 2_000_000, down, dest_delay_ms: 200, client_delay_ms, dest_read_piece: 0, beyond_socket_buffers }
                } else {
                    RelayCase { h2, up, down, dest_delay_ms, client_delay_ms, dest_read_piece, beyond_socket_buffers }
                }
            })
            .boxed()
    }
    fn cases(&self, tier: Tier) -> u64 {
        tier.pick(480, 9_600)
    }
    fn classify(&self, c: &RelayCase) -> Vec<&'static str> {
        let mut v = vec![if c.h2 { "h2" } else { "h1" }];
        if c.up >= 100_000 || c.down >= 100_000 {
            v.push("nontrivial");
        }
        if c.dest_read_piece > 0 && c.up >= 100_000 {
            v.push("slow-destination");
        }
        if c.beyond_socket_buffers {
            v.push("upload-beyond-the-socket-buffers");
        }
        v
    }
    fn required_classes(&self) -> Vec<&'static str> {
        vec!["nontrivial", "h1", "h2", "slow-destination", "upload-beyond-the-socket-buffers"]
    }
    fn check(&self, c: &RelayCase) -> Verdict {
        let c = c.clone();
        aio::block_on_real(async move {
            // a slow destination also has a small receive buffer, so that the endpoint's socket
            // really refuses writes (WouldBlock) instead of the kernel swallowing the whole upload
            let sock = tokio::net::TcpSocket::new_v4().map_err(|e| herr("bind", e))?;
            if c.dest_read_piece > 0 || c.beyond_socket_buffers {
                let _ = sock.set_recv_buffer_size(4096);
            }
            sock.bind("127.0.0.1:0".parse().unwrap()).map_err(|e| herr("bind", e))?;
            let listener = sock.listen(8).map_err(|e| herr("bind", e))?;
            let dest = listener.local_addr().map_err(|e| herr("bind", e))?;
            let up = pat(c.up as usize);
            let down: Vec<u8> = pat(c.down as usize).iter().map(|b| b ^ 0xff).collect();
            let (down2, c2) = (down.clone(), c.clone());
            // the destination: writes its bytes, reads until the client's end, then ends itself
            let server = tokio::spawn(async move {
                let Ok((s, _)) = listener.accept().await else { return (vec![], false) };
                let (mut rd, mut wr) = s.into_split();
                let writer = tokio::spawn(async move {
                    let _ = wr.write_all(&down2).await;
                    wr
                });
                tokio::time::sleep(Duration::from_millis(c2.dest_delay_ms as u64)).await;
                let mut got = vec![];
                let mut buf = vec![0u8; if c2.dest_read_piece == 0 { 65536 } else { c2.dest_read_piece as usize }];
                let mut clean = false;
                loop {
                    match tokio::time::timeout(Duration::from_secs(10), rd.read(&mut buf)).await {
                        Ok(Ok(0)) => {
                            clean = true;
                            break;
                        }
                        Ok(Ok(n)) => got.extend_from_slice(&buf[..n]),
                        _ => break,
                    }
                    if c2.dest_read_piece > 0 {
                        tokio::time::sleep(Duration::from_millis(1)).await;
                    }
                }
                if let Ok(mut wr) = writer.await {
                    let _ = wr.shutdown().await;
                }
                (got, clean)
            });
            let spec = CoreSpec { allow_private: true, ..CoreSpec::default() };
            let world = spec.build().map_err(|e| herr("core", e))?;
            let (io, rec, _srv) = world.serve_recorded(if c.h2 { Proto::Http2 } else { Proto::Http1 }, ChannelView::Tunnel, "main.x", crate::engine::world::peer_v4(), 64 * 1024);
            let auth = format!("Basic {}", b64("user:pass"));
            let what = format!("{} tunnel to a loopback destination, {} bytes up and {} down at once, destination reads after {} ms in pieces of {}, client reads after {} ms", if c.h2 { "h2" } else { "h1" }, c.up, c.down, c.dest_delay_ms, c.dest_read_piece, c.client_delay_ms);
            let mut got = vec![];
            let clean_end;
            if c.h2 {
                let (send, conn) = h2::client::handshake(io).await.map_err(|e| herr("h2", e))?;
                let conn = tokio::spawn(async move {
                    let _ = conn.await;
                });
                let req = http::Request::builder().method("CONNECT").uri(format!("{}", dest)).header("proxy-authorization", auth.as_str()).body(()).unwrap();
                let mut sr = send.ready().await.map_err(|e| herr("h2", e))?;
                let (fut, mut stream) = sr.send_request(req, false).map_err(|e| herr("h2", e))?;
                let resp = tokio::time::timeout(Duration::from_secs(5), fut).await.map_err(|_| herr("h2", "no response"))?.map_err(|e| herr("h2", e))?;
                ensure!(resp.status() == 200, "harness:connect", "CONNECT answered {}", resp.status());
                let up2 = up.clone();
                let writer = tokio::spawn(async move {
                    let mut off = 0;
                    while off < up2.len() {
                        stream.reserve_capacity((up2.len() - off).min(65536));
                        let cap = tokio::time::timeout(Duration::from_secs(20), futures::future::poll_fn(|cx| stream.poll_capacity(cx))).await;
                        let Ok(Some(Ok(cap))) = cap else { return false };
                        let n = cap.min(up2.len() - off);
                        if stream.send_data(Bytes::copy_from_slice(&up2[off..off + n]), false).is_err() {
                            return false;
                        }
                        off += n;
                    }
                    stream.send_data(Bytes::new(), true).is_ok()
                });
                tokio::time::sleep(Duration::from_millis(c.client_delay_ms as u64)).await;
                let mut body = resp.into_body();
                clean_end = loop {
                    match tokio::time::timeout(Duration::from_secs(20), body.data()).await {
                        Err(_) => break Err("nothing for 20 s".to_string()),
                        Ok(None) => break Ok(()),
                        Ok(Some(Ok(b))) => {
                            let _ = body.flow_control().release_capacity(b.len());
                            got.extend_from_slice(&b);
                        }
                        Ok(Some(Err(e))) => break Err(e.to_string()),
                    }
                };
                let wrote = writer.await.unwrap_or(false);
                ensure!(wrote || clean_end.is_err(), "tunnel:upload-stalled", "{}: the client could not hand over its upload", what);
                conn.abort();
            } else {
                let (mut rd, mut wr) = tokio::io::split(io);
                let head = format!("CONNECT {0} HTTP/1.1\r\nHost: {0}\r\nProxy-Authorization: {1}\r\n\r\n", dest, auth);
                wr.write_all(head.as_bytes()).await.map_err(|e| herr("io", e))?;
                let mut headbuf = vec![];
                let mut b = [0u8; 1];
                while !headbuf.ends_with(b"\r\n\r\n") {
                    match tokio::time::timeout(Duration::from_secs(5), rd.read(&mut b)).await {
                        Ok(Ok(1)) => headbuf.push(b[0]),
                        _ => return viol("harness:connect", format!("no response head ({:?})", String::from_utf8_lossy(&headbuf))),
                    }
                }
                ensure!(headbuf.starts_with(b"HTTP/1.1 200"), "harness:connect", "CONNECT answered {:?}", String::from_utf8_lossy(&headbuf));
                let up2 = up.clone();
                let total_down = down.len();
                // HTTP/1.1 ends the tunnel as a whole when one side ends: the client ends its direction
                // only after it has received everything
                let (done_tx, done_rx) = tokio::sync::oneshot::channel::<()>();
                let writer = tokio::spawn(async move {
                    let ok = tokio::time::timeout(Duration::from_secs(40), wr.write_all(&up2)).await.map(|r| r.is_ok()).unwrap_or(false);
                    let _ = done_rx.await;
                    let _ = wr.shutdown().await;
                    ok
                });
                tokio::time::sleep(Duration::from_millis(c.client_delay_ms as u64)).await;
                let mut buf = vec![0u8; 16384];
                let mut done_tx = Some(done_tx);
                clean_end = loop {
                    if got.len() >= total_down {
                        if let Some(tx) = done_tx.take() {
                            // the upload must be through as well before the client ends
                            let _ = tx.send(());
                        }
                    }
                    match tokio::time::timeout(Duration::from_secs(20), rd.read(&mut buf)).await {
                        Err(_) => break Err("nothing for 20 s".to_string()),
                        Ok(Ok(0)) => {
                            tokio::time::sleep(Duration::from_millis(20)).await;
                            break if rec.shut_down.load(Ordering::SeqCst) { Ok(()) } else { Err("transport dropped without an orderly shutdown".into()) };
                        }
                        Ok(Ok(n)) => got.extend_from_slice(&buf[..n]),
                        Ok(Err(e)) => break Err(e.to_string()),
                    }
                };
                let wrote = writer.await.unwrap_or(false);
                ensure!(wrote || clean_end.is_err(), "tunnel:upload-stalled", "{}: the client could not hand over its upload", what);
            }
            let (at_dest, dest_clean) = tokio::time::timeout(Duration::from_secs(25), server).await.map_err(|_| herr("destination", "the destination task did not end"))?.map_err(|e| herr("destination", e))?;
            let same_d = got.iter().zip(&down).take_while(|(a, b)| a == b).count();
            ensure!(got == down, if got.len() < down.len() && same_d == got.len() { "tunnel:download-truncated" } else { "tunnel:download-differs" }, "{}: the client has {} of {} bytes, equal up to offset {} (end: {:?})", what, got.len(), down.len(), same_d, clean_end);
            let same_u = at_dest.iter().zip(&up).take_while(|(a, b)| a == b).count();
            ensure!(at_dest == up, if at_dest.len() < up.len() && same_u == at_dest.len() { "tunnel:upload-truncated" } else { "tunnel:upload-differs" }, "{}: the destination has {} of {} bytes, equal up to offset {} (clean end: {})", what, at_dest.len(), up.len(), same_u, dest_clean);
            ensure!(clean_end.is_ok(), "tunnel:clean-end-not-clean", "{}: both sides ended in an orderly way, the client saw {:?}", what, clean_end);
            ensure!(dest_clean, "tunnel:clean-end-not-clean", "{}: the destination did not see the end of the client's stream", what);
            Ok(())
        })
    }
}
