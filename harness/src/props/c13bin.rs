//! C13 through the real endpoint binary: start-up refusals by exit status, and the credentials
//! printed by `-c <client>`.

use crate::engine::proc::{self, endpoint_bin, Start};
use crate::engine::world::cert_path;
use crate::engine::{idx, viol, Suite, Tier, Verdict};
use crate::ensure;
use crate::props::c04::TempFile;
use crate::props::c13::{credentials_doc, ClientSpec, CredCase, CredentialsSuite};
use proptest::prelude::*;
use serde::{Deserialize, Serialize};
use std::process::{Command, Stdio};
use std::time::Duration;

fn hosts_doc() -> String {
    format!("[[main_hosts]]\nhostname = \"main.x\"\ncert_chain_path = \"{0}\"\nprivate_key_path = \"{0}\"\n", cert_path(0))
}

// ---------------------------------------------------------------------------------------------
// `-c <client>`

pub struct ExportSuite;

impl Suite for ExportSuite {
    type Case = CredCase;
    fn name(&self) -> &'static str {
        "binary-client-config"
    }
    fn rule(&self) -> String {
        "the credentials files of suite credentials-file (all Unicode scalar values, every legal TOML string form) handed to the real endpoint binary as `<settings> <hosts> --client_config=<user> -a 203.0.113.1`; oracle: exit status 0 and the printed document is TOML whose username / password are exactly the generated strings of that client; user names containing NUL (not expressible in argv) are skipped; non-trivial = a value with quotes, backslashes, control characters or edge whitespace".into()
    }
    fn strategy(&self, t: Tier) -> BoxedStrategy<CredCase> {
        CredentialsSuite.strategy(t)
    }
    fn cases(&self, tier: Tier) -> u64 {
        tier.pick(1600, 40_000)
    }
    fn classify(&self, c: &CredCase) -> Vec<&'static str> {
        CredentialsSuite.classify(c)
    }
    fn check(&self, c: &CredCase) -> Verdict {
        if c.clients.is_empty() {
            return Ok(());
        }
        let who: &ClientSpec = &c.clients[idx(c.export_index, c.clients.len())];
        if who.username.contains('\0') {
            return Ok(());
        }
        let cred = TempFile::new("bin-cred", &credentials_doc(&c.clients));
        let settings = TempFile::new(
            "bin-settings",
            &format!("listen_address = \"127.0.0.1:8443\"\ncredentials_file = \"{}\"\n[listen_protocols]\n[listen_protocols.http1]\n", cred.path()),
        );
        let hosts = TempFile::new("bin-hosts", &hosts_doc());
        let out = Command::new(endpoint_bin())
            .arg(settings.path())
            .arg(hosts.path())
            .arg(format!("--client_config={}", who.username))
            .arg("-a")
            .arg("203.0.113.1")
            .stdin(Stdio::null())
            .output();
        let out = match out {
            Ok(o) => o,
            Err(e) => return viol("harness:endpoint-binary", e.to_string()),
        };
        let stdout = String::from_utf8_lossy(&out.stdout).into_owned();
        ensure!(
            out.status.code() == Some(0),
            "binary-export:failed",
            "`-c {:?}` exits with {:?}: {}\ncredentials file:\n{}",
            who.username,
            out.status,
            String::from_utf8_lossy(&out.stderr),
            credentials_doc(&c.clients)
        );
        let doc: toml::Value = match toml::from_str(&stdout) {
            Ok(d) => d,
            Err(e) => return viol("binary-export:invalid-toml", format!("{}\n{}", e, stdout)),
        };
        ensure!(
            doc.get("username").and_then(|v| v.as_str()) == Some(who.username.as_str())
                && (doc.get("password").and_then(|v| v.as_str()) == Some(who.password.as_str())
                    // a user name written twice: the export carries one of the pairs of that name
                    || (c.same_user && c.clients.iter().any(|x| x.username == who.username && doc.get("password").and_then(|v| v.as_str()) == Some(x.password.as_str())))),
            "binary-export:credentials-differ",
            "the printed client configuration carries {:?}:{:?}, the credentials file says {:?}:{:?}",
            doc.get("username"),
            doc.get("password"),
            who.username,
            who.password
        );
        let addrs = doc.get("addresses").and_then(|v| v.as_array()).cloned().unwrap_or_default();
        ensure!(
            addrs.len() == 1 && addrs[0].as_str() == Some("203.0.113.1:8443"),
            "binary-export:address-differs",
            "addresses {:?}, want the given address with the listen port",
            addrs
        );
        Ok(())
    }
}

// ---------------------------------------------------------------------------------------------
// start-up through main()

#[derive(Serialize, Deserialize, Debug, Clone)]
pub struct StartCase {
    pub credentials: bool,
    /// 0: 127.0.0.1, 1: 0.0.0.0, 2: [::1], 3: [::]
    pub listen: u8,
    pub h1: bool,
    pub h2: bool,
    pub quic: bool,
    /// 0 ok, 1 duplicate host name, 3 missing cert file, 4 key file that is not a key, 5 no main host
    pub hosts_defect: u8,
    pub dup: (u8, u8),
    /// 0 none, 1 valid, 2 port 0, 3 empty mask, 4 mask without slash
    pub reverse_proxy: u8,
}

fn refusal(c: &StartCase) -> Option<&'static str> {
    let loopback = c.listen == 0 || c.listen == 2;
    if !c.h1 && !c.h2 && !c.quic {
        return Some("no listen protocol");
    }
    if !c.credentials && !loopback {
        return Some("no credentials on a non-loopback address");
    }
    if c.reverse_proxy >= 2 {
        return Some("invalid reverse proxy section");
    }
    match c.hosts_defect {
        0 => None,
        1 => Some("duplicate TLS host"),
        3 | 4 => Some("unloadable TLS host"),
        _ => Some("no main host"),
    }
}

pub struct StartSuite;

impl Suite for StartSuite {
    type Case = StartCase;
    fn name(&self) -> &'static str {
        "binary-startup"
    }
    fn rule(&self) -> String {
        "the real endpoint binary started on a free port with generated files: {credentials file given / absent} x {127.0.0.1, 0.0.0.0, [::1], [::]} x every subset of listen protocols x TLS hosts {valid, a name duplicated inside or across host classes, missing certificate, key file that is not a key, no main host} x reverse proxy {absent, valid, port 0, empty mask, mask without slash}; oracle: a configuration the statement lists as refusable makes the process exit with a non-zero status without ever accepting a connection, every other one is accepting connections within 10 s and still running 200 ms later; non-trivial = exactly one refusal reason".into()
    }
    fn strategy(&self, _: Tier) -> BoxedStrategy<StartCase> {
        (
            any::<bool>(),
            0u8..4,
            any::<[bool; 3]>(),
            prop_oneof![5 => Just(0u8), 3 => Just(1u8), 1 => Just(3u8), 1 => Just(4u8), 1 => Just(5u8)],
            prop_oneof![4 => Just(0u8), 2 => Just(1u8), 1 => Just(2u8), 1 => Just(3u8), 1 => Just(4u8)],
            (0u8..4, 0u8..4),
        )
            .prop_map(|(credentials, listen, p, hosts_defect, reverse_proxy, dup)| StartCase {
                credentials,
                listen,
                h1: p[0],
                h2: p[1],
                quic: p[2],
                hosts_defect,
                dup,
                reverse_proxy,
            })
            .boxed()
    }
    fn cases(&self, tier: Tier) -> u64 {
        tier.pick(480, 12_000)
    }
    fn classify(&self, c: &StartCase) -> Vec<&'static str> {
        let loopback = c.listen == 0 || c.listen == 2;
        let reasons = [!c.h1 && !c.h2 && !c.quic, !c.credentials && !loopback, c.reverse_proxy >= 2, c.hosts_defect != 0]
            .iter()
            .filter(|x| **x)
            .count();
        match reasons {
            0 => vec!["must-start"],
            1 => vec!["single-refusal-reason", "nontrivial"],
            _ => vec!["several-refusal-reasons"],
        }
    }
    fn required_classes(&self) -> Vec<&'static str> {
        vec!["nontrivial", "must-start"]
    }
    fn check(&self, c: &StartCase) -> Verdict {
        let garbage = TempFile::new("bin-garbage", "not a key\n");
        let mut s = String::new();
        let ip = ["127.0.0.1", "0.0.0.0", "[::1]", "[::]"][c.listen as usize % 4];
        s.push_str(&format!("listen_address = \"{}:@PORT@\"\n", ip));
        if c.credentials {
            s.push_str("credentials_file = \"@CRED@\"\n");
        }
        s.push_str("[listen_protocols]\n");
        if c.h1 {
            s.push_str("[listen_protocols.http1]\n");
        }
        if c.h2 {
            s.push_str("[listen_protocols.http2]\n");
        }
        if c.quic {
            s.push_str("[listen_protocols.quic]\n");
        }
        s.push_str(match c.reverse_proxy {
            0 => "",
            1 => "[reverse_proxy]\nserver_address = \"127.0.0.1:8080\"\npath_mask = \"/api\"\n",
            2 => "[reverse_proxy]\nserver_address = \"127.0.0.1:0\"\npath_mask = \"/api\"\n",
            3 => "[reverse_proxy]\nserver_address = \"127.0.0.1:8080\"\npath_mask = \"\"\n",
            _ => "[reverse_proxy]\nserver_address = \"127.0.0.1:8080\"\npath_mask = \"api\"\n",
        });
        let host = |table: &str, name: &str, cert: &str, key: &str| {
            format!("[[{}]]\nhostname = \"{}\"\ncert_chain_path = \"{}\"\nprivate_key_path = \"{}\"\n\n", table, name, cert, key)
        };
        let good = cert_path(0);
        const TABLES: [&str; 4] = ["main_hosts", "ping_hosts", "speedtest_hosts", "reverse_proxy_hosts"];
        let all = host("main_hosts", "a.x", &good, &good)
            + &host("ping_hosts", "ping.x", &good, &good)
            + &host("speedtest_hosts", "speed.x", &good, &good)
            + &host("reverse_proxy_hosts", "rp.x", &good, &good);
        let h = match c.hosts_defect {
            0 => all,
            1 => all + &host(TABLES[c.dup.0 as usize % 4], "dup.x", &good, &good) + &host(TABLES[c.dup.1 as usize % 4], "dup.x", &good, &good),
            3 => host("main_hosts", "a.x", "/nonexistent/cert.pem", &good),
            4 => host("main_hosts", "a.x", &good, &garbage.path()),
            _ => "main_hosts = []\n".to_string() + &host("ping_hosts", "ping.x", &good, &good),
        };
        let started = proc::start_on(&s, &h, "[[client]]\nusername = \"u\"\npassword = \"p\"\n", Duration::from_secs(10), "info");
        match (refusal(c), started) {
            (_, Start::Failed(e)) => viol("harness:endpoint-binary", e),
            (None, Start::Up(mut ep)) => {
                std::thread::sleep(Duration::from_millis(200));
                match ep.exited() {
                    None => Ok(()),
                    Some(st) => viol("binary-startup:valid-configuration-died", format!("{:?}: accepted a connection, then exited with {:?}: {}", c, st, ep.log_text())),
                }
            }
            (Some(_), Start::Exited(st, out)) => {
                ensure!(st.code() != Some(0), "binary-startup:refusal-with-status-0", "{:?}: refused to start but the exit status is 0: {}", c, out);
                Ok(())
            }
            (None, Start::Exited(st, out)) => viol("binary-startup:valid-configuration-refused", format!("{:?}: exited with {:?}: {}", c, st, out)),
            (Some(why), Start::Up(_)) => viol("binary-startup:invalid-configuration-accepted", format!("{:?}: the endpoint is serving although: {}", c, why)),
        }
    }
}

// ---------------------------------------------------------------------------------------------
// setup wizard -> endpoint

#[derive(Serialize, Deserialize, Debug, Clone)]
pub struct WizardCase {
    pub username: String,
    pub password: String,
    /// 0: 127.0.0.1, 1: 0.0.0.0, 2: [::1], 3: [::]
    pub listen: u8,
    pub hostname: String,
}

pub struct WizardSuite;

struct TempDir(std::path::PathBuf);
impl Drop for TempDir {
    fn drop(&mut self) {
        let _ = std::fs::remove_dir_all(&self.0);
    }
}

fn secret(colon: bool) -> BoxedStrategy<String> {
    let extra = if colon { ':' } else { '-' };
    // everything argv can carry (no NUL), biased to TOML-relevant characters
    prop_oneof![
        3 => "[a-zA-Z0-9]{1,12}",
        4 => prop::collection::vec(
            prop_oneof![
                4 => prop::sample::select(vec!['"', '\'', '\\', '#', '=', ' ', '\t', '\n', '[', ']', '{', '$', '%', '-', extra]),
                3 => proptest::char::range('a', 'z'),
                2 => any::<char>().prop_filter("no NUL", |c| *c != '\0'),
            ],
            1..10
        )
        .prop_map(|v| v.into_iter().collect::<String>()),
    ]
    .boxed()
}

impl Suite for WizardSuite {
    type Case = WizardCase;
    fn name(&self) -> &'static str {
        "wizard-roundtrip"
    }
    fn rule(&self) -> String {
        "the real setup wizard (tools/setup_wizard compiled by the harness build) run non-interactively in a scratch directory with a generated user name (no colon) and password (any characters argv can carry, biased to quotes, backslashes, #, =, whitespace, newlines, brackets), listen address {127.0.0.1, 0.0.0.0, [::1], [::]} on a free port, generated host name and a self-signed certificate; then the real endpoint binary reads the written files: `-c <user>` must print exactly that user name, password, host name and port, and the started endpoint must complete a TLS handshake for the host name, answer CONNECT _check with 200 for base64(user:password) and with 407 for a different password; non-trivial = a credential with a character outside [A-Za-z0-9]".into()
    }
    fn strategy(&self, _: Tier) -> BoxedStrategy<WizardCase> {
        (secret(false).prop_filter("no colon in the user name", |u| !u.contains(':')), secret(true), 0u8..4, "[a-z]{1,8}\\.[a-z]{2,5}")
            .prop_map(|(username, password, listen, hostname)| WizardCase { username, password, listen, hostname })
            .boxed()
    }
    fn cases(&self, tier: Tier) -> u64 {
        tier.pick(320, 8000)
    }
    fn classify(&self, c: &WizardCase) -> Vec<&'static str> {
        let plain = |s: &str| s.chars().all(|c| c.is_ascii_alphanumeric());
        let mut v = vec![];
        if !plain(&c.username) || !plain(&c.password) {
            v.push("nontrivial");
        }
        if c.password.contains(':') {
            v.push("colon-in-password");
        }
        v
    }
    fn required_classes(&self) -> Vec<&'static str> {
        vec!["nontrivial", "colon-in-password"]
    }
    fn check(&self, c: &WizardCase) -> Verdict {
        static SEQ: std::sync::atomic::AtomicU64 = std::sync::atomic::AtomicU64::new(0);
        let dir = std::env::temp_dir().join(format!("ttv-wiz-{}-{}", std::process::id(), SEQ.fetch_add(1, std::sync::atomic::Ordering::Relaxed)));
        if let Err(e) = std::fs::create_dir_all(&dir) {
            return viol("harness:tempdir", e.to_string());
        }
        let dir = TempDir(dir);
        let port = match proc::free_port() {
            Ok(p) => p,
            Err(e) => return viol("harness:port", e.to_string()),
        };
        let ip = ["127.0.0.1", "0.0.0.0", "[::1]", "[::]"][c.listen as usize % 4];
        let out = Command::new(proc::wizard_bin())
            .current_dir(&dir.0)
            .args(["-m", "non-interactive", "-a"])
            .arg(format!("{}:{}", ip, port))
            .arg(format!("--creds={}:{}", c.username, c.password))
            .args(["-n", &c.hostname, "--lib-settings", "vpn.toml", "--hosts-settings", "hosts.toml", "--cert-type", "self-signed"])
            .stdin(Stdio::null())
            .output();
        let out = match out {
            Ok(o) => o,
            Err(e) => return viol("harness:wizard-binary", e.to_string()),
        };
        ensure!(
            out.status.code() == Some(0),
            "wizard:failed",
            "the wizard exits with {:?} for user {:?} password {:?}: {}",
            out.status,
            c.username,
            c.password,
            String::from_utf8_lossy(&out.stderr)
        );
        // 1. what the endpoint prints for that client
        let exp = Command::new(endpoint_bin())
            .current_dir(&dir.0)
            .args(["vpn.toml", "hosts.toml"])
            .arg(format!("--client_config={}", c.username))
            .args(["-a", "203.0.113.1"])
            .stdin(Stdio::null())
            .output();
        let exp = match exp {
            Ok(o) => o,
            Err(e) => return viol("harness:endpoint-binary", e.to_string()),
        };
        let cred_file = std::fs::read_to_string(dir.0.join("credentials.toml")).unwrap_or_default();
        ensure!(
            exp.status.code() == Some(0),
            "wizard:files-not-accepted-by-endpoint",
            "the endpoint rejects the files the wizard wrote for user {:?} password {:?} ({:?}): {}\ncredentials.toml:\n{}",
            c.username,
            c.password,
            exp.status,
            String::from_utf8_lossy(&exp.stderr),
            cred_file
        );
        let stdout = String::from_utf8_lossy(&exp.stdout).into_owned();
        let doc: toml::Value = match toml::from_str(&stdout) {
            Ok(d) => d,
            Err(e) => return viol("binary-export:invalid-toml", format!("{}\n{}", e, stdout)),
        };
        ensure!(
            doc.get("username").and_then(|v| v.as_str()) == Some(c.username.as_str())
                && doc.get("password").and_then(|v| v.as_str()) == Some(c.password.as_str()),
            "wizard:credentials-read-back-differently",
            "wizard given {:?}:{:?}, the endpoint exports {:?}:{:?}\ncredentials.toml:\n{}",
            c.username,
            c.password,
            doc.get("username"),
            doc.get("password"),
            cred_file
        );
        ensure!(
            doc.get("hostname").and_then(|v| v.as_str()) == Some(c.hostname.as_str()),
            "wizard:hostname-read-back-differently",
            "host name {:?} exported as {:?}",
            c.hostname,
            doc.get("hostname")
        );
        let addrs = doc.get("addresses").and_then(|v| v.as_array()).cloned().unwrap_or_default();
        ensure!(
            addrs.len() == 1 && addrs[0].as_str() == Some(format!("203.0.113.1:{}", port).as_str()),
            "wizard:listen-port-read-back-differently",
            "listen port {} exported as {:?}",
            port,
            addrs
        );
        // 2. the endpoint serves with these files
        let probe: std::net::SocketAddr = if c.listen >= 2 { format!("[::1]:{}", port) } else { format!("127.0.0.1:{}", port) }.parse().unwrap();
        let ep = match proc::start_existing(&dir.0, "vpn.toml", "hosts.toml", probe, Duration::from_secs(10), "info") {
            Start::Up(e) => e,
            Start::Exited(_, out) if out.contains("Address already in use") => return viol("harness:port-taken", out),
            Start::Exited(st, out) => {
                return viol(
                    "wizard:files-not-accepted-by-endpoint",
                    format!("the endpoint does not start with the files the wizard wrote ({:?}): {}", st, out),
                )
            }
            Start::Failed(e) => return viol("harness:endpoint-binary", e),
        };
        let host = c.hostname.clone();
        let good = crate::props::tunnelreq::b64(&format!("{}:{}", c.username, c.password));
        let bad = crate::props::tunnelreq::b64(&format!("{}:{}x", c.username, c.password));
        let r = crate::engine::aio::block_on_real(async move {
            let mut res = vec![];
            for tok in [good, bad] {
                let mut io = crate::props::c19proc::tls_connect(probe, &host, &["http/1.1"]).await.map_err(|e| format!("TLS to {}: {}", host, e))?;
                use tokio::io::{AsyncReadExt, AsyncWriteExt};
                let req = format!("CONNECT _check HTTP/1.1\r\nHost: _check\r\nProxy-Authorization: Basic {}\r\n\r\n", tok);
                io.write_all(req.as_bytes()).await.map_err(|e| e.to_string())?;
                let mut head = vec![];
                let mut b = [0u8; 256];
                while !head.windows(4).any(|w| w == b"\r\n\r\n") {
                    match tokio::time::timeout(Duration::from_secs(5), io.read(&mut b)).await {
                        Ok(Ok(n)) if n > 0 => head.extend_from_slice(&b[..n]),
                        _ => break,
                    }
                }
                res.push(String::from_utf8_lossy(&head).into_owned());
            }
            Ok::<_, String>(res)
        });
        drop(ep);
        match r {
            Err(e) => viol("wizard:endpoint-does-not-serve", format!("user {:?}: {}", c.username, e)),
            Ok(res) => {
                ensure!(
                    res[0].starts_with("HTTP/1.1 200"),
                    "wizard:configured-credentials-rejected",
                    "the endpoint started from the wizard's files answers {:?} to the credentials given to the wizard ({:?}:{:?})\ncredentials.toml:\n{}",
                    res[0].lines().next(),
                    c.username,
                    c.password,
                    cred_file
                );
                ensure!(
                    res[1].starts_with("HTTP/1.1 407"),
                    "wizard:other-credentials-accepted",
                    "a different password is answered {:?}",
                    res[1].lines().next()
                );
                Ok(())
            }
        }
    }
}
