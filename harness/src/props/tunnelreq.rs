//! Shared by C01 / C10 / C16 / C20: tunnel-channel requests, their rendering for HTTP/1.1 and
//! HTTP/2, and in-memory session drivers that return what the client observed.

use crate::engine::world::{self, read_h1_response, read_to_end, PeerMsg, Scripted, World};
use base64::Engine;
use bytes::Bytes;
use serde::{Deserialize, Serialize};
use std::time::Duration;
use tokio::io::{AsyncReadExt, AsyncWriteExt};
use trusttunnel::verif::session::{ChannelView, Proto};

pub fn b64(s: &str) -> String {
    base64::engine::general_purpose::STANDARD.encode(s.as_bytes())
}

#[derive(Serialize, Deserialize, Debug, Clone, PartialEq, Eq, Hash)]
pub enum AuthHeader {
    Absent,
    /// raw header value bytes
    Raw(Vec<u8>),
}

#[derive(Serialize, Deserialize, Debug, Clone, PartialEq, Eq)]
pub struct Req {
    pub method: String,
    /// request target as written by the client: authority form for CONNECT, absolute or origin
    /// form otherwise
    pub target: String,
    /// Host header (HTTP/1.1) when different from the target's authority
    pub host: Option<String>,
    pub auth: Vec<AuthHeader>,
    pub extra_headers: Vec<(String, Vec<u8>)>,
    /// after a 200: send this payload and expect it echoed
    pub payload: Vec<u8>,
    /// HTTP/1.1: the payload follows the request head at once, without waiting for the 200
    #[serde(default)]
    pub early_payload: bool,
    /// ... or this long after the head (still without waiting for the answer)
    #[serde(default)]
    pub early_delay_ms: u32,
}

impl Req {
    pub fn connect(target: &str, auth: AuthHeader) -> Self {
        Self {
            method: "CONNECT".into(),
            target: target.into(),
            host: None,
            auth: vec![auth],
            extra_headers: vec![],
            payload: b"ping".to_vec(),
            early_payload: false,
            early_delay_ms: 0,
        }
    }

    pub fn h1_bytes(&self) -> Vec<u8> {
        let mut v = vec![];
        v.extend_from_slice(self.method.as_bytes());
        v.push(b' ');
        v.extend_from_slice(self.target.as_bytes());
        v.extend_from_slice(b" HTTP/1.1\r\n");
        let host = self.host.clone().or_else(|| {
            if self.method == "CONNECT" {
                Some(self.target.clone())
            } else {
                self.target
                    .parse::<http::Uri>()
                    .ok()
                    .and_then(|u| u.authority().map(|a| a.to_string()))
            }
        });
        if let Some(h) = host {
            v.extend_from_slice(b"Host: ");
            v.extend_from_slice(h.as_bytes());
            v.extend_from_slice(b"\r\n");
        }
        for a in &self.auth {
            if let AuthHeader::Raw(raw) = a {
                v.extend_from_slice(b"Proxy-Authorization: ");
                v.extend_from_slice(raw);
                v.extend_from_slice(b"\r\n");
            }
        }
        for (n, val) in &self.extra_headers {
            v.extend_from_slice(n.as_bytes());
            v.extend_from_slice(b": ");
            v.extend_from_slice(val);
            v.extend_from_slice(b"\r\n");
        }
        v.extend_from_slice(b"\r\n");
        v
    }

    pub fn h2_request(&self) -> Result<http::Request<()>, String> {
        let mut b = http::Request::builder()
            .method(self.method.as_str())
            .uri(self.target.as_str())
            .version(http::Version::HTTP_2);
        for a in &self.auth {
            if let AuthHeader::Raw(raw) = a {
                b = b.header(
                    "proxy-authorization",
                    http::HeaderValue::from_bytes(raw).map_err(|e| e.to_string())?,
                );
            }
        }
        for (n, val) in &self.extra_headers {
            b = b.header(
                n.to_ascii_lowercase().as_str(),
                http::HeaderValue::from_bytes(val).map_err(|e| e.to_string())?,
            );
        }
        b.body(()).map_err(|e| e.to_string())
    }
}

#[derive(Serialize, Deserialize, Debug, Clone, Default, PartialEq, Eq)]
pub struct Obs {
    pub status: Option<u16>,
    pub headers: Vec<(String, String)>,
    /// virtual milliseconds from the request to the response head
    pub after_ms: u64,
    /// payload came back intact (Some(false) = tunnel did not relay)
    pub echoed: Option<bool>,
    /// anything that looks like a second response head on the same stream
    pub second_response: bool,
    pub error: Option<String>,
    /// stream / connection ended after the response
    pub closed: bool,
}

impl Obs {
    pub fn header(&self, name: &str) -> Option<&str> {
        self.headers
            .iter()
            .find(|(n, _)| n.eq_ignore_ascii_case(name))
            .map(|(_, v)| v.as_str())
    }
}

/// One HTTP/1.1 session carrying one request.
pub async fn run_h1(
    world: &World,
    sni: &str,
    sni_creds: Option<String>,
    req: &Req,
    wait: Duration,
) -> Obs {
    let (mut io, _server) = world.serve(
        Proto::Http1,
        ChannelView::Tunnel,
        sni,
        sni_creds,
        world::peer_v4(),
        64 * 1024,
    );
    let mut obs = Obs::default();
    let start = tokio::time::Instant::now();
    let mut wire = req.h1_bytes();
    let early = req.early_payload && req.method == "CONNECT" && !req.payload.is_empty();
    if early && req.early_delay_ms == 0 {
        wire.extend_from_slice(&req.payload);
    }
    if let Err(e) = io.write_all(&wire).await {
        // with early data in flight the endpoint may answer and close before it has taken all of
        // it: the answer is then waiting to be read
        if !(early && req.early_delay_ms == 0) {
            obs.error = Some(format!("write: {}", e));
            return obs;
        }
    }
    // the early payload may also leave a while after the head: read meanwhile (a read of the
    // in-memory transport that is cancelled by the timer loses nothing)
    let mut early_sent = early && req.early_delay_ms == 0;
    let response = if early && req.early_delay_ms > 0 {
        let mut buf = vec![];
        let deadline = start + wait;
        let write_at = start + Duration::from_millis(req.early_delay_ms as u64);
        loop {
            match world::parse_h1_response(&buf) {
                Ok(Some(r)) => break Ok(Some(r)),
                Ok(None) => {}
                Err(e) => break Err(e),
            }
            let next = if early_sent { deadline } else { write_at.min(deadline) };
            let mut tmp = [0u8; 4096];
            match tokio::time::timeout_at(next, io.read(&mut tmp)).await {
                Err(_) if !early_sent => {
                    early_sent = true;
                    // the endpoint may have answered and closed by now: a failing write is fine
                    let _ = io.write_all(&req.payload).await;
                }
                Err(_) => break Ok(None),
                Ok(Ok(0)) => {
                    break if buf.is_empty() { Ok(None) } else { Err(format!("connection closed inside a response head: {:?}", String::from_utf8_lossy(&buf))) };
                }
                Ok(Ok(n)) => buf.extend_from_slice(&tmp[..n]),
                Ok(Err(e)) => break Err(format!("read error: {}", e)),
            }
        }
    } else {
        read_h1_response(&mut io, wait).await
    };
    match response {
        Err(e) => {
            obs.error = Some(e);
            return obs;
        }
        Ok(None) => {
            obs.after_ms = start.elapsed().as_millis() as u64;
            return obs;
        }
        Ok(Some(r)) => {
            obs.after_ms = start.elapsed().as_millis() as u64;
            obs.status = Some(r.status);
            obs.headers = r
                .headers
                .iter()
                .map(|(n, v)| (n.clone(), String::from_utf8_lossy(v).into_owned()))
                .collect();
            let mut rest = r.rest.clone();
            if r.status == 200 && req.method == "CONNECT" && !req.payload.is_empty() {
                if !early_sent {
                    let _ = io.write_all(&req.payload).await;
                }
                let _ = io.shutdown().await;
                let (more, closed) = read_to_end(&mut io, Duration::from_secs(5)).await;
                rest.extend_from_slice(&more);
                obs.closed = closed;
                obs.echoed = Some(rest == req.payload);
                if rest.starts_with(b"HTTP/1.") {
                    obs.second_response = true;
                }
            } else {
                let _ = io.shutdown().await;
                let (more, closed) = read_to_end(&mut io, Duration::from_secs(5)).await;
                rest.extend_from_slice(&more);
                obs.closed = closed;
                if rest.windows(7).any(|w| w == b"HTTP/1.") {
                    obs.second_response = true;
                }
            }
        }
    }
    obs
}

/// One HTTP/2 session carrying all requests, issued together and awaited in order.
pub async fn run_h2(
    world: &World,
    sni: &str,
    sni_creds: Option<String>,
    reqs: &[Req],
    wait: Duration,
) -> Vec<Obs> {
    let (io, _server) = world.serve(
        Proto::Http2,
        ChannelView::Tunnel,
        sni,
        sni_creds,
        world::peer_v4(),
        256 * 1024,
    );
    let mut out: Vec<Obs> = reqs.iter().map(|_| Obs::default()).collect();
    let (send_req, conn) = match h2::client::handshake(io).await {
        Ok(x) => x,
        Err(e) => {
            for o in &mut out {
                o.error = Some(format!("h2 handshake: {}", e));
            }
            return out;
        }
    };
    let conn_task = tokio::spawn(async move {
        let _ = conn.await;
    });
    let mut pending = vec![];
    let start = tokio::time::Instant::now();
    for (i, r) in reqs.iter().enumerate() {
        let request = match r.h2_request() {
            Ok(x) => x,
            Err(e) => {
                out[i].error = Some(format!("cannot build request: {}", e));
                pending.push(None);
                continue;
            }
        };
        let mut sr = match send_req.clone().ready().await {
            Ok(x) => x,
            Err(e) => {
                out[i].error = Some(format!("h2 not ready: {}", e));
                pending.push(None);
                continue;
            }
        };
        match sr.send_request(request, false) {
            Ok((fut, stream)) => pending.push(Some((fut, stream))),
            Err(e) => {
                out[i].error = Some(format!("send_request: {}", e));
                pending.push(None);
            }
        }
    }
    for (i, p) in pending.into_iter().enumerate() {
        let Some((fut, mut stream)) = p else { continue };
        let deadline = start + wait;
        match tokio::time::timeout_at(deadline, fut).await {
            Err(_) => {
                out[i].after_ms = start.elapsed().as_millis() as u64;
            }
            Ok(Err(e)) => {
                out[i].after_ms = start.elapsed().as_millis() as u64;
                out[i].error = Some(format!("response error: {}", e));
            }
            Ok(Ok(resp)) => {
                out[i].after_ms = start.elapsed().as_millis() as u64;
                out[i].status = Some(resp.status().as_u16());
                out[i].headers = resp
                    .headers()
                    .iter()
                    .map(|(n, v)| (n.to_string(), String::from_utf8_lossy(v.as_bytes()).into_owned()))
                    .collect();
                let mut body = resp.into_body();
                let r = &reqs[i];
                if out[i].status == Some(200) && r.method == "CONNECT" && !r.payload.is_empty() && !body.is_end_stream() {
                    let _ = stream.send_data(Bytes::from(r.payload.clone()), false);
                    let mut got = vec![];
                    let lim = tokio::time::Instant::now() + Duration::from_secs(5);
                    while got.len() < r.payload.len() {
                        match tokio::time::timeout_at(lim, body.data()).await {
                            Ok(Some(Ok(b))) => {
                                let _ = body.flow_control().release_capacity(b.len());
                                got.extend_from_slice(&b);
                            }
                            _ => break,
                        }
                    }
                    out[i].echoed = Some(got == r.payload);
                    let _ = stream.send_data(Bytes::new(), true);
                    let lim = tokio::time::Instant::now() + Duration::from_secs(5);
                    match tokio::time::timeout_at(lim, body.data()).await {
                        Ok(None) => out[i].closed = true,
                        Ok(Some(Err(_))) => out[i].closed = true,
                        _ => {}
                    }
                } else {
                    let _ = stream.send_data(Bytes::new(), true);
                    let lim = tokio::time::Instant::now() + Duration::from_secs(5);
                    loop {
                        match tokio::time::timeout_at(lim, body.data()).await {
                            Ok(None) => {
                                out[i].closed = true;
                                break;
                            }
                            Ok(Some(Ok(b))) => {
                                let _ = body.flow_control().release_capacity(b.len());
                                if b.windows(7).any(|w| w == b"HTTP/1.") {
                                    out[i].second_response = true;
                                }
                            }
                            Ok(Some(Err(_))) => {
                                out[i].closed = true;
                                break;
                            }
                            Err(_) => break,
                        }
                    }
                }
            }
        }
    }
    conn_task.abort();
    out
}

/// keep a scripted destination talking (used by scenarios that need downstream traffic)
pub fn push_to_client(scripted: &Scripted, idx: usize, data: &[u8]) {
    if let Some((_, h)) = scripted.peers.lock().unwrap().get(idx) {
        let _ = h.to_client.send(PeerMsg::Data(Bytes::copy_from_slice(data)));
    }
}

/// One HTTP/3 session (real QUIC listener) carrying all requests.
pub async fn run_h3(net: &crate::engine::networld::NetWorld, sni: &str, reqs: &[Req], wait: Duration) -> Vec<Obs> {
    use crate::engine::quic::{h3_session, H3Request};
    let mut out: Vec<Obs> = reqs.iter().map(|_| Obs::default()).collect();
    let mut h3reqs = vec![];
    let mut index = vec![];
    for (i, r) in reqs.iter().enumerate() {
        let mut headers: Vec<(Vec<u8>, Vec<u8>)> = vec![(b":method".to_vec(), r.method.as_bytes().to_vec())];
        if r.method == "CONNECT" {
            headers.push((b":authority".to_vec(), r.target.as_bytes().to_vec()));
        } else {
            let Ok(uri) = r.target.parse::<http::Uri>() else {
                out[i].error = Some("cannot build request: target".into());
                continue;
            };
            headers.push((b":scheme".to_vec(), uri.scheme_str().unwrap_or("http").as_bytes().to_vec()));
            headers.push((b":authority".to_vec(), uri.authority().map(|a| a.as_str()).unwrap_or("").as_bytes().to_vec()));
            headers.push((b":path".to_vec(), uri.path_and_query().map(|p| p.as_str()).unwrap_or("/").as_bytes().to_vec()));
        }
        for a in &r.auth {
            if let AuthHeader::Raw(raw) = a {
                headers.push((b"proxy-authorization".to_vec(), raw.clone()));
            }
        }
        for (n, v) in &r.extra_headers {
            headers.push((n.to_ascii_lowercase().into_bytes(), v.clone()));
        }
        let connect = r.method == "CONNECT";
        h3reqs.push(H3Request { headers, body: if connect { r.payload.clone() } else { vec![] }, fin: !connect, fin_after_body: false });
        index.push(i);
    }
    let start = std::time::Instant::now();
    let (conn, resps) = h3_session(net.addr, sni, &h3reqs, wait).await;
    for (k, resp) in resps.into_iter().enumerate() {
        let i = index[k];
        out[i].after_ms = start.elapsed().as_millis() as u64;
        out[i].status = resp.status;
        out[i].headers = resp.headers.iter().map(|(n, v)| (n.clone(), String::from_utf8_lossy(v).into_owned())).collect();
        out[i].closed = resp.ended || conn.closed;
        if resp.status == Some(200) && reqs[i].method == "CONNECT" && !reqs[i].payload.is_empty() {
            out[i].echoed = Some(resp.body == reqs[i].payload);
        }
        if resp.status.is_none() {
            if let Some(e) = &conn.error {
                out[i].error = Some(e.clone());
            }
        }
    }
    out
}
