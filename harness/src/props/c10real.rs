//! C10 with the real direct forwarder: outbound attempts that fail in the kernel, classified by
//! the endpoint's own mapping from I/O errors to warning codes.

use crate::engine::world::CoreSpec;
use crate::engine::{aio, viol, Suite, Tier, Verdict};
use crate::ensure;
use crate::props::tunnelreq::{b64, run_h1, run_h2, AuthHeader, Req};
use proptest::prelude::*;
use serde::{Deserialize, Serialize};
use std::net::SocketAddr;
use std::time::Duration;

#[derive(Serialize, Deserialize, Debug, Clone, PartialEq)]
pub enum Dest {
    /// 224.0.0.x / 239.x: the kernel answers "network is unreachable"
    Multicast(u8),
    Broadcast,
    /// a loopback port nobody listens on
    ClosedPort,
    /// an address that swallows SYNs in this sandbox (documentation network)
    Silent(u8),
    /// a global IPv6 literal (no route here)
    GlobalV6(u16),
    /// a name that does not resolve
    NoSuchName,
}

#[derive(Serialize, Deserialize, Debug, Clone)]
pub struct Case {
    pub h2: bool,
    pub dest: Dest,
    pub port: u16,
}

const ESTABLISHMENT_MS: u64 = 500;

pub struct RealConnectSuite;

impl Suite for RealConnectSuite {
    type Case = Case;
    fn name(&self) -> &'static str {
        "real-connect-errors"
    }
    fn rule(&self) -> String {
        format!("CONNECT on real HTTP/1.1 and HTTP/2 sessions (in memory) with the real direct forwarder, private destinations allowed, establishment timeout {} ms, to destinations whose connection attempt fails in the kernel: multicast and broadcast literals (network unreachable), a closed loopback port (refused), an address that swallows SYNs (timeout), a name that does not resolve (a global IPv6 literal is left out: in this sandbox its failure races with the timeout); the harness makes the same attempt itself with a plain socket and classifies the error it gets (ENETUNREACH / EHOSTUNREACH -> 301, timed out -> 302, anything else -> 300); oracle: exactly one 502 with that X-Warning code (301 or 302 for the silent address); non-trivial = an unreachable or timed-out destination", ESTABLISHMENT_MS)
    }
    fn strategy(&self, _: Tier) -> BoxedStrategy<Case> {
        let dest = prop_oneof![
            3 => any::<u8>().prop_map(Dest::Multicast),
            2 => Just(Dest::Broadcast),
            2 => Just(Dest::ClosedPort),
            2 => any::<u8>().prop_map(Dest::Silent),
            1 => Just(Dest::NoSuchName),
        ];
        (any::<bool>(), dest, prop_oneof![Just(80u16), Just(443u16), 1024u16..60000]).prop_map(|(h2, dest, port)| Case { h2, dest, port }).boxed()
    }
    fn cases(&self, tier: Tier) -> u64 {
        tier.pick(320, 8000)
    }
    fn classify(&self, c: &Case) -> Vec<&'static str> {
        match c.dest {
            Dest::Multicast(_) | Dest::Broadcast | Dest::GlobalV6(_) => vec!["unreachable", "nontrivial"],
            Dest::Silent(_) => vec!["silent", "nontrivial"],
            Dest::ClosedPort => vec!["refused"],
            Dest::NoSuchName => vec!["unresolvable"],
        }
    }
    fn required_classes(&self) -> Vec<&'static str> {
        vec!["nontrivial", "unreachable", "silent", "refused"]
    }
    fn check(&self, c: &Case) -> Verdict {
        let authority = match &c.dest {
            Dest::Multicast(x) => format!("{}:{}", if x % 2 == 0 { format!("224.0.0.{}", 1 + x % 200) } else { format!("239.1.{}.7", x) }, c.port),
            Dest::Broadcast => format!("255.255.255.255:{}", c.port),
            Dest::ClosedPort => match crate::engine::proc::free_port() {
                Ok(p) => format!("127.0.0.1:{}", p),
                Err(e) => return viol("harness:port", e.to_string()),
            },
            Dest::Silent(x) => format!("192.0.2.{}:{}", 60 + x % 40, c.port),
            Dest::GlobalV6(x) => format!("[2606:4700:{:x}::1]:{}", x, c.port),
            Dest::NoSuchName => format!("no-such-host-{}.invalid:{}", c.port, c.port),
        };
        // what the kernel says to a plain socket
        let asked = std::time::Instant::now();
        let reference: Option<&'static str> = match authority.parse::<SocketAddr>() {
            Ok(addr) => match std::net::TcpStream::connect_timeout(&addr, Duration::from_millis(ESTABLISHMENT_MS + 300)) {
                Ok(_) => None,
                Err(e) => Some(match (e.raw_os_error(), e.kind()) {
                    (Some(libc::ENETUNREACH), _) | (Some(libc::EHOSTUNREACH), _) => "301",
                    (_, std::io::ErrorKind::TimedOut) | (_, std::io::ErrorKind::WouldBlock) => "302",
                    _ => "300",
                }),
            },
            Err(_) => Some("300"),
        };
        let Some(want) = reference else {
            return Ok(()); // something answers there in this environment
        };
        // an error the kernel reports only shortly before the establishment timeout may lose the
        // race against it in the endpoint: judged only when it is clearly earlier (or is a timeout)
        if want != "302" && asked.elapsed() > Duration::from_millis(ESTABLISHMENT_MS / 4) {
            crate::engine::bump("kernel-error-too-close-to-the-timeout", 1);
            return Ok(());
        }
        let c2 = c.clone();
        let authority2 = authority.clone();
        let obs = aio::block_on_real(async move {
            let spec = CoreSpec { allow_private: true, ipv6_available: true, establishment_timeout: Duration::from_millis(ESTABLISHMENT_MS), ..CoreSpec::default() };
            let world = spec.build().expect("core");
            let req = Req::connect(&authority2, AuthHeader::Raw(format!("Basic {}", b64("user:pass")).into_bytes()));
            let wait = Duration::from_millis(ESTABLISHMENT_MS + 3000);
            if c2.h2 {
                run_h2(&world, "main.x", None, &[req], wait).await.remove(0)
            } else {
                run_h1(&world, "main.x", None, &req, wait).await
            }
        });
        let what = format!("{} CONNECT {} (a plain socket gets the error class {})", if c.h2 { "h2" } else { "h1" }, authority, want);
        ensure!(obs.status.is_some(), "response:none", "{}: no final response ({:?})", what, obs.error);
        ensure!(!obs.second_response, "response:second", "{}: a second response head followed", what);
        ensure!(obs.status == Some(502), "status:wrong", "{}: answered {:?}", what, obs.status);
        let w = obs.header("x-warning").unwrap_or("");
        if matches!(c.dest, Dest::Silent(_)) {
            // no answer to the SYN: the kernel gives up with "host unreachable" or the
            // establishment timeout fires first, whichever comes earlier in this environment
            ensure!(w.starts_with("301") || w.starts_with("302"), "header:wrong-warning-code", "{}: X-Warning {:?}, want 301 or 302", what, w);
            return Ok(());
        }
        ensure!(
            w.starts_with(want),
            "header:wrong-warning-code",
            "{}: X-Warning {:?}, want code {}",
            what,
            w,
            want
        );
        Ok(())
    }
}
