//! C04 — connection filtering rules: first match wins, fail closed, enforced early.

use crate::engine::world::CoreSpec;
use crate::engine::{self, idx, Ctx, Suite, Tier, Verdict};
use crate::ensure;
use crate::reference::rules as refr;
use proptest::prelude::*;
use serde::{Deserialize, Serialize};
use serde_json::Value;
use std::net::{IpAddr, Ipv4Addr, Ipv6Addr};
use std::sync::atomic::{AtomicU64, Ordering};
use trusttunnel::rules::{Rule, RuleAction, RuleEvaluation, RulesConfig, RulesEngine};

#[derive(Serialize, Deserialize, Debug, Clone)]
pub struct RuleSpec {
    pub cidr: Option<String>,
    pub pattern: Option<String>,
    pub allow: bool,
    pub cidr_class: String,
    pub pattern_class: String,
}

#[derive(Serialize, Deserialize, Debug, Clone)]
pub struct Case {
    pub rules: Vec<RuleSpec>,
    pub peer: IpAddr,
    pub random: Option<Vec<u8>>,
}

fn v4net(a: u32, len: u8) -> u32 {
    if len == 0 {
        0
    } else {
        a & (u32::MAX << (32 - len))
    }
}

fn v6net(a: u128, len: u8) -> u128 {
    if len == 0 {
        0
    } else {
        a & (u128::MAX << (128 - len))
    }
}

/// The IPv4 address "behind" a peer (itself, or the embedded one of a mapped address)
fn v4_of(peer: &IpAddr) -> Option<Ipv4Addr> {
    match peer {
        IpAddr::V4(a) => Some(*a),
        IpAddr::V6(a) => a.to_ipv4_mapped(),
    }
}

pub(crate) fn cidr_for(peer: &IpAddr, how: u8, len_pick: u16, delta: u8) -> (Option<String>, &'static str) {
    const V4LENS: [u8; 9] = [0, 1, 8, 12, 16, 24, 30, 31, 32];
    const V6LENS: [u8; 9] = [0, 1, 16, 32, 48, 64, 96, 127, 128];
    const MALFORMED: [&str; 9] = [
        "10.0.0.0", "10.0.0.0/33", "300.1.1.1/8", "abc", "", "::/129", "10.0.0.0/8/8", "10.0.0.0/-1", "fe80::/",
    ];
    match how {
        0 => (None, "absent"),
        // network containing the peer (as IPv4 when the peer has an IPv4 identity)
        1 | 2 => match v4_of(peer) {
            Some(a) if how == 1 || peer.is_ipv4() => {
                let len = V4LENS[idx(len_pick, V4LENS.len())];
                (Some(format!("{}/{}", Ipv4Addr::from(v4net(u32::from(a), len)), len)), "v4-containing")
            }
            _ => {
                let a = match peer {
                    IpAddr::V6(a) => u128::from(*a),
                    IpAddr::V4(a) => u128::from(a.to_ipv6_mapped()),
                };
                let len = V6LENS[idx(len_pick, V6LENS.len())];
                (Some(format!("{}/{}", Ipv6Addr::from(v6net(a, len)), len)), "v6-containing")
            }
        },
        // neighbouring network: same length, next block (peer just outside)
        3 => match v4_of(peer) {
            Some(a) => {
                let len = V4LENS[1 + idx(len_pick, V4LENS.len() - 1)];
                let n = v4net(u32::from(a), len).wrapping_add(if len == 32 { 1 } else { 1u32 << (32 - len) });
                (Some(format!("{}/{}", Ipv4Addr::from(n), len)), "v4-adjacent")
            }
            None => {
                let IpAddr::V6(a) = peer else { unreachable!() };
                let len = V6LENS[1 + idx(len_pick, V6LENS.len() - 1)];
                let n = v6net(u128::from(*a), len).wrapping_add(if len == 128 { 1 } else { 1u128 << (128 - len) });
                (Some(format!("{}/{}", Ipv6Addr::from(n), len)), "v6-adjacent")
            }
        },
        4 => {
            let nets = ["10.0.0.0/8", "192.168.1.0/24", "2001:db8::/32", "0.0.0.0/0", "::/0", "203.0.113.7/32"];
            (Some(nets[idx(len_pick, nets.len())].to_string()), "unrelated")
        }
        5 => match v4_of(peer) {
            // host bits set
            Some(a) => (Some(format!("{}/{}", a, 8 + (delta % 16))), "host-bits-set"),
            None => (Some(format!("{}/{}", peer, 16 + (delta % 64))), "host-bits-set"),
        },
        _ => (Some(MALFORMED[idx(len_pick, MALFORMED.len())].to_string()), "malformed"),
    }
}

pub(crate) fn pattern_for(random: &Option<Vec<u8>>, how: u8, len_pick: u16, bit: u8, upper: bool) -> (Option<String>, &'static str) {
    let base: Vec<u8> = random.clone().unwrap_or_else(|| (0..32).map(|i| i as u8 * 7 + 1).collect());
    let full: Vec<u8> = base.iter().copied().chain(std::iter::repeat(0xab)).take(40).collect();
    let hexs = |b: &[u8]| if upper { hex::encode_upper(b) } else { hex::encode(b) };
    match how {
        0 => (None, "absent"),
        1 => {
            // prefix of the random (1..=len bytes)
            let n = 1 + idx(len_pick, base.len().max(1));
            (Some(hexs(&full[..n.min(full.len())])), "prefix-matching")
        }
        2 => {
            let n = 1 + idx(len_pick, base.len().max(1));
            let mut p = full[..n.min(full.len())].to_vec();
            let k = p.len() - 1;
            p[k] ^= 1 << (bit % 8);
            (Some(hexs(&p)), "prefix-off-by-one-bit")
        }
        3 => (Some(hexs(&full[..33 + idx(len_pick, 8)])), "prefix-longer-than-random"),
        4 => {
            // masked, equal lengths, matching under the mask
            let n = 1 + idx(len_pick, base.len().clamp(1, 8));
            let mask: Vec<u8> = (0..n).map(|i| [0xf0u8, 0x0f, 0xff, 0x81, 0x00][(i + bit as usize) % 5]).collect();
            let p: Vec<u8> = (0..n).map(|i| (full[i] & mask[i]) | (!mask[i] & 0x5a)).collect();
            (Some(format!("{}/{}", hexs(&p), hexs(&mask))), "mask-matching")
        }
        5 => {
            let n = 1 + idx(len_pick, base.len().clamp(1, 8));
            let mask: Vec<u8> = (0..n).map(|i| [0xf0u8, 0x0f, 0xff, 0x81][(i + bit as usize) % 4]).collect();
            let mut p: Vec<u8> = (0..n).map(|i| full[i] & mask[i]).collect();
            // flip a bit that the mask covers
            let k = n - 1;
            let covered = mask[k].trailing_zeros() as u8;
            p[k] ^= 1 << covered;
            (Some(format!("{}/{}", hexs(&p), hexs(&mask))), "mask-off-by-one-bit")
        }
        6 => {
            let forms = ["aabb/ff", "aa/ffff", "/ff", "aa/", "/", "aabbcc/f0f0"];
            (Some(forms[idx(len_pick, forms.len())].to_string()), "mask-unequal-or-empty")
        }
        7 => (Some(String::new()), "empty"),
        _ => {
            let forms = ["abc", "zz", "0x12", "aa bb", "aa/zz", "g0/ff", "a", "aabb/f"];
            (Some(forms[idx(len_pick, forms.len())].to_string()), "malformed")
        }
    }
}

fn peer_strategy() -> BoxedStrategy<IpAddr> {
    prop_oneof![
        4 => any::<[u8; 4]>().prop_map(|a| IpAddr::V4(Ipv4Addr::from(a))),
        2 => Just(IpAddr::V4(Ipv4Addr::new(10, 1, 2, 3))),
        1 => Just(IpAddr::V4(Ipv4Addr::new(255, 255, 255, 255))),
        1 => Just(IpAddr::V4(Ipv4Addr::new(0, 0, 0, 0))),
        3 => any::<[u8; 16]>().prop_map(|a| IpAddr::V6(Ipv6Addr::from(a))),
        4 => any::<[u8; 4]>().prop_map(|a| IpAddr::V6(Ipv4Addr::from(a).to_ipv6_mapped())),
        1 => Just(IpAddr::V6(Ipv6Addr::LOCALHOST)),
    ]
    .boxed()
}

pub fn case_strategy() -> BoxedStrategy<Case> {
    let random = prop_oneof![
        2 => Just(None),
        8 => prop::collection::vec(any::<u8>(), 32).prop_map(Some),
        1 => prop::collection::vec(any::<u8>(), 0..32).prop_map(Some),
    ];
    (peer_strategy(), random)
        .prop_flat_map(|(peer, random)| {
            let p2 = peer;
            let r2 = random.clone();
            let rule = (
                prop_oneof![3 => Just(0u8), 3 => Just(1u8), 2 => Just(2u8), 3 => Just(3u8), 2 => Just(4u8), 1 => Just(5u8), 1 => Just(6u8)],
                any::<u16>(),
                any::<u8>(),
                prop_oneof![4 => Just(0u8), 3 => Just(1u8), 3 => Just(2u8), 1 => Just(3u8), 3 => Just(4u8), 3 => Just(5u8), 1 => Just(6u8), 1 => Just(7u8), 1 => Just(8u8)],
                any::<u16>(),
                any::<u8>(),
                any::<bool>(),
                any::<bool>(),
            )
                .prop_map(move |(ch, cl, cd, ph, pl, pb, upper, allow)| {
                    let (cidr, cidr_class) = cidr_for(&p2, ch, cl, cd);
                    let (pattern, pattern_class) = pattern_for(&r2, ph, pl, pb, upper);
                    RuleSpec {
                        cidr,
                        pattern,
                        allow,
                        cidr_class: cidr_class.to_string(),
                        pattern_class: pattern_class.to_string(),
                    }
                });
            (Just(peer), Just(random), prop::collection::vec(rule, 0..=6))
        })
        .prop_map(|(peer, random, rules)| Case { rules, peer, random })
        .boxed()
}

pub(crate) fn to_ref(rules: &[RuleSpec]) -> Vec<refr::Rule> {
    rules
        .iter()
        .map(|r| refr::Rule {
            cidr: r.cidr.clone(),
            pattern: r.pattern.clone(),
            allow: r.allow,
        })
        .collect()
}

pub(crate) fn to_real(rules: &[RuleSpec]) -> Vec<Rule> {
    rules
        .iter()
        .map(|r| Rule {
            cidr: r.cidr.clone(),
            client_random_prefix: r.pattern.clone(),
            action: if r.allow { RuleAction::Allow } else { RuleAction::Deny },
        })
        .collect()
}

fn classify_case(c: &Case, canonicalise: bool) -> Vec<&'static str> {
    let mut v = vec![];
    let rr = to_ref(&c.rules);
    // how many rules match on their own?
    let mut actions = vec![];
    for r in &rr {
        if refr::evaluate(std::slice::from_ref(r), &c.peer, c.random.as_deref(), canonicalise)
            == Some(if r.allow { refr::Verdict::Allow } else { refr::Verdict::Deny })
            && (r.cidr.is_some() || r.pattern.is_some() || !r.allow)
        {
            actions.push(r.allow);
        }
    }
    let conflicting = actions.iter().any(|a| *a) && actions.iter().any(|a| !*a);
    let masked = c.rules.iter().any(|r| r.pattern_class.starts_with("mask-m") || r.pattern_class.starts_with("mask-o"));
    let mapped = matches!(c.peer, IpAddr::V6(a) if a.to_ipv4_mapped().is_some());
    if conflicting {
        v.push("conflicting-matches");
    }
    if masked {
        v.push("masked-pattern");
    }
    if mapped {
        v.push("mapped-peer");
    }
    if c.random.is_none() && c.rules.iter().any(|r| r.pattern.is_some()) {
        v.push("random-absent-but-needed");
    }
    match refr::evaluate(&rr, &c.peer, c.random.as_deref(), canonicalise) {
        None => v.push("dont-care"),
        Some(refr::Verdict::Deny) => v.push("expect-deny"),
        Some(refr::Verdict::Allow) => v.push("expect-allow"),
    }
    if conflicting || masked || mapped {
        v.push("nontrivial");
    }
    v
}

fn compare(expected: Option<refr::Verdict>, got: RuleEvaluation, c: &Case, level: &str) -> Verdict {
    let Some(exp) = expected else { return Ok(()) };
    let got_v = match got {
        RuleEvaluation::Allow => refr::Verdict::Allow,
        RuleEvaluation::Deny => refr::Verdict::Deny,
    };
    if exp == got_v {
        return Ok(());
    }
    let mapped = matches!(c.peer, IpAddr::V6(a) if a.to_ipv4_mapped().is_some());
    let sig = if c.random.is_none() && c.rules.iter().any(|r| r.pattern.is_some()) {
        "rules:not-fail-closed-without-client-random"
    } else if mapped && level == "wiring" {
        "rules:ipv4-peer-on-dual-stack-listener-not-matched-by-ipv4-cidr"
    } else if exp == refr::Verdict::Deny {
        "rules:denied-connection-admitted"
    } else {
        "rules:allowed-connection-dropped"
    };
    engine::viol(
        sig,
        format!(
            "{} level: peer {} random {:?}: {:?} but the rules say {:?}; rules: {:?}",
            level,
            c.peer,
            c.random.as_ref().map(|r| hex::encode(r)),
            got_v,
            exp,
            c.rules
                .iter()
                .map(|r| format!("[{:?} {:?} {}]", r.cidr, r.pattern, if r.allow { "allow" } else { "deny" }))
                .collect::<Vec<_>>()
        ),
    )
}

// ---------------------------------------------------------------------------------------------

pub struct EngineSuite;

impl Suite for EngineSuite {
    type Case = Case;
    fn name(&self) -> &'static str {
        "engine"
    }
    fn rule(&self) -> String {
        "rule lists of 0-6 rules derived from the generated peer and client random: cidr in {absent, network containing the peer (IPv4 or IPv6 view) of every prefix-length class incl. /0 /32 /128, the adjacent network (peer one outside), unrelated, host bits set, malformed}, client_random_prefix in {absent, true prefix, prefix with the last bit flipped, longer than the random, upper case, prefix/mask matching or differing in one covered bit, unequal/empty sides, empty, non-hex}, action; peers IPv4 / IPv6 / IPv4-mapped; randoms absent, 32 bytes or shorter; RulesEngine::evaluate compared with a three-valued reference evaluator written from CONFIGURATION.md (first match, both conditions, default allow, fail closed); non-trivial = two rules matching the same connection with different actions, or a masked pattern, or a mapped peer".into()
    }
    fn strategy(&self, _: Tier) -> BoxedStrategy<Case> {
        case_strategy()
    }
    fn cases(&self, tier: Tier) -> u64 {
        tier.pick(400_000, 6_000_000)
    }
    fn classify(&self, c: &Case) -> Vec<&'static str> {
        classify_case(c, false)
    }
    fn required_classes(&self) -> Vec<&'static str> {
        vec!["nontrivial", "conflicting-matches", "masked-pattern", "mapped-peer", "random-absent-but-needed", "expect-deny", "expect-allow"]
    }
    fn check(&self, c: &Case) -> Verdict {
        let engine = RulesEngine::from_config(RulesConfig { rule: to_real(&c.rules) });
        let got = engine::no_panic("rules:panic", || engine.evaluate(&c.peer, c.random.as_deref()))?;
        let again = engine.evaluate(&c.peer, c.random.as_deref());
        ensure!(got == again, "rules:nondeterministic", "two evaluations of the same connection differ");
        compare(
            refr::evaluate(&to_ref(&c.rules), &c.peer, c.random.as_deref(), false),
            got,
            c,
            "engine",
        )
    }
}

pub struct WiringSuite;

impl Suite for WiringSuite {
    type Case = Case;
    fn name(&self) -> &'static str {
        "wiring"
    }
    fn rule(&self) -> String {
        "same generator; the verdict is taken from the real Core::evaluate_connection_rules (the call made for every new TLS / QUIC connection) with the peer address exactly as accept() reports it, i.e. ::ffff:a.b.c.d for an IPv4 client of a dual-stack listener; the reference canonicalises the peer address (an IPv4 peer must be matched by IPv4 CIDRs)".into()
    }
    fn strategy(&self, _: Tier) -> BoxedStrategy<Case> {
        case_strategy()
    }
    fn cases(&self, tier: Tier) -> u64 {
        tier.pick(40_000, 600_000)
    }
    fn classify(&self, c: &Case) -> Vec<&'static str> {
        classify_case(c, true)
    }
    fn required_classes(&self) -> Vec<&'static str> {
        vec!["nontrivial", "mapped-peer", "expect-deny", "expect-allow"]
    }
    fn check(&self, c: &Case) -> Verdict {
        let spec = CoreSpec {
            rules: Some(to_real(&c.rules)),
            ..CoreSpec::default()
        };
        let world = spec.build().map_err(|e| engine::Violation {
            sig: "rules:core-refused".into(),
            msg: e,
        })?;
        let got = engine::no_panic("rules:panic", || {
            world.core.verif_eval_rules(Some(c.peer), c.random.as_deref())
        })?;
        let got = if got.is_ok() { RuleEvaluation::Allow } else { RuleEvaluation::Deny };
        compare(
            refr::evaluate(&to_ref(&c.rules), &c.peer, c.random.as_deref(), true),
            got,
            c,
            "wiring",
        )
    }
}

// ---------------------------------------------------------------------------------------------
// rules file

#[derive(Serialize, Deserialize, Debug, Clone)]
pub struct FileCase {
    pub case: Case,
    /// per rule: how the fields are written (0 plain, 1 literal string, 2 reordered keys + comment)
    pub style: Vec<u8>,
    /// index of a rule whose action is written as an unknown word (None = all valid)
    pub unknown_action: Option<u16>,
    /// index of a rule whose cidr is written with the wrong TOML type
    pub wrong_type: Option<u16>,
}

fn toml_basic(s: &str) -> String {
    let mut out = String::from("\"");
    for c in s.chars() {
        match c {
            '"' => out.push_str("\\\""),
            '\\' => out.push_str("\\\\"),
            '\n' => out.push_str("\\n"),
            c if (c as u32) < 0x20 => out.push_str(&format!("\\u{:04X}", c as u32)),
            c => out.push(c),
        }
    }
    out.push('"');
    out
}

static FILE_SEQ: AtomicU64 = AtomicU64::new(0);

pub struct TempFile(pub std::path::PathBuf);

impl TempFile {
    pub fn new(tag: &str, content: &str) -> Self {
        let p = std::env::temp_dir().join(format!(
            "ttv-{}-{}-{}.toml",
            tag,
            std::process::id(),
            FILE_SEQ.fetch_add(1, Ordering::Relaxed)
        ));
        std::fs::write(&p, content).expect("write temp file");
        Self(p)
    }
    pub fn path(&self) -> String {
        self.0.to_string_lossy().into_owned()
    }
}

impl Drop for TempFile {
    fn drop(&mut self) {
        let _ = std::fs::remove_file(&self.0);
    }
}

pub struct FileSuite;

impl Suite for FileSuite {
    type Case = FileCase;
    fn name(&self) -> &'static str {
        "rules-file"
    }
    fn rule(&self) -> String {
        "same rule lists rendered to a rules.toml (basic / literal strings, reordered keys, comments; optionally one rule with an unknown action word or a wrongly typed cidr, both don't-care) and loaded the way the endpoint does (toml::from_str::<Settings> with rules_file = path), then evaluated; reference as for the engine".into()
    }
    fn strategy(&self, _: Tier) -> BoxedStrategy<FileCase> {
        (
            case_strategy(),
            prop::collection::vec(0u8..3, 6),
            prop_oneof![6 => Just(None), 1 => any::<u16>().prop_map(Some)],
            prop_oneof![8 => Just(None), 1 => any::<u16>().prop_map(Some)],
        )
            .prop_map(|(case, style, unknown_action, wrong_type)| FileCase {
                case,
                style,
                unknown_action,
                wrong_type,
            })
            .boxed()
    }
    fn cases(&self, tier: Tier) -> u64 {
        tier.pick(16_000, 240_000)
    }
    fn classify(&self, c: &FileCase) -> Vec<&'static str> {
        let mut v = classify_case(&c.case, false);
        if c.unknown_action.is_some() && !c.case.rules.is_empty() {
            v.push("unknown-action");
        }
        v
    }
    fn check(&self, c: &FileCase) -> Verdict {
        let n = c.case.rules.len();
        let mut doc = String::from("# generated rules\n");
        let unknown = c.unknown_action.filter(|_| n > 0).map(|i| idx(i, n));
        let wrong = c.wrong_type.filter(|_| n > 0).map(|i| idx(i, n));
        for (i, r) in c.case.rules.iter().enumerate() {
            let lit = |s: &str| {
                if c.style[i % c.style.len()] == 1 && !s.contains('\'') {
                    format!("'{}'", s)
                } else {
                    toml_basic(s)
                }
            };
            let mut lines = vec![];
            if let Some(cidr) = &r.cidr {
                if wrong == Some(i) {
                    lines.push("cidr = 10".to_string());
                } else {
                    lines.push(format!("cidr = {}", lit(cidr)));
                }
            }
            if let Some(p) = &r.pattern {
                lines.push(format!("client_random_prefix = {}", lit(p)));
            }
            let action = if unknown == Some(i) { "block" } else if r.allow { "allow" } else { "deny" };
            lines.push(format!("action = {}", lit(action)));
            if c.style[i % c.style.len()] == 2 {
                lines.reverse();
                lines.insert(0, "# a comment".to_string());
            }
            doc.push_str("\n[[rule]]\n");
            doc.push_str(&lines.join("\n"));
            doc.push('\n');
        }
        let rules_file = TempFile::new("rules", &doc);
        let settings_doc = format!(
            "listen_address = \"127.0.0.1:8443\"\nrules_file = {}\n[listen_protocols]\n[listen_protocols.http1]\n",
            toml_basic(&rules_file.path())
        );
        let settings: Result<trusttunnel::settings::Settings, _> =
            engine::no_panic("rules-file:panic", || toml::from_str(&settings_doc))?;
        let settings = settings.map_err(|e| engine::Violation {
            sig: "rules-file:settings-rejected".into(),
            msg: format!("settings with a rules file were rejected: {}\n{}", e, doc),
        })?;
        let Some(engine_) = settings.get_rules_engine().as_ref() else {
            return engine::viol("rules-file:no-engine", "no rules engine after loading a rules file");
        };
        let got = engine::no_panic("rules:panic", || engine_.evaluate(&c.case.peer, c.case.random.as_deref()))?;
        if unknown.is_some() || wrong.is_some() {
            return Ok(()); // don't-care documents: loaded without panic, evaluated without panic
        }
        compare(
            refr::evaluate(&to_ref(&c.case.rules), &c.case.peer, c.case.random.as_deref(), false),
            got,
            &c.case,
            "file",
        )
    }
}

pub fn run(ctx: &mut Ctx) {
    super::replay_corpus(ctx, replay);
    ctx.run_suite(&EngineSuite);
    ctx.run_suite(&FileSuite);
    ctx.run_suite(&WiringSuite);
    ctx.run_suite(&super::c12quic::QuicRandomSuite);
    ctx.run_suite(&super::frontdoor::FrontDoorSuite);
    ctx.assume("don't-care: masks whose two sides differ in length, are empty or longer than the random; empty prefix; CIDRs with host bits set; at the engine level an IPv4-mapped address against an IPv4 CIDR; rules with an unknown action or a wrongly typed field; absent random when only malformed patterns exist");
    ctx.assume("'dropped before the TLS handshake is answered' is covered at the call-site level (evaluate_connection_rules result) here; the socket-level observation belongs to the full-stack scenarios");
}

pub fn replay(ctx: &mut Ctx, suite: &str, case: &Value) -> bool {
    match suite {
        "engine" => ctx.replay_suite(&EngineSuite, case),
        "rules-file" => ctx.replay_suite(&FileSuite, case),
        "wiring" => ctx.replay_suite(&WiringSuite, case),
        "quic-client-random" => ctx.replay_suite(&super::c12quic::QuicRandomSuite, case),
        "tls-front-door" => ctx.replay_suite(&super::frontdoor::FrontDoorSuite, case),
        _ => false,
    }
}
