//! C12 / C04 on QUIC: the client random the rules see is the one of the completed handshake, for
//! ClientHellos of one or several Initial packets; the verdict of the rules decides whether any
//! request is processed.

use crate::engine::networld::NetWorld;
use crate::engine::quic::h3_request;
use crate::engine::world::CoreSpec;
use crate::engine::{aio, viol, Suite, Tier, Verdict};
use crate::ensure;
use crate::reference::rules as refr;
use proptest::prelude::*;
use serde::{Deserialize, Serialize};
use std::net::IpAddr;
use std::time::Duration;
use trusttunnel::rules::{Rule, RuleAction};

#[derive(Serialize, Deserialize, Debug, Clone)]
pub struct QRule {
    /// pattern over the first `len` bytes of the client random: (random & mask) == (value & mask)
    pub value: [u8; 2],
    pub mask: [u8; 2],
    pub len: u8,
    pub allow: bool,
}

#[derive(Serialize, Deserialize, Debug, Clone)]
pub struct Case {
    /// padding ALPN entries of 250 bytes each behind h3 (0 = one Initial packet, 5+ = several)
    pub pad: u8,
    pub rules: Vec<QRule>,
    /// what a final rule without conditions says (None = no such rule: default allow)
    pub fallback: Option<bool>,
}

fn pattern(r: &QRule) -> String {
    let n = r.len.clamp(1, 2) as usize;
    format!("{}/{}", hex::encode(&r.value[..n]), hex::encode(&r.mask[..n]))
}

pub struct QuicRandomSuite;

impl Suite for QuicRandomSuite {
    type Case = Case;
    fn name(&self) -> &'static str {
        "quic-client-random"
    }
    fn rule(&self) -> String {
        "a quiche HTTP/3 client (real BoringSSL ClientHello; 0-8 padding ALPN entries of 250 bytes make it span 1-3 Initial packets) against the real QUIC listener of Core::listen on loopback, with 1-4 generated rules of the form value/mask over the first one or two bytes of the client random (allow or deny) and an optional unconditional last rule; the client random is read from the client's TLS key log; oracle: the reference rule evaluator applied to that random says allow -> the x-ping request is answered 200, deny -> no request is answered on that connection; non-trivial = ClientHello in more than one Initial packet".into()
    }
    fn strategy(&self, _: Tier) -> BoxedStrategy<Case> {
        let rule = (any::<[u8; 2]>(), prop_oneof![Just([0x80u8, 0]), Just([0xc0u8, 0]), Just([0x01u8, 0]), Just([0xf0u8, 0x0f]), Just([0xffu8, 0x80]), any::<[u8; 2]>()], 1u8..=2, any::<bool>())
            .prop_map(|(value, mask, len, allow)| QRule { value, mask, len, allow });
        (prop_oneof![2 => Just(0u8), 1 => 1u8..5, 3 => 5u8..9], prop::collection::vec(rule, 1..=4), prop_oneof![Just(None), Just(Some(true)), Just(Some(false))])
            .prop_map(|(pad, rules, fallback)| Case { pad, rules, fallback })
            .boxed()
    }
    fn cases(&self, tier: Tier) -> u64 {
        tier.pick(240, 6000)
    }
    fn classify(&self, c: &Case) -> Vec<&'static str> {
        if c.pad >= 5 {
            vec!["multi-packet-hello", "nontrivial"]
        } else {
            vec!["single-packet-hello"]
        }
    }
    fn required_classes(&self) -> Vec<&'static str> {
        vec!["nontrivial", "single-packet-hello"]
    }
    fn check(&self, c: &Case) -> Verdict {
        let c = c.clone();
        aio::block_on_real(async move {
            let mut rules: Vec<Rule> = c
                .rules
                .iter()
                .map(|r| Rule { cidr: None, client_random_prefix: Some(pattern(r)), action: if r.allow { RuleAction::Allow } else { RuleAction::Deny } })
                .collect();
            let mut reference: Vec<refr::Rule> = c.rules.iter().map(|r| refr::Rule { cidr: None, pattern: Some(pattern(r)), allow: r.allow }).collect();
            if let Some(allow) = c.fallback {
                rules.push(Rule { cidr: None, client_random_prefix: None, action: if allow { RuleAction::Allow } else { RuleAction::Deny } });
                reference.push(refr::Rule { cidr: None, pattern: None, allow });
            }
            let spec = CoreSpec { quic: true, rules: Some(rules), ..CoreSpec::default() };
            let net = match NetWorld::start(&spec).await {
                Ok(n) => n,
                Err(e) => return viol("harness:networld", e),
            };
            let mut alpn: Vec<Vec<u8>> = vec![b"h3".to_vec()];
            for i in 0..c.pad {
                let mut p = format!("x-unused-{}-", i).into_bytes();
                p.resize(250, b'a');
                alpn.push(p);
            }
            let authority = format!("main.x:{}", net.addr.port());
            let headers: Vec<(Vec<u8>, Vec<u8>)> = vec![
                (b":method".to_vec(), b"GET".to_vec()),
                (b":scheme".to_vec(), b"https".to_vec()),
                (b":authority".to_vec(), authority.into_bytes()),
                (b":path".to_vec(), b"/".to_vec()),
                (b"x-ping".to_vec(), b"1".to_vec()),
            ];
            let out = h3_request(net.addr, "main.x", &alpn, &headers, Duration::from_millis(2500)).await;
            if let Some(e) = &out.error {
                return viol("harness:quic-client", e.clone());
            }
            let Some(random) = out.client_random.clone() else {
                // the handshake never got far enough for the client to derive keys
                ensure!(out.status.is_none(), "harness:quic-client", "a response without a key log");
                return viol(
                    "quic:handshake-not-answered",
                    format!("the endpoint never answered the ClientHello ({} Initial packets): {:?}", out.hello_packets, out),
                );
            };
            let peer: IpAddr = "127.0.0.1".parse().unwrap();
            let expect = refr::evaluate(&reference, &peer, Some(&random), true);
            let what = format!(
                "ClientHello in {} Initial packet(s), client random {}.., rules {:?} fallback {:?}",
                out.hello_packets,
                hex::encode(&random[..4]),
                c.rules.iter().map(|r| format!("{} {}", if r.allow { "allow" } else { "deny" }, pattern(r))).collect::<Vec<_>>(),
                c.fallback
            );
            match expect {
                Some(refr::Verdict::Allow) => {
                    ensure!(
                        out.status == Some(200),
                        "quic:allowed-connection-dropped",
                        "{}: the rules allow this client random, the request got {:?} (established {}, closed {})",
                        what,
                        out.status,
                        out.established,
                        out.closed
                    );
                }
                Some(refr::Verdict::Deny) => {
                    ensure!(
                        out.status.is_none(),
                        "quic:denied-connection-served",
                        "{}: the rules deny this client random, yet the request was answered {:?}",
                        what,
                        out.status
                    );
                }
                None => {}
            }
            Ok(())
        })
    }
}
