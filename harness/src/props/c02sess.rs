//! C02, "both peers see a clean end once both directions have ended whereas a failure on either
//! side tears the whole tunnel down rather than silently truncating": a real HTTP/1.1 or HTTP/2
//! tunnel in memory; how each side learns about the end, for every kind of end.

use crate::engine::world::{CoreSpec, Outcome, PeerMsg, Scripted};
use crate::engine::{aio, viol, Suite, Tier, Verdict, Violation};
use crate::ensure;
use crate::props::tunnelreq::b64;
use bytes::Bytes;
use proptest::prelude::*;
use serde::{Deserialize, Serialize};
use std::sync::atomic::Ordering;
use std::time::Duration;
use tokio::io::{AsyncReadExt, AsyncWriteExt};
use trusttunnel::verif::session::{ChannelView, Proto};

#[derive(Serialize, Deserialize, Debug, Clone, Copy, PartialEq)]
pub enum Step {
    Up(u16),
    Down(u16),
}

#[derive(Serialize, Deserialize, Debug, Clone, Copy, PartialEq)]
pub enum End {
    /// the destination ends its stream, then the client ends its own
    CleanDestinationFirst,
    /// the client ends its stream, then the destination ends its own
    CleanClientFirst,
    /// the destination's socket fails a read (index into ERRORS)
    DestinationReadError(u8),
    /// the destination's socket fails the next write
    DestinationWriteError(u8),
    /// the client's connection (h1) or stream (h2) is reset
    ClientReset,
}

const ERRORS: [std::io::ErrorKind; 4] = [
    std::io::ErrorKind::ConnectionReset,
    std::io::ErrorKind::BrokenPipe,
    std::io::ErrorKind::TimedOut,
    std::io::ErrorKind::ConnectionAborted,
];

#[derive(Serialize, Deserialize, Debug, Clone)]
pub struct Case {
    pub h2: bool,
    pub steps: Vec<Step>,
    pub end: End,
    pub transport_kib: u8,
}

fn pat(tag: u8, off: usize, len: usize) -> Vec<u8> {
    (off..off + len).map(|i| ((i * 13 + (i >> 8)) as u8) ^ tag).collect()
}

fn herr(what: &str, e: impl std::fmt::Display) -> Violation {
    Violation { sig: format!("harness:{}", what), msg: e.to_string() }
}

pub struct TunnelEndsSuite;

/// how the client learnt that the download direction is over
#[derive(Debug, PartialEq)]
enum ClientEnd {
    Clean,
    Failure(String),
    Nothing,
}

impl Suite for TunnelEndsSuite {
    type Case = Case;
    fn name(&self) -> &'static str {
        "session-tunnel-ends"
    }
    fn rule(&self) -> String {
        "a CONNECT tunnel on a real HTTP/1.1 or HTTP/2 session in memory (virtual clock; the endpoint's side of the transport records whether it was shut down in an orderly way - what TLS turns into close_notify - or merely dropped): 0-6 synchronous transfers of 1-20000 bytes up or down, each checked for exact arrival, then one of five ends: destination EOF then client EOF, client EOF then destination EOF, a read error on the destination socket (reset, broken pipe, timed out, aborted), a write error on it, a reset of the client connection (h1) or stream (h2). Oracle: a clean end is seen as clean by both (h1: orderly shutdown after all bytes; h2: END_STREAM; the destination sees EOF after all upload bytes); after a destination failure the client must NOT be told a clean end (h1: transport dropped without shutdown; h2: RST_STREAM or connection error) and must learn it within 5 virtual seconds; after a client reset both halves of the destination connection are released within 5 s (h1: once the destination has ended too); on h2 the destination's EOF is a half-close: what the client sends afterwards still arrives, followed by its END_STREAM; non-trivial = a failure end, or a clean end after traffic in both directions".into()
    }
    fn strategy(&self, _: Tier) -> BoxedStrategy<Case> {
        let step = prop_oneof![(1u16..20_000).prop_map(Step::Up), (1u16..20_000).prop_map(Step::Down)];
        let end = prop_oneof![
            1 => Just(End::CleanDestinationFirst),
            1 => Just(End::CleanClientFirst),
            2 => (0u8..4).prop_map(End::DestinationReadError),
            2 => (0u8..4).prop_map(End::DestinationWriteError),
            1 => Just(End::ClientReset),
        ];
        (any::<bool>(), prop::collection::vec(step, 0..=6), end, prop_oneof![Just(4u8), Just(64u8)])
            .prop_map(|(h2, steps, end, transport_kib)| Case { h2, steps, end, transport_kib })
            .boxed()
    }
    fn cases(&self, tier: Tier) -> u64 {
        tier.pick(4_000, 80_000)
    }
    fn classify(&self, c: &Case) -> Vec<&'static str> {
        let mut v = vec![if c.h2 { "h2" } else { "h1" }];
        let both = c.steps.iter().any(|s| matches!(s, Step::Up(_))) && c.steps.iter().any(|s| matches!(s, Step::Down(_)));
        match c.end {
            End::CleanDestinationFirst | End::CleanClientFirst => {
                v.push("clean-end");
                if both {
                    v.push("nontrivial");
                }
            }
            End::DestinationReadError(_) => v.extend(["destination-read-error", "nontrivial"]),
            End::DestinationWriteError(_) => v.extend(["destination-write-error", "nontrivial"]),
            End::ClientReset => v.extend(["client-reset", "nontrivial"]),
        }
        v
    }
    fn required_classes(&self) -> Vec<&'static str> {
        vec!["nontrivial", "h1", "h2", "clean-end", "destination-read-error", "destination-write-error", "client-reset"]
    }
    fn check(&self, c: &Case) -> Verdict {
        let c = c.clone();
        let debug = std::env::var("VERIF_DEBUG").is_ok();
        if debug {
            crate::engine::logcap::start();
        }
        let r = aio::block_on_paused(async move {
            aio::skew_clock().await;
            let spec = CoreSpec { tcp_timeout: Duration::from_secs(600), ..CoreSpec::default() };
            let world = spec.build().map_err(|e| herr("core", e))?;
            let scripted = Scripted::new(|_| Outcome::Silent);
            let _g = scripted.install(&world);
            let proto = if c.h2 { "h2" } else { "h1" };
            let (io, rec, _srv) = world.serve_recorded(if c.h2 { Proto::Http2 } else { Proto::Http1 }, ChannelView::Tunnel, "main.x", crate::engine::world::peer_v4(), c.transport_kib as usize * 1024);
            let auth = format!("Basic {}", b64("user:pass"));
            enum Cli {
                H1(tokio::io::ReadHalf<tokio::io::DuplexStream>, tokio::io::WriteHalf<tokio::io::DuplexStream>),
                H2(h2::RecvStream, h2::SendStream<Bytes>, h2::client::SendRequest<Bytes>, tokio::task::JoinHandle<()>),
            }
            let sniff: std::sync::Arc<std::sync::Mutex<Vec<u8>>> = Default::default();
            let mut cli = if c.h2 {
                let io = crate::props::c19sess::Tee { inner: io, rec: sniff.clone() };
                let (send, conn) = h2::client::handshake(io).await.map_err(|e| herr("h2", e))?;
                let conn = tokio::spawn(async move {
                    let _ = conn.await;
                });
                let req = http::Request::builder().method("CONNECT").uri("dest.example:443").header("proxy-authorization", auth.as_str()).body(()).unwrap();
                let mut sr = send.ready().await.map_err(|e| herr("h2", e))?;
                let (fut, stream) = sr.send_request(req, false).map_err(|e| herr("h2", e))?;
                let resp = tokio::time::timeout(Duration::from_secs(5), fut).await.map_err(|_| herr("h2", "no response"))?.map_err(|e| herr("h2", e))?;
                ensure!(resp.status() == 200, "harness:connect", "CONNECT answered {}", resp.status());
                Cli::H2(resp.into_body(), stream, sr, conn)
            } else {
                let (mut rd, mut wr) = tokio::io::split(io);
                let head = format!("CONNECT dest.example:443 HTTP/1.1\r\nHost: dest.example:443\r\nProxy-Authorization: {}\r\n\r\n", auth);
                wr.write_all(head.as_bytes()).await.map_err(|e| herr("io", e))?;
                let mut headbuf = vec![];
                let mut b = [0u8; 1];
                while !headbuf.ends_with(b"\r\n\r\n") {
                    match tokio::time::timeout(Duration::from_secs(5), rd.read(&mut b)).await {
                        Ok(Ok(1)) => headbuf.push(b[0]),
                        _ => return viol("harness:connect", "no response head"),
                    }
                }
                ensure!(headbuf.starts_with(b"HTTP/1.1 200"), "harness:connect", "CONNECT answered {:?}", String::from_utf8_lossy(&headbuf));
                Cli::H1(rd, wr)
            };
            let Some((_, origin)) = scripted.peers.lock().unwrap().first().cloned() else {
                return viol("harness:connect", "no destination");
            };

            // ---- client-side primitives
            async fn cli_send(cli: &mut Cli, data: &[u8]) -> Result<(), String> {
                match cli {
                    Cli::H1(_, wr) => tokio::time::timeout(Duration::from_secs(20), wr.write_all(data)).await.map_err(|_| "write stalled".to_string())?.map_err(|e| e.to_string()),
                    Cli::H2(_, stream, _, _) => {
                        let mut off = 0;
                        while off < data.len() {
                            stream.reserve_capacity(data.len() - off);
                            let cap = tokio::time::timeout(Duration::from_secs(20), futures::future::poll_fn(|cx| stream.poll_capacity(cx))).await;
                            let Ok(Some(Ok(cap))) = cap else { return Err("no send capacity".into()) };
                            let n = cap.min(data.len() - off);
                            stream.send_data(Bytes::copy_from_slice(&data[off..off + n]), false).map_err(|e| e.to_string())?;
                            off += n;
                        }
                        Ok(())
                    }
                }
            }
            /// read until `want` bytes arrived, the stream ended, or `limit` passed
            async fn cli_recv(cli: &mut Cli, want: usize, limit: Duration) -> (Vec<u8>, ClientEnd) {
                let mut got = vec![];
                let deadline = tokio::time::Instant::now() + limit;
                loop {
                    if want > 0 && got.len() >= want {
                        return (got, ClientEnd::Nothing);
                    }
                    match cli {
                        Cli::H1(rd, _) => {
                            let mut buf = vec![0u8; 16384];
                            let room = if want > 0 { (want - got.len()).min(buf.len()) } else { buf.len() };
                            match tokio::time::timeout_at(deadline, rd.read(&mut buf[..room])).await {
                                Err(_) => return (got, ClientEnd::Nothing),
                                Ok(Ok(0)) => return (got, ClientEnd::Clean), // refined by the transport record
                                Ok(Ok(n)) => got.extend_from_slice(&buf[..n]),
                                Ok(Err(e)) => return (got, ClientEnd::Failure(e.to_string())),
                            }
                        }
                        Cli::H2(body, _, _, _) => match tokio::time::timeout_at(deadline, body.data()).await {
                            Err(_) => return (got, ClientEnd::Nothing),
                            Ok(None) => return (got, ClientEnd::Clean),
                            Ok(Some(Ok(b))) => {
                                let _ = body.flow_control().release_capacity(b.len());
                                got.extend_from_slice(&b);
                            }
                            Ok(Some(Err(e))) => return (got, ClientEnd::Failure(e.to_string())),
                        },
                    }
                }
            }

            // ---- the transfers
            let (mut up_off, mut down_off) = (0usize, 0usize);
            for (i, s) in c.steps.iter().enumerate() {
                match *s {
                    Step::Up(n) => {
                        let data = pat(0x5a, up_off, n as usize);
                        cli_send(&mut cli, &data).await.map_err(|e| herr("upload", e))?;
                        up_off += n as usize;
                        let mut ok = false;
                        for _ in 0..1000 {
                            if origin.received.lock().unwrap().len() >= up_off {
                                ok = true;
                                break;
                            }
                            tokio::time::sleep(Duration::from_millis(5)).await;
                        }
                        let got = origin.received.lock().unwrap().clone();
                        ensure!(ok && got == pat(0x5a, 0, up_off), "tunnel:upload-differs", "{} step {} ({:?}): the destination has {} bytes, the client sent {}; equal prefix: {}", proto, i, s, got.len(), up_off, got.iter().zip(pat(0x5a, 0, up_off)).take_while(|(a, b)| *a == b).count());
                    }
                    Step::Down(n) => {
                        let data = pat(0xa5, down_off, n as usize);
                        let _ = origin.to_client.send(PeerMsg::Data(Bytes::from(data.clone())));
                        down_off += n as usize;
                        let (got, end) = cli_recv(&mut cli, n as usize, Duration::from_secs(5)).await;
                        ensure!(got == data, "tunnel:download-differs", "{} step {} ({:?}): the client received {} of {} bytes (end: {:?}); equal prefix: {}", proto, i, s, got.len(), n, end, got.iter().zip(&data).take_while(|(a, b)| a == b).count());
                    }
                }
            }

            // ---- the end
            let what = format!("{} tunnel after {:?}, end {:?}", proto, c.steps, c.end);
            // HTTP/2 frames the endpoint sent (type/flags/stream), for the messages
            let frames = || -> String {
                let b = sniff.lock().unwrap().clone();
                let mut p = 0;
                let mut out = vec![];
                while p + 9 <= b.len() {
                    let len = ((b[p] as usize) << 16) | ((b[p + 1] as usize) << 8) | b[p + 2] as usize;
                    let name = match b[p + 3] { 0 => "DATA", 1 => "HEADERS", 3 => "RST_STREAM", 4 => "SETTINGS", 6 => "PING", 7 => "GOAWAY", 8 => "WINDOW_UPDATE", _ => "?" };
                    let code = if b[p + 3] == 3 && p + 13 <= b.len() { format!(" code {}", u32::from_be_bytes([b[p + 9], b[p + 10], b[p + 11], b[p + 12]])) } else { String::new() };
                    out.push(format!("{}[len {} flags {:#x} stream {}{}]", name, len, b[p + 4], u32::from_be_bytes([b[p + 5] & 0x7f, b[p + 6], b[p + 7], b[p + 8]]), code));
                    p += 9 + len;
                }
                if out.len() > 12 {
                    out.drain(..out.len() - 12);
                }
                out.join(" ")
            };
            let client_end = |end: ClientEnd, rec: &crate::engine::world::TransportRecord, h2: bool| -> ClientEnd {
                // on h1 the client's read returns 0 in both cases; what TLS would tell it is
                // whether the endpoint shut the transport down before dropping it
                match end {
                    ClientEnd::Clean if !h2 && !rec.shut_down.load(Ordering::SeqCst) => ClientEnd::Failure("transport dropped without an orderly shutdown".into()),
                    e => e,
                }
            };
            match c.end {
                End::CleanDestinationFirst | End::CleanClientFirst => {
                    let dest_first = c.end == End::CleanDestinationFirst;
                    if dest_first {
                        let _ = origin.to_client.send(PeerMsg::Eof);
                    } else {
                        match &mut cli {
                            Cli::H1(_, wr) => {
                                let _ = wr.shutdown().await;
                            }
                            Cli::H2(_, stream, _, _) => {
                                let _ = stream.send_data(Bytes::new(), true);
                            }
                        }
                        let mut seen = false;
                        for _ in 0..1000 {
                            if origin.eof_seen.load(Ordering::SeqCst) {
                                seen = true;
                                break;
                            }
                            tokio::time::sleep(Duration::from_millis(5)).await;
                        }
                        ensure!(seen, "tunnel:client-eof-not-passed-on", "{}: the destination saw no end of stream within 5 s after the client had ended its direction", what);
                        let _ = origin.to_client.send(PeerMsg::Eof);
                    }
                    let (extra, end) = cli_recv(&mut cli, 0, Duration::from_secs(5)).await;
                    // let the endpoint finish the shutdown it may have started
                    tokio::time::sleep(Duration::from_millis(50)).await;
                    let end = client_end(end, &rec, c.h2);
                    ensure!(extra.is_empty(), "tunnel:bytes-after-the-end", "{}: {} unexpected bytes before the end", what, extra.len());
                    ensure!(end == ClientEnd::Clean, "tunnel:clean-end-not-clean", "{}: both directions ended in an orderly way, the client saw {:?}; frames from the endpoint: {}", what, end, frames());
                    if dest_first {
                        match &mut cli {
                            Cli::H1(_, wr) => {
                                // an HTTP/1.1 tunnel is closed as a whole when the destination ends
                                let _ = wr.shutdown().await;
                            }
                            Cli::H2(..) => {
                                // the destination has only closed its sending side: what the client
                                // still sends must arrive, and its END_STREAM after it
                                let tail = 1 + (down_off + 7 * up_off) % 3000;
                                cli_send(&mut cli, &pat(0x5a, up_off, tail)).await.map_err(|e| Violation {
                                    sig: "tunnel:upload-cut-by-destination-eof".into(),
                                    msg: format!("{}: after the destination's end of stream the client cannot send any more: {}; frames from the endpoint: {}", what, e, frames()),
                                })?;
                                up_off += tail;
                                if let Cli::H2(_, stream, _, _) = &mut cli {
                                    let _ = stream.send_data(Bytes::new(), true);
                                }
                                for _ in 0..1000 {
                                    if origin.eof_seen.load(Ordering::SeqCst) {
                                        break;
                                    }
                                    tokio::time::sleep(Duration::from_millis(5)).await;
                                }
                                ensure!(origin.eof_seen.load(Ordering::SeqCst), "tunnel:client-eof-not-passed-on", "{}: the destination saw no end of stream within 5 s after the client had ended its direction (the destination had ended its own before)", what);
                            }
                        }
                    }
                    let got = origin.received.lock().unwrap().clone();
                    ensure!(got == pat(0x5a, 0, up_off), "tunnel:upload-differs", "{}: the destination has {} of {} upload bytes at the end", what, got.len(), up_off);
                }
                End::DestinationReadError(k) | End::DestinationWriteError(k) => {
                    let kind = ERRORS[k as usize % ERRORS.len()];
                    if matches!(c.end, End::DestinationReadError(_)) {
                        let _ = origin.to_client.send(PeerMsg::Err(kind));
                    } else {
                        *origin.fail_write.lock().unwrap() = Some(kind);
                        // the failure happens when the tunnel writes the next upload bytes
                        let _ = cli_send(&mut cli, &pat(0x5a, up_off, 700)).await;
                    }
                    let (_, end) = cli_recv(&mut cli, 0, Duration::from_secs(5)).await;
                    tokio::time::sleep(Duration::from_millis(50)).await;
                    let end = client_end(end, &rec, c.h2);
                    ensure!(end != ClientEnd::Nothing, "tunnel:failure-stalls-the-client", "{}: 5 s after the destination socket failed with {:?} the client still waits", what, kind);
                    ensure!(
                        matches!(end, ClientEnd::Failure(_)),
                        "tunnel:failure-reported-as-clean-end",
                        "{}: the destination socket failed with {:?}, yet the client was told that the stream ended in an orderly way ({}): a truncated download looks complete",
                        what,
                        kind,
                        if c.h2 { "END_STREAM" } else { "orderly transport shutdown" }
                    );
                    let mut released = false;
                    for _ in 0..1000 {
                        if origin.sink_dropped.load(Ordering::SeqCst) && origin.source_dropped.load(Ordering::SeqCst) {
                            released = true;
                            break;
                        }
                        tokio::time::sleep(Duration::from_millis(5)).await;
                    }
                    ensure!(released, "tunnel:not-torn-down", "{}: 5 s after the failure the destination connection is still held (sink dropped {}, source dropped {})", what, origin.sink_dropped.load(Ordering::SeqCst), origin.source_dropped.load(Ordering::SeqCst));
                }
                End::ClientReset => {
                    match &mut cli {
                        Cli::H1(_, wr) => {
                            rec.reset_reads.store(true, Ordering::SeqCst);
                            let _ = wr.write_all(b"x").await;
                        }
                        Cli::H2(_, stream, _, _) => stream.send_reset(h2::Reason::CANCEL),
                    }
                    if !c.h2 {
                        // An HTTP/1.1 tunnel passes the loss of the client connection on as an end of
                        // the upload (at the TCP level closing the socket looks the same) and lets go
                        // of the destination when that one ends too (or the idle timer fires, C14).
                        tokio::time::sleep(Duration::from_millis(200)).await;
                        let _ = origin.to_client.send(PeerMsg::Eof);
                    }
                    let mut released = false;
                    for _ in 0..1000 {
                        if origin.sink_dropped.load(Ordering::SeqCst) && origin.source_dropped.load(Ordering::SeqCst) {
                            released = true;
                            break;
                        }
                        tokio::time::sleep(Duration::from_millis(5)).await;
                    }
                    ensure!(released, "tunnel:not-torn-down", "{}: 5 s after the client's reset (h1: and the destination's end) the destination connection is still held (sink dropped {}, source dropped {})", what, origin.sink_dropped.load(Ordering::SeqCst), origin.source_dropped.load(Ordering::SeqCst));
                }
            }
            if let Cli::H2(_, _, _, conn) = &cli {
                conn.abort();
            }
            Ok(())
        });
        if debug {
            for l in crate::engine::logcap::stop() {
                eprintln!("LOG {}", l);
            }
        }
        r
    }
}
