//! C02, "... regardless of how either side chunks, delays or back-pressures the stream": a stalled
//! direction of a real HTTP/1.1 or HTTP/2 tunnel is parked with an unsent remainder when the idle
//! timer of the tunnel fires (the other direction moved a little in between, so the tunnel is not
//! idle); the copy loops are restarted and nothing may be lost, duplicated or reordered.

use crate::engine::world::{CoreSpec, Outcome, PeerMsg, Scripted};
use crate::engine::{aio, viol, Suite, Tier, Verdict, Violation};
use crate::ensure;
use crate::props::tunnelreq::b64;
use bytes::Bytes;
use proptest::prelude::*;
use serde::{Deserialize, Serialize};
use std::time::Duration;
use tokio::io::{AsyncReadExt, AsyncWriteExt};
use trusttunnel::verif::session::{ChannelView, Proto};

#[derive(Serialize, Deserialize, Debug, Clone)]
pub struct Case {
    pub h2: bool,
    /// true: the client stalls (download parked); false: the destination stalls (upload parked)
    pub client_stalls: bool,
    /// pieces of the stalled direction, one every 300 ms
    pub pieces: Vec<u16>,
    /// the stalled side resumes this long after the first piece (idle timeout 1000 ms)
    pub resume_ms: u16,
    /// client transport buffer (HTTP/1.1) in bytes
    pub transport: u16,
}

fn pat(tag: u8, n: usize) -> Vec<u8> {
    (0..n).map(|i| ((i * 5 + (i >> 7)) as u8) ^ tag).collect()
}

fn herr(what: &str, e: impl std::fmt::Display) -> Violation {
    Violation { sig: format!("harness:{}", what), msg: e.to_string() }
}

pub struct TickSuite;

impl Suite for TickSuite {
    type Case = Case;
    fn name(&self) -> &'static str {
        "session-stall-across-idle-tick"
    }
    fn rule(&self) -> String {
        "a CONNECT tunnel on a real HTTP/1.1 or HTTP/2 session in memory (virtual clock, idle timeout 1 s) to a scripted destination; one direction carries 3-5 pieces of 2500-6000 bytes, one every 300 ms, towards a receiver that takes nothing for 1100-1500 ms (client: small transport / 4 KiB HTTP/2 window not reopened; destination: refuses writes), so that direction is parked with an unsent remainder; the opposite direction carries a single byte at 500 ms, so the tunnel is not idle when the 1 s timers fire and the copy loops are restarted; then the receiver resumes; oracle: every byte of both directions arrives exactly once and in order within 5 s of the resumption; non-trivial = every case".into()
    }
    fn strategy(&self, _: Tier) -> BoxedStrategy<Case> {
        (any::<bool>(), any::<bool>(), prop::collection::vec(2500u16..6000, 3..=5), 1100u16..1500, 1024u16..3072)
            .prop_map(|(h2, client_stalls, pieces, resume_ms, transport)| Case { h2, client_stalls, pieces, resume_ms, transport })
            .boxed()
    }
    fn cases(&self, tier: Tier) -> u64 {
        tier.pick(3_200, 64_000)
    }
    fn classify(&self, c: &Case) -> Vec<&'static str> {
        vec!["nontrivial", if c.h2 { "h2" } else { "h1" }, if c.client_stalls { "download-parked" } else { "upload-parked" }]
    }
    fn required_classes(&self) -> Vec<&'static str> {
        vec!["nontrivial", "h1", "h2", "download-parked", "upload-parked"]
    }
    fn check(&self, c: &Case) -> Verdict {
        let c = c.clone();
        aio::block_on_paused(async move {
            aio::skew_clock().await;
            let spec = CoreSpec { tcp_timeout: Duration::from_secs(1), ..CoreSpec::default() };
            let world = spec.build().map_err(|e| herr("core", e))?;
            let scripted = Scripted::new(|_| Outcome::Silent);
            let _g = scripted.install(&world);
            let buf = if c.h2 { 1 << 20 } else { c.transport as usize };
            let (io, _srv) = world.serve(if c.h2 { Proto::Http2 } else { Proto::Http1 }, ChannelView::Tunnel, "main.x", None, crate::engine::world::peer_v4(), buf);
            let auth = format!("Basic {}", b64("user:pass"));
            enum Cli {
                H1(tokio::io::ReadHalf<tokio::io::DuplexStream>, tokio::io::WriteHalf<tokio::io::DuplexStream>),
                H2(h2::RecvStream, h2::SendStream<Bytes>, h2::client::SendRequest<Bytes>, tokio::task::JoinHandle<()>),
            }
            let mut cli = if c.h2 {
                let (send, conn) = h2::client::Builder::new().initial_window_size(4096).handshake::<_, Bytes>(io).await.map_err(|e| herr("h2", e))?;
                let conn = tokio::spawn(async move {
                    let _ = conn.await;
                });
                let req = http::Request::builder().method("CONNECT").uri("dest.example:443").header("proxy-authorization", auth.as_str()).body(()).unwrap();
                let mut sr = send.ready().await.map_err(|e| herr("h2", e))?;
                let (fut, stream) = sr.send_request(req, false).map_err(|e| herr("h2", e))?;
                let resp = tokio::time::timeout(Duration::from_secs(5), fut).await.map_err(|_| herr("h2", "no response"))?.map_err(|e| herr("h2", e))?;
                ensure!(resp.status() == 200, "harness:connect", "CONNECT answered {}", resp.status());
                Cli::H2(resp.into_body(), stream, sr, conn)
            } else {
                let (mut rd, mut wr) = tokio::io::split(io);
                let head = format!("CONNECT dest.example:443 HTTP/1.1\r\nHost: dest.example:443\r\nProxy-Authorization: {}\r\n\r\n", auth);
                wr.write_all(head.as_bytes()).await.map_err(|e| herr("io", e))?;
                let mut headbuf = vec![];
                let mut b = [0u8; 1];
                while !headbuf.ends_with(b"\r\n\r\n") {
                    match tokio::time::timeout(Duration::from_secs(5), rd.read(&mut b)).await {
                        Ok(Ok(1)) => headbuf.push(b[0]),
                        _ => return viol("harness:connect", "no response head"),
                    }
                }
                ensure!(headbuf.starts_with(b"HTTP/1.1 200"), "harness:connect", "CONNECT answered {:?}", String::from_utf8_lossy(&headbuf));
                Cli::H1(rd, wr)
            };
            let Some((_, origin)) = scripted.peers.lock().unwrap().first().cloned() else {
                return viol("harness:connect", "no destination");
            };
            let total: usize = c.pieces.iter().map(|p| *p as usize).sum();
            let data = pat(0x6b, total);
            let what = format!(
                "{} tunnel, {} of {} bytes in pieces {:?} (one every 300 ms) towards a receiver that resumes after {} ms, idle timeout 1000 ms{}",
                if c.h2 { "h2" } else { "h1" },
                if c.client_stalls { "download" } else { "upload" },
                total,
                c.pieces,
                c.resume_ms,
                if c.h2 { String::new() } else { format!(", client transport {} bytes", c.transport) }
            );
            let t0 = tokio::time::Instant::now();

            async fn cli_send(cli: &mut Cli, data: &[u8]) -> Result<(), String> {
                match cli {
                    Cli::H1(_, wr) => tokio::time::timeout(Duration::from_secs(20), wr.write_all(data)).await.map_err(|_| "write stalled".to_string())?.map_err(|e| e.to_string()),
                    Cli::H2(_, stream, _, _) => {
                        let mut off = 0;
                        while off < data.len() {
                            stream.reserve_capacity(data.len() - off);
                            let cap = tokio::time::timeout(Duration::from_secs(20), futures::future::poll_fn(|cx| stream.poll_capacity(cx))).await;
                            let Ok(Some(Ok(cap))) = cap else { return Err("no send capacity".into()) };
                            let n = cap.min(data.len() - off);
                            stream.send_data(Bytes::copy_from_slice(&data[off..off + n]), false).map_err(|e| e.to_string())?;
                            off += n;
                        }
                        Ok(())
                    }
                }
            }
            /// read `want` bytes from the tunnel (releasing HTTP/2 capacity as they come)
            async fn cli_recv(cli: &mut Cli, want: usize, limit: Duration) -> (Vec<u8>, String) {
                let mut got = vec![];
                let deadline = tokio::time::Instant::now() + limit;
                while got.len() < want {
                    match cli {
                        Cli::H1(rd, _) => {
                            let mut buf = vec![0u8; 8192];
                            let room = (want - got.len()).min(buf.len());
                            match tokio::time::timeout_at(deadline, rd.read(&mut buf[..room])).await {
                                Err(_) => return (got, "nothing more before the deadline".into()),
                                Ok(Ok(0)) => return (got, "the connection ended".into()),
                                Ok(Ok(n)) => got.extend_from_slice(&buf[..n]),
                                Ok(Err(e)) => return (got, e.to_string()),
                            }
                        }
                        Cli::H2(body, _, _, _) => match tokio::time::timeout_at(deadline, body.data()).await {
                            Err(_) => return (got, "nothing more before the deadline".into()),
                            Ok(None) => return (got, "the stream ended".into()),
                            Ok(Some(Ok(b))) => {
                                let _ = body.flow_control().release_capacity(b.len());
                                got.extend_from_slice(&b);
                            }
                            Ok(Some(Err(e))) => return (got, e.to_string()),
                        },
                    }
                }
                (got, "complete".into())
            }

            if c.client_stalls {
                // destination -> client, the client reads nothing until resume_ms
                let o2 = origin.clone();
                let pieces = c.pieces.clone();
                let d2 = data.clone();
                let feeder = tokio::spawn(async move {
                    let mut off = 0;
                    for (k, p) in pieces.iter().enumerate() {
                        if k > 0 {
                            tokio::time::sleep(Duration::from_millis(300)).await;
                        }
                        let _ = o2.to_client.send(PeerMsg::Data(Bytes::copy_from_slice(&d2[off..off + *p as usize])));
                        off += *p as usize;
                    }
                });
                // the other direction moves a little: the tunnel is not idle at the tick
                tokio::time::sleep_until(t0 + Duration::from_millis(500)).await;
                cli_send(&mut cli, b"u").await.map_err(|e| herr("upload", e))?;
                tokio::time::sleep_until(t0 + Duration::from_millis(c.resume_ms as u64)).await;
                let (got, end) = cli_recv(&mut cli, total, Duration::from_secs(5)).await;
                let _ = feeder.await;
                let same = got.iter().zip(&data).take_while(|(a, b)| a == b).count();
                ensure!(
                    got == data,
                    if got.len() < total && same == got.len() { "tunnel:download-truncated" } else { "tunnel:download-differs" },
                    "{}: the client has {} of {} bytes, equal up to offset {} ({})",
                    what,
                    got.len(),
                    total,
                    same,
                    end
                );
                let up = origin.received.lock().unwrap().clone();
                ensure!(up == b"u", "tunnel:upload-differs", "{}: the destination received {:?} instead of the one byte the client sent", what, String::from_utf8_lossy(&up[..up.len().min(20)]));
            } else {
                // client -> destination, the destination takes nothing until resume_ms
                origin.set_accepting(false);
                let sent_all = {
                    let mut off = 0;
                    let mut ok = true;
                    for (k, p) in c.pieces.iter().enumerate() {
                        if k > 0 {
                            tokio::time::sleep_until(t0 + Duration::from_millis(300 * k as u64)).await;
                        }
                        // a piece that does not fit the queues any more is written in the background
                        let piece = data[off..off + *p as usize].to_vec();
                        off += *p as usize;
                        match tokio::time::timeout(Duration::from_millis(50), cli_send(&mut cli, &piece)).await {
                            Ok(Ok(())) => {}
                            Ok(Err(e)) => return Err(herr("upload", e)),
                            Err(_) => {
                                // the queues are full: the rest of this piece and the following ones
                                // cannot be handed over while the harness also has to act; stop here
                                ok = false;
                                break;
                            }
                        }
                        if k == 1 {
                            tokio::time::sleep_until(t0 + Duration::from_millis(500)).await;
                            let _ = origin.to_client.send(PeerMsg::Data(Bytes::from_static(b"d")));
                            let (d, _) = cli_recv(&mut cli, 1, Duration::from_secs(2)).await;
                            ensure!(d == b"d", "tunnel:download-differs", "{}: the single download byte did not arrive", what);
                        }
                    }
                    ok
                };
                if !sent_all {
                    crate::engine::bump("upload-did-not-fit-the-queues", 1);
                    return Ok(());
                }
                tokio::time::sleep_until(t0 + Duration::from_millis(c.resume_ms as u64)).await;
                origin.set_accepting(true);
                let mut up = vec![];
                for _ in 0..1000 {
                    up = origin.received.lock().unwrap().clone();
                    if up.len() >= total {
                        break;
                    }
                    tokio::time::sleep(Duration::from_millis(5)).await;
                }
                let same = up.iter().zip(&data).take_while(|(a, b)| a == b).count();
                ensure!(
                    up == data,
                    if up.len() < total && same == up.len() { "tunnel:upload-truncated" } else { "tunnel:upload-differs" },
                    "{}: 5 s after it accepted again the destination has {} of {} bytes, equal up to offset {}",
                    what,
                    up.len(),
                    total,
                    same
                );
            }
            if let Cli::H2(_, _, _, conn) = &cli {
                conn.abort();
            }
            Ok(())
        })
    }
}
