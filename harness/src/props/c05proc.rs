//! C05 at process level: hot reload of the TLS hosts by SIGHUP on the real endpoint binary.

use crate::engine::networld::client_conn;
use crate::engine::proc::{self, Start};
use crate::engine::world::cert_path;
use crate::engine::{aio, viol, Suite, Tier, Verdict};
use crate::ensure;
use crate::props::c05::leaf_of;
use proptest::prelude::*;
use serde::{Deserialize, Serialize};
use std::time::Duration;
use tokio::io::{AsyncReadExt, AsyncWriteExt};

#[derive(Serialize, Deserialize, Debug, Clone, PartialEq)]
pub enum Reload {
    /// main host served with certificate #k, plus `extra` further hosts
    Valid { cert: u8, extra: u8 },
    /// 0 text that is not TOML, 1 certificate file missing, 2 a host name twice, 3 key file that is not a key, 4 empty file
    Invalid(u8),
}

#[derive(Serialize, Deserialize, Debug, Clone)]
pub struct Case {
    pub initial_cert: u8,
    pub reloads: Vec<Reload>,
}

fn hosts_doc(cert: u8, extra: u8) -> String {
    let c = cert_path(cert as usize % 6);
    let mut s = format!("[[main_hosts]]\nhostname = \"main.x\"\ncert_chain_path = \"{0}\"\nprivate_key_path = \"{0}\"\n\n", c);
    for i in 0..extra % 3 {
        let c = cert_path((cert as usize + 1 + i as usize) % 6);
        s.push_str(&format!("[[ping_hosts]]\nhostname = \"ping{}.x\"\ncert_chain_path = \"{1}\"\nprivate_key_path = \"{1}\"\n\n", i, c));
    }
    s
}

fn broken_doc(kind: u8, garbage: &str) -> String {
    let good = cert_path(0);
    match kind % 5 {
        0 => "[[main_hosts]\nhostname = ".to_string(),
        1 => "[[main_hosts]]\nhostname = \"main.x\"\ncert_chain_path = \"/nonexistent/cert.pem\"\nprivate_key_path = \"/nonexistent/cert.pem\"\n".to_string(),
        2 => format!("[[main_hosts]]\nhostname = \"main.x\"\ncert_chain_path = \"{0}\"\nprivate_key_path = \"{0}\"\n\n[[ping_hosts]]\nhostname = \"main.x\"\ncert_chain_path = \"{0}\"\nprivate_key_path = \"{0}\"\n", good),
        3 => format!("[[main_hosts]]\nhostname = \"main.x\"\ncert_chain_path = \"{}\"\nprivate_key_path = \"{}\"\n", good, garbage),
        _ => String::new(),
    }
}

/// TLS handshake for `main.x`; the leaf certificate the endpoint serves
async fn served_leaf(addr: std::net::SocketAddr) -> Result<Vec<u8>, String> {
    let mut sock = tokio::net::TcpStream::connect(addr).await.map_err(|e| format!("connect: {}", e))?;
    let (mut conn, verifier) = client_conn(Some("main.x"), &[b"http/1.1".to_vec()]);
    let mut buf = vec![0u8; 16384];
    let deadline = tokio::time::Instant::now() + Duration::from_secs(4);
    loop {
        while conn.wants_write() {
            let mut out = vec![];
            conn.write_tls(&mut out).map_err(|e| e.to_string())?;
            sock.write_all(&out).await.map_err(|e| e.to_string())?;
        }
        if !conn.is_handshaking() {
            break;
        }
        match tokio::time::timeout_at(deadline, sock.read(&mut buf)).await {
            Ok(Ok(n)) if n > 0 => {
                let mut rd = &buf[..n];
                while !rd.is_empty() {
                    if conn.read_tls(&mut rd).map_err(|e| e.to_string())? == 0 {
                        break;
                    }
                    conn.process_new_packets().map_err(|e| e.to_string())?;
                }
            }
            other => return Err(format!("handshake interrupted: {:?}", other.map(|r| r.map(|_| ())))),
        }
    }
    let leaf = verifier.0.lock().unwrap().clone().unwrap_or_default();
    Ok(leaf)
}

pub struct ReloadSuite;

impl Suite for ReloadSuite {
    type Case = Case;
    fn name(&self) -> &'static str {
        "process-reload"
    }
    fn rule(&self) -> String {
        "the real endpoint binary on a loopback port; 1-4 times its TLS hosts file is rewritten - with a valid configuration (another certificate for the main host, 0-2 further hosts) or a broken one (not TOML, missing certificate file, duplicate host name, key file that is not a key, empty file) - and SIGHUP is sent; after every reload a fresh TLS connection for the main host is made; oracle: the process is still running and serves the certificate of the last valid configuration (the initial one if none was valid yet); non-trivial = a broken reload followed by a connection".into()
    }
    fn strategy(&self, _: Tier) -> BoxedStrategy<Case> {
        let r = prop_oneof![3 => (0u8..6, 0u8..3).prop_map(|(cert, extra)| Reload::Valid { cert, extra }), 2 => (0u8..5).prop_map(Reload::Invalid)];
        (0u8..6, prop::collection::vec(r, 1..=4)).prop_map(|(initial_cert, reloads)| Case { initial_cert, reloads }).boxed()
    }
    fn cases(&self, tier: Tier) -> u64 {
        tier.pick(96, 2400)
    }
    fn classify(&self, c: &Case) -> Vec<&'static str> {
        let mut v = vec![];
        if c.reloads.iter().any(|r| matches!(r, Reload::Invalid(_))) {
            v.push("failed-reload");
            v.push("nontrivial");
        }
        if c.reloads.iter().any(|r| matches!(r, Reload::Valid { .. })) {
            v.push("valid-reload");
        }
        v
    }
    fn required_classes(&self) -> Vec<&'static str> {
        vec!["nontrivial", "failed-reload", "valid-reload"]
    }
    fn check(&self, c: &Case) -> Verdict {
        let c = c.clone();
        let settings = "listen_address = \"@LISTEN@\"\ncredentials_file = \"@CRED@\"\n[listen_protocols]\n[listen_protocols.http1]\n[listen_protocols.http2]\n";
        let mut ep = match proc::start(settings, &hosts_doc(c.initial_cert, 0), "[[client]]\nusername = \"user\"\npassword = \"pass\"\n", Duration::from_secs(10), "info") {
            Start::Up(e) => e,
            Start::Exited(st, out) => return viol("harness:endpoint-did-not-start", format!("{:?} {}", st, out)),
            Start::Failed(e) => return viol("harness:endpoint-did-not-start", e),
        };
        let Some(hosts_path) = ep.hosts_path.clone() else { return viol("harness:endpoint", "no hosts path") };
        let garbage = crate::props::c04::TempFile::new("reload-garbage", "this is not a key\n");
        let addr = ep.addr;
        let mut current = c.initial_cert;
        for (step, r) in c.reloads.iter().enumerate() {
            let doc = match r {
                Reload::Valid { cert, extra } => hosts_doc(*cert, *extra),
                Reload::Invalid(k) => broken_doc(*k, &garbage.path()),
            };
            if let Err(e) = std::fs::write(&hosts_path, doc) {
                return viol("harness:write", e.to_string());
            }
            ep.signal(libc::SIGHUP);
            std::thread::sleep(Duration::from_millis(150));
            if let Reload::Valid { cert, .. } = r {
                current = *cert;
            }
            let what = format!("after reload #{} ({:?}) of {:?} (initial certificate #{})", step, r, c.reloads, c.initial_cert);
            if let Some(st) = ep.exited() {
                return viol(
                    "reload:failed-reload-ends-the-process",
                    format!("{}: the endpoint is gone ({:?}) instead of keeping the previous configuration in force: {}", what, st, ep.log_text().lines().rev().take(3).collect::<Vec<_>>().join(" | ")),
                );
            }
            let leaf = aio::block_on_real(async move { served_leaf(addr).await });
            match leaf {
                Err(e) => {
                    if let Some(st) = ep.exited() {
                        return viol("reload:failed-reload-ends-the-process", format!("{}: the endpoint is gone ({:?})", what, st));
                    }
                    return viol("reload:not-serving", format!("{}: TLS connection for the main host failed: {}", what, e));
                }
                Ok(leaf) => {
                    ensure!(
                        leaf == leaf_of(current % 6),
                        if matches!(r, Reload::Valid { .. }) { "reload:new-configuration-not-in-force" } else { "reload:failed-reload-changed-the-configuration" },
                        "{}: the served certificate is not the one of the configuration in force (#{})",
                        what,
                        current % 6
                    );
                }
            }
        }
        Ok(())
    }
}
