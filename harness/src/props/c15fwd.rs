//! C15 end to end: real tunnel sessions whose endpoint forwards through a SOCKS5 proxy played by
//! the harness on a loopback TCP socket (the real `Socks5Forwarder`, real dial, real dialogue).

use crate::engine::world::{parse_h1_response, CoreSpec};
use crate::engine::{aio, idx, viol, Suite, Tier, Verdict};
use crate::ensure;
use crate::props::tunnelreq::b64;
use proptest::prelude::*;
use serde::{Deserialize, Serialize};
use std::net::{Ipv4Addr, Ipv6Addr};
use std::sync::{Arc, Mutex};
use std::time::Duration;
use tokio::io::{AsyncReadExt, AsyncWriteExt};
use tokio::net::TcpListener;
use trusttunnel::verif::session::{ChannelView, Proto};

#[derive(Serialize, Deserialize, Debug, Clone, PartialEq)]
pub enum Dest {
    Name(String),
    V4([u8; 4]),
    V6([u8; 16]),
}

#[derive(Serialize, Deserialize, Debug, Clone)]
pub struct Case {
    pub dest: Dest,
    pub port: u16,
    /// password of the client's Basic credentials (user name is `user`); may contain colons
    pub password: String,
    /// what the proxy does: method it selects (2 expected; 0, 0xff possible), status of the
    /// user/password sub-negotiation, reply code and bound-address type of its answer
    pub method: u8,
    pub auth_status: u8,
    pub reply: u8,
    pub atyp: u8,
    /// bytes of the destination sent in the same write as the success reply
    pub early: Vec<u8>,
    pub cuts: Vec<u16>,
    pub payload: Vec<u8>,
}

#[derive(Default, Debug, Clone)]
struct ProxySaw {
    greeting: Vec<u8>,
    auth: Vec<u8>,
    request: Vec<u8>,
    relayed: Vec<u8>,
    connections: usize,
}

async fn proxy(listener: TcpListener, c: Case, saw: Arc<Mutex<ProxySaw>>) {
    loop {
        let Ok((mut s, _)) = listener.accept().await else { return };
        saw.lock().unwrap().connections += 1;
        let c = c.clone();
        let saw = saw.clone();
        tokio::spawn(async move {
            let mut buf = vec![0u8; 2048];
            // greeting: VER NMETHODS METHODS
            let mut g = vec![];
            while g.len() < 2 || g.len() < 2 + g[1] as usize {
                match s.read(&mut buf).await {
                    Ok(n) if n > 0 => g.extend_from_slice(&buf[..n]),
                    _ => return,
                }
            }
            saw.lock().unwrap().greeting = g;
            if s.write_all(&[5, c.method]).await.is_err() {
                return;
            }
            if c.method == 0xff {
                return;
            }
            if c.method == 2 {
                // VER ULEN UNAME PLEN PASSWD
                let mut a = vec![];
                loop {
                    let complete = a.len() >= 2 && a.len() >= 2 + a[1] as usize + 1 && a.len() >= 3 + a[1] as usize + a[2 + a[1] as usize] as usize;
                    if complete {
                        break;
                    }
                    match s.read(&mut buf).await {
                        Ok(n) if n > 0 => a.extend_from_slice(&buf[..n]),
                        _ => return,
                    }
                }
                saw.lock().unwrap().auth = a;
                if s.write_all(&[1, c.auth_status]).await.is_err() {
                    return;
                }
                if c.auth_status != 0 {
                    return;
                }
            }
            // request
            let mut r = vec![];
            loop {
                let need = if r.len() < 5 {
                    5
                } else {
                    match r[3] {
                        1 => 10,
                        4 => 22,
                        _ => 7 + r[4] as usize,
                    }
                };
                if r.len() >= need {
                    break;
                }
                match s.read(&mut buf).await {
                    Ok(n) if n > 0 => r.extend_from_slice(&buf[..n]),
                    _ => return,
                }
            }
            saw.lock().unwrap().request = r;
            let mut answer = vec![5u8, c.reply, 0, c.atyp];
            match c.atyp {
                1 => answer.extend_from_slice(&[10, 0, 0, 9]),
                4 => answer.extend_from_slice(&Ipv6Addr::LOCALHOST.octets()),
                _ => {
                    answer.push(9);
                    answer.extend_from_slice(b"bound.xyz");
                }
            }
            answer.extend_from_slice(&[0x12, 0x34]);
            if c.reply == 0 {
                answer.extend_from_slice(&c.early);
            }
            let mut points: Vec<usize> = c.cuts.iter().map(|x| idx(*x, answer.len() + 1)).collect();
            points.sort();
            points.push(answer.len());
            let mut prev = 0;
            for p in points {
                if p > prev {
                    if s.write_all(&answer[prev..p]).await.is_err() {
                        return;
                    }
                    tokio::time::sleep(Duration::from_millis(1)).await;
                    prev = p;
                }
            }
            if c.reply != 0 {
                return;
            }
            // the destination echoes
            loop {
                match s.read(&mut buf).await {
                    Ok(n) if n > 0 => {
                        saw.lock().unwrap().relayed.extend_from_slice(&buf[..n]);
                        if s.write_all(&buf[..n]).await.is_err() {
                            return;
                        }
                    }
                    _ => return,
                }
            }
        });
    }
}

pub struct ForwarderSuite;

impl Suite for ForwarderSuite {
    type Case = Case;
    fn name(&self) -> &'static str {
        "socks5-forwarder-end-to-end"
    }
    fn rule(&self) -> String {
        "a real HTTP/1.1 tunnel session (in memory) on an endpoint configured with forward_protocol = socks5; the proxy is a scripted SOCKS5 server on a loopback TCP port: it selects method 2 / 0 / 0xff, answers the user/password sub-negotiation with status 0 or not, replies to CONNECT with code 0-9 and an IPv4 / IPv6 / domain bound address in generated pieces, sends 0-40 bytes of the destination together with a success reply, then echoes; destinations are names, IPv4 and IPv6 literals; the client's password contains colons and non-ASCII; oracle: the proxy sees one well-formed dialogue (methods offered, user name and password = the halves of the client's Basic credentials split at the first colon, destination with its address type and port), success -> 200 and the tunnel's stream is the destination's early bytes followed by the echo of the payload, reply 3 / 4 -> 502 with X-Warning 301, reply 6 -> 302, other failures -> 300, refused method or credentials -> 407 or 502, never 200; non-trivial = a failure reply, or early destination bytes".into()
    }
    fn strategy(&self, _: Tier) -> BoxedStrategy<Case> {
        (
            prop_oneof![
                3 => "[a-z]{1,12}(\\.[a-z]{2,6}){1,2}".prop_map(Dest::Name),
                2 => any::<[u8; 4]>().prop_map(Dest::V4),
                2 => any::<[u8; 16]>().prop_map(Dest::V6),
            ],
            1u16..=65535,
            prop_oneof![2 => "[a-zA-Z0-9]{1,16}", 2 => "[a-z:]{1,12}", 1 => "[a-zé€:]{1,10}"],
            prop_oneof![8 => Just(2u8), 1 => Just(0xffu8), 1 => Just(0u8)],
            prop_oneof![6 => Just(0u8), 1 => 1u8..=255],
            prop_oneof![5 => Just(0u8), 6 => 1u8..=9],
            prop_oneof![3 => Just(1u8), 1 => Just(4u8), 1 => Just(3u8)],
            prop_oneof![2 => Just(vec![]), 2 => prop::collection::vec(any::<u8>(), 1..40)],
            prop::collection::vec(any::<u16>(), 0..4),
            prop::collection::vec(any::<u8>(), 1..200),
        )
            .prop_map(|(dest, port, password, method, auth_status, reply, atyp, early, cuts, payload)| Case { dest, port, password, method, auth_status, reply, atyp, early, cuts, payload })
            .boxed()
    }
    fn cases(&self, tier: Tier) -> u64 {
        tier.pick(2400, 16_000)
    }
    fn classify(&self, c: &Case) -> Vec<&'static str> {
        let mut v = vec![];
        let dialogue_ok = (c.method == 2 && c.auth_status == 0) || c.method == 0;
        if !dialogue_ok {
            v.push("negotiation-fails");
        } else if c.reply != 0 {
            v.push("failure-reply");
        } else {
            v.push("success");
            if !c.early.is_empty() {
                v.push("destination-speaks-first");
            }
        }
        if !dialogue_ok || c.reply != 0 || !c.early.is_empty() {
            v.push("nontrivial");
        }
        v
    }
    fn required_classes(&self) -> Vec<&'static str> {
        vec!["nontrivial", "negotiation-fails", "failure-reply", "success", "destination-speaks-first"]
    }
    fn check(&self, c: &Case) -> Verdict {
        let c = c.clone();
        aio::block_on_real(async move {
            let listener = match TcpListener::bind("127.0.0.1:0").await {
                Ok(l) => l,
                Err(e) => return viol("harness:bind", e.to_string()),
            };
            let proxy_addr = listener.local_addr().unwrap();
            let saw = Arc::new(Mutex::new(ProxySaw::default()));
            let server = tokio::spawn(proxy(listener, c.clone(), saw.clone()));
            let spec = CoreSpec { socks5: Some((proxy_addr, false)), clients: vec![("user".into(), c.password.clone())], ..CoreSpec::default() };
            let world = match spec.build() {
                Ok(w) => w,
                Err(e) => return viol("harness:core", e),
            };
            let (mut io, _srv) = world.serve(Proto::Http1, ChannelView::Tunnel, "main.x", None, crate::engine::world::peer_v4(), 64 * 1024);
            let authority = match &c.dest {
                Dest::Name(n) => format!("{}:{}", n, c.port),
                Dest::V4(a) => format!("{}:{}", Ipv4Addr::from(*a), c.port),
                Dest::V6(a) => format!("[{}]:{}", Ipv6Addr::from(*a), c.port),
            };
            let head = format!(
                "CONNECT {0} HTTP/1.1\r\nHost: {0}\r\nProxy-Authorization: Basic {1}\r\n\r\n",
                authority,
                b64(&format!("user:{}", c.password))
            );
            if let Err(e) = io.write_all(head.as_bytes()).await {
                return viol("harness:io", e.to_string());
            }
            let mut buf = vec![];
            let mut tmp = vec![0u8; 4096];
            let resp = loop {
                if let Ok(Some(r)) = parse_h1_response(&buf) {
                    break Some(r);
                }
                match tokio::time::timeout(Duration::from_secs(5), io.read(&mut tmp)).await {
                    Ok(Ok(n)) if n > 0 => buf.extend_from_slice(&tmp[..n]),
                    _ => break None,
                }
            };
            let what = format!(
                "CONNECT {} through a SOCKS5 proxy (method {:#x}, auth status {}, reply {} atyp {}, {} early bytes)",
                authority,
                c.method,
                c.auth_status,
                c.reply,
                c.atyp,
                c.early.len()
            );
            let Some(resp) = resp else {
                server.abort();
                return viol("socks-forwarder:no-response", format!("{}: no response", what));
            };
            let warn = resp.header("x-warning").unwrap_or_default();
            let code = warn.split_whitespace().next().unwrap_or("").to_string();
            let s = saw.lock().unwrap().clone();
            // ---- what the proxy saw
            ensure!(s.connections == 1, "socks-forwarder:dial-count", "{}: the proxy accepted {} connections", what, s.connections);
            ensure!(
                s.greeting.len() >= 3 && s.greeting[0] == 5 && s.greeting[2..].contains(&2),
                "socks-forwarder:methods-offered",
                "{}: greeting {:?} does not offer user/password although the client sent credentials",
                what,
                s.greeting
            );
            if c.method == 2 {
                let mut want = vec![1u8, 4];
                want.extend_from_slice(b"user");
                want.push(c.password.len() as u8);
                want.extend_from_slice(c.password.as_bytes());
                ensure!(
                    s.auth == want,
                    "socks-forwarder:credentials-differ",
                    "{}: sub-negotiation message {:?}, want user / {:?}",
                    what,
                    String::from_utf8_lossy(&s.auth),
                    c.password
                );
            }
            // "no authentication" is a legitimate choice of the proxy when the client offered it
            let negotiated = (c.method == 2 && c.auth_status == 0) || (c.method == 0 && s.greeting.len() >= 3 && s.greeting[2..].contains(&0));
            if negotiated {
                let mut want = vec![5u8, 1, 0];
                match &c.dest {
                    Dest::Name(n) => {
                        want.push(3);
                        want.push(n.len() as u8);
                        want.extend_from_slice(n.as_bytes());
                    }
                    Dest::V4(a) => {
                        want.push(1);
                        want.extend_from_slice(a);
                    }
                    Dest::V6(a) => {
                        want.push(4);
                        want.extend_from_slice(a);
                    }
                }
                want.extend_from_slice(&c.port.to_be_bytes());
                ensure!(s.request == want, "socks-forwarder:request-differs", "{}: request {} , want {}", what, crate::engine::hex(&s.request), crate::engine::hex(&want));
            } else {
                ensure!(s.request.is_empty(), "socks-forwarder:request-after-failed-negotiation", "{}: a request was sent although the negotiation failed", what);
            }
            // ---- what the client is told
            if !negotiated {
                server.abort();
                ensure!(
                    resp.status == 407 || resp.status == 502,
                    "socks-forwarder:failed-negotiation-not-reported",
                    "{}: answered {}",
                    what,
                    resp.status
                );
                return Ok(());
            }
            if c.reply != 0 {
                server.abort();
                let want = match c.reply {
                    3 | 4 => "301",
                    6 => "302",
                    _ => "300",
                };
                ensure!(
                    resp.status == 502 && code == want,
                    "socks-forwarder:failure-reply-mapping",
                    "{}: answered {} with X-Warning {:?}, want 502 with code {}",
                    what,
                    resp.status,
                    warn,
                    want
                );
                return Ok(());
            }
            ensure!(resp.status == 200, "socks-forwarder:success-not-200", "{}: answered {} {:?}", what, resp.status, warn);
            // the tunnel: early bytes first, then the echo
            if let Err(e) = io.write_all(&c.payload).await {
                return viol("harness:io", e.to_string());
            }
            let mut got = resp.rest.clone();
            let want_len = c.early.len() + c.payload.len();
            while got.len() < want_len {
                match tokio::time::timeout(Duration::from_secs(3), io.read(&mut tmp)).await {
                    Ok(Ok(n)) if n > 0 => got.extend_from_slice(&tmp[..n]),
                    _ => break,
                }
            }
            server.abort();
            let mut want = c.early.clone();
            want.extend_from_slice(&c.payload);
            ensure!(
                got == want,
                "socks-forwarder:tunnel-stream-differs",
                "{}: the client reads {} bytes, the destination sent {} early bytes and echoed {} (first difference at {})",
                what,
                got.len(),
                c.early.len(),
                c.payload.len(),
                got.iter().zip(&want).position(|(a, b)| a != b).unwrap_or(got.len().min(want.len()))
            );
            Ok(())
        })
    }
}
