//! C14 — idle and establishment timeouts fire when, and only when, they should.

use crate::engine::world::{CoreSpec, Outcome, Scripted};
use crate::engine::{self, aio, Ctx, Suite, Tier, Verdict};
use crate::ensure;
use crate::props::pipes::{check_history, judge, End, PipeCase, SinkScript, SourceScript};
use crate::props::tunnelreq::{b64, run_h1, run_h2, AuthHeader, Req};
use proptest::prelude::*;
use serde::{Deserialize, Serialize};
use serde_json::Value;
use std::sync::atomic::Ordering;
use std::time::Duration;

// ---------------------------------------------------------------------------------------------
// idle timer of the pipe

pub struct IdleSuite;

/// Activity patterns relative to T: periodic traffic with a period around T, one-sided traffic,
/// bursts, back-pressure stalls, one direction already closed.
fn idle_case() -> BoxedStrategy<PipeCase> {
    prop_oneof![Just(200u64), Just(1000u64), Just(60u64), Just(5000u64)]
        .prop_flat_map(|t| {
            let tt = t as u32;
            let gap = prop_oneof![
                4 => Just(tt / 2),
                4 => Just(tt * 9 / 10),
                2 => Just(tt * 95 / 100),
                1 => Just(tt),
                1 => Just(tt * 105 / 100),
                1 => Just(tt * 3 / 2),
                4 => Just(0u32),
                1 => Just(tt * 99 / 100),
                1 => Just(tt * 101 / 100),
                1 => Just(3 * tt),
            ];
            let src = (
                prop::collection::vec((gap.clone(), 1u32..200), 0..6),
                gap.clone(),
                prop_oneof![5 => Just(End::Eof), 1 => Just(End::Hang)],
            )
                .prop_map(|(chunks, end_delay, end)| SourceScript {
                    chunks,
                    end_delay,
                    end,
                });
            let sink = (
                prop_oneof![
                    4 => Just(vec![]),
                    3 => prop::collection::vec((gap.clone(), 1u32..300), 1..8),
                ],
                prop_oneof![6 => gap.clone().prop_map(Some), 1 => Just(None)],
                prop_oneof![3 => Just(u32::MAX), 1 => 1u32..64],
                prop_oneof![3 => Just(0u32), 1 => gap.clone()],
            )
                .prop_map(|(grants, then_unlimited_after, max_per_write, flush_delay)| SinkScript {
                    grants,
                    then_unlimited_after,
                    max_per_write,
                    flush_delay,
                    fault: None,
                });
            (Just(t), src.clone(), src, sink.clone(), sink)
        })
        .prop_map(|(timeout_ms, s0, s1, k0, k1)| PipeCase {
            timeout_ms,
            sources: [s0, s1],
            sinks: [k0, k1],
        })
        .boxed()
}

impl Suite for IdleSuite {
    type Case = PipeCase;
    fn name(&self) -> &'static str {
        "pipe-idle-timer"
    }
    fn rule(&self) -> String {
        "activity patterns for both directions as event lists relative to the idle timeout T (gaps of 0, 0.5, 0.9, 0.95, 0.99, 1, 1.01, 1.05, 1.5 and 3 T between chunks, capacity grants and flush completion; one-sided traffic; sources that end or never end; back-pressure stalls) through the real DuplexPipe::exchange under the paused clock (timers 0.5-1.5 ms late as in real time); oracle: a close by the idle timer is legitimate only when no byte was transferred for T (judged against an ideal relay of the same scripts: it is a violation when the close comes less than T after the last transfer, a further transfer was due and no gap between ideal transfers reaches T), it must come within 2T of the last activity, exchange() must return and drop all endpoints; non-trivial = exactly one direction idle for longer than T at some point, or an event within 5 % of a deadline".into()
    }
    fn strategy(&self, _: Tier) -> BoxedStrategy<PipeCase> {
        idle_case()
    }
    fn cases(&self, tier: Tier) -> u64 {
        tier.pick(120_000, 3_000_000)
    }
    fn classify(&self, c: &PipeCase) -> Vec<&'static str> {
        let t = c.timeout_ms as u32;
        let mut v = vec![];
        let near = |d: u32| d != 0 && (d * 100 >= t * 95 && d * 100 <= t * 105);
        let long = |d: u32| d > t;
        let any_near = c.sources.iter().any(|s| s.chunks.iter().any(|x| near(x.0)) || near(s.end_delay))
            || c.sinks.iter().any(|s| s.grants.iter().any(|x| near(x.0)));
        let idle0 = c.sources[0].chunks.iter().any(|x| long(x.0)) || c.sources[0].chunks.is_empty();
        let idle1 = c.sources[1].chunks.iter().any(|x| long(x.0)) || c.sources[1].chunks.is_empty();
        if idle0 != idle1 {
            v.push("one-direction-idle-longer-than-T");
        }
        if any_near {
            v.push("event-near-deadline");
        }
        if idle0 != idle1 || any_near {
            v.push("nontrivial");
        }
        v
    }
    fn required_classes(&self) -> Vec<&'static str> {
        vec!["nontrivial", "one-direction-idle-longer-than-T", "event-near-deadline", "ran-timed-out", "ran-ok"]
    }
    fn check(&self, c: &PipeCase) -> Verdict {
        let r = aio::block_on_paused(c.run());
        let _ = check_history(c, &r)?;
        match &r.result {
            Some(Ok(())) => engine::bump("ran-ok", 1),
            Some(Err(std::io::ErrorKind::TimedOut)) => engine::bump("ran-timed-out", 1),
            _ => {}
        }
        judge(c, &r, true)
    }
}

// ---------------------------------------------------------------------------------------------
// establishment timeout

#[derive(Serialize, Deserialize, Debug, Clone)]
pub struct ConnectCase {
    pub h2: bool,
    pub limit_ms: u64,
    /// delay of the outbound connection attempt in per mille of the limit (None = never completes)
    pub delay_permille: Option<u32>,
}

pub struct ConnectSuite;

impl Suite for ConnectSuite {
    type Case = ConnectCase;
    fn name(&self) -> &'static str {
        "establishment-timeout"
    }
    fn rule(&self) -> String {
        "CONNECT through the real tunnel in memory (HTTP/1.1 and HTTP/2) with a scripted connector whose attempt completes after 0.1 .. 3 x the establishment timeout or never; oracle: slower than the limit => 502 with X-Warning 302 at the limit (within 5 ms) and the connector future is dropped; faster => 200 and the tunnel relays; non-trivial = delay within 5 % of the limit or never completing".into()
    }
    fn strategy(&self, _: Tier) -> BoxedStrategy<ConnectCase> {
        (
            any::<bool>(),
            prop_oneof![Just(1000u64), Just(30_000u64), Just(250u64)],
            prop_oneof![
                2 => Just(Some(100u32)),
                2 => Just(Some(500u32)),
                3 => Just(Some(960u32)),
                3 => Just(Some(990u32)),
                3 => Just(Some(1010u32)),
                3 => Just(Some(1040u32)),
                2 => Just(Some(1500u32)),
                1 => Just(Some(3000u32)),
                2 => Just(None),
                3 => (1u32..2000).prop_map(Some),
            ],
        )
            .prop_map(|(h2, limit_ms, delay_permille)| ConnectCase {
                h2,
                limit_ms,
                delay_permille,
            })
            .boxed()
    }
    fn cases(&self, tier: Tier) -> u64 {
        tier.pick(8000, 160_000)
    }
    fn classify(&self, c: &ConnectCase) -> Vec<&'static str> {
        match c.delay_permille {
            None => vec!["never", "nontrivial"],
            Some(p) if (950..=1050).contains(&p) => vec!["near-limit", "nontrivial"],
            Some(p) if p > 1000 => vec!["slow"],
            _ => vec!["fast"],
        }
    }
    fn required_classes(&self) -> Vec<&'static str> {
        vec!["nontrivial", "never", "near-limit", "slow", "fast"]
    }
    fn check(&self, c: &ConnectCase) -> Verdict {
        let spec = CoreSpec {
            establishment_timeout: Duration::from_millis(c.limit_ms),
            ..CoreSpec::default()
        };
        let delay_ms = c.delay_permille.map(|p| c.limit_ms * p as u64 / 1000);
        let outcome = match delay_ms {
            None => Outcome::Never,
            Some(ms) => Outcome::DelayedEcho(ms),
        };
        let (obs, dropped) = aio::block_on_paused(async move {
            aio::skew_clock().await;
            let world = spec.build().expect("core");
            let o2 = outcome.clone();
            let scripted = Scripted::new(move |_| o2.clone());
            let _g = scripted.install(&world);
            let req = Req::connect(
                "slow.dest.test:443",
                AuthHeader::Raw(format!("Basic {}", b64("user:pass")).into_bytes()),
            );
            let wait = Duration::from_millis(c.limit_ms * 4 + 5000);
            let obs = if c.h2 {
                run_h2(&world, "main.x", None, &[req], wait).await.remove(0)
            } else {
                run_h1(&world, "main.x", None, &req, wait).await
            };
            tokio::time::sleep(Duration::from_millis(20)).await;
            (obs, scripted.connect_dropped.load(Ordering::SeqCst))
        });
        let what = format!(
            "{} limit {} ms, attempt completes after {:?} ms",
            if c.h2 { "h2" } else { "h1" },
            c.limit_ms,
            delay_ms
        );
        let slow = delay_ms.map_or(true, |d| d > c.limit_ms + 2);
        let fast = delay_ms.is_some_and(|d| d + 2 < c.limit_ms);
        if slow {
            ensure!(
                obs.status == Some(502) && obs.header("x-warning").is_some_and(|w| w.starts_with("302")),
                "establishment:slow-attempt-not-reported-as-timeout",
                "{}: answered {:?} {:?}",
                what,
                obs.status,
                obs.headers
            );
            ensure!(
                obs.after_ms >= c.limit_ms && obs.after_ms <= c.limit_ms + 5,
                "establishment:timeout-at-wrong-time",
                "{}: 502 after {} ms",
                what,
                obs.after_ms
            );
            ensure!(
                dropped,
                "establishment:attempt-not-abandoned",
                "{}: the connection attempt was not dropped when the limit expired",
                what
            );
        } else if fast {
            ensure!(
                obs.status == Some(200) && obs.echoed == Some(true),
                "establishment:fast-attempt-refused",
                "{}: answered {:?}, echoed {:?}",
                what,
                obs.status,
                obs.echoed
            );
            ensure!(
                obs.after_ms + 5 >= delay_ms.unwrap() && obs.after_ms <= delay_ms.unwrap() + 5,
                "establishment:response-at-wrong-time",
                "{}: 200 after {} ms",
                what,
                obs.after_ms
            );
        } else {
            ensure!(
                matches!(obs.status, Some(200) | Some(502)),
                "establishment:no-response",
                "{}: answered {:?}",
                what,
                obs.status
            );
        }
        Ok(())
    }
}

pub fn run(ctx: &mut Ctx) {
    super::replay_corpus(ctx, replay);
    ctx.run_suite(&IdleSuite);
    ctx.run_suite(&ConnectSuite);
    ctx.run_suite(&super::c14tls::HandshakeSuite);
    ctx.run_suite(&super::c14sess::IdleCloseSuite);
    ctx.assume("virtual time: tokio paused clock with a persistent 0.5 ms offset so that timers fire slightly late, as real timers do");
    ctx.assume("TLS handshake timeout: real sockets and real time; a stalled client must be dropped within twice the timeout plus 1.5 s of scheduling slack");
}

pub fn replay(ctx: &mut Ctx, suite: &str, case: &Value) -> bool {
    match suite {
        "pipe-idle-timer" => ctx.replay_suite(&IdleSuite, case),
        "establishment-timeout" => ctx.replay_suite(&ConnectSuite, case),
        "session-idle-close" => ctx.replay_suite(&super::c14sess::IdleCloseSuite, case),
        "tls-handshake-timeout" => ctx.replay_suite(&super::c14tls::HandshakeSuite, case),
        _ => false,
    }
}
