//! C17 — plain-HTTP forwarding preserves requests and response bodies byte for byte.

use crate::engine::world::{parse_h1_response, CoreSpec, Event, Outcome, PeerHandle, PeerMsg, Scripted};
use crate::engine::{self, aio, idx, viol, Ctx, Suite, Tier, Verdict, Violation};
use crate::ensure;
use crate::props::tunnelreq::b64;
use bytes::Bytes;
use proptest::prelude::*;
use serde::{Deserialize, Serialize};
use serde_json::Value;
use std::time::Duration;
use tokio::io::{AsyncReadExt, AsyncWriteExt};
use trusttunnel::verif::session::{ChannelView, DestView, Proto};

#[derive(Serialize, Deserialize, Debug, Clone, PartialEq, Eq)]
pub enum ReqBody {
    None,
    ContentLength(Vec<u8>),
    /// HTTP/1.1 client sends chunked; HTTP/2 client sends DATA frames without content-length
    Unsized(Vec<u8>),
}

#[derive(Serialize, Deserialize, Debug, Clone, PartialEq, Eq)]
pub enum RespFraming {
    ContentLength,
    /// chunk sizes (the body is cut accordingly), with or without chunk extensions
    Chunked(Vec<u16>, bool),
    CloseDelimited,
}

#[derive(Serialize, Deserialize, Debug, Clone)]
pub struct Case {
    pub h2: bool,
    pub method: String,
    pub path: String,
    pub req_headers: Vec<(String, String)>,
    pub req_body: ReqBody,
    pub interim: Vec<u16>,
    pub status: u16,
    pub framing: RespFraming,
    pub body_len: u16,
    pub hop_by_hop: bool,
    /// cut positions of the origin's byte stream
    pub cuts: Vec<u16>,
    /// HTTP/2 client: small flow-control window and delayed release
    pub slow_client: bool,
    /// HTTP/3 client (quiche) against the real QUIC listener; `h2` is then ignored
    #[serde(default)]
    pub h3: bool,
    /// every interim head ends a delivery (further cuts may fall inside the interim heads): the
    /// known finding "bytes after a 1xx head in the same delivery" is then not in play
    #[serde(default)]
    pub cut_after_interims: bool,
    /// further end-to-end header fields in the origin's final response (the forwarder takes up to
    /// 128 fields in a response head)
    #[serde(default)]
    pub many_headers: u8,
}

fn body_bytes(n: usize) -> Vec<u8> {
    (0..n).map(|i| (i * 13 + 5 + (i >> 7)) as u8).collect()
}

impl Case {
    fn bodiless(&self) -> bool {
        self.method == "HEAD" || self.status == 204 || self.status == 304
    }

    /// what the origin writes
    fn origin_stream(&self) -> (Vec<u8>, Vec<u8>) {
        let body = body_bytes(self.body_len as usize);
        let mut s = vec![];
        for i in &self.interim {
            s.extend_from_slice(format!("HTTP/1.1 {} Interim\r\nX-Interim: {}\r\n\r\n", i, i).as_bytes());
        }
        let reason = match self.status {
            200 => "OK",
            204 => "No Content",
            304 => "Not Modified",
            404 => "Not Found",
            _ => "Status",
        };
        s.extend_from_slice(format!("HTTP/1.1 {} {}\r\nX-Resp: value-1\r\nContent-Type: application/x-test\r\n", self.status, reason).as_bytes());
        for i in 0..self.many_headers {
            s.extend_from_slice(format!("X-Many-{}: {}\r\n", i, i).as_bytes());
        }
        if self.hop_by_hop {
            s.extend_from_slice(b"Connection: keep-alive, X-Hop\r\nX-Hop: secret-hop\r\nKeep-Alive: timeout=5\r\nProxy-Connection: keep-alive\r\n");
        }
        let mut wire_body = vec![];
        match &self.framing {
            RespFraming::ContentLength => {
                s.extend_from_slice(format!("Content-Length: {}\r\n", body.len()).as_bytes());
                if !self.bodiless() {
                    wire_body = body.clone();
                }
            }
            RespFraming::CloseDelimited => {
                if !self.bodiless() {
                    wire_body = body.clone();
                }
            }
            RespFraming::Chunked(sizes, ext) => {
                s.extend_from_slice(b"Transfer-Encoding: chunked\r\n");
                if !self.bodiless() {
                    let mut off = 0;
                    let mut k = 0;
                    while off < body.len() {
                        let want = if sizes.is_empty() { body.len() } else { 1 + sizes[k % sizes.len()] as usize % 5000 };
                        let n = want.min(body.len() - off);
                        if *ext && k % 2 == 0 {
                            wire_body.extend_from_slice(format!("{:x};ext=val\r\n", n).as_bytes());
                        } else {
                            wire_body.extend_from_slice(format!("{:X}\r\n", n).as_bytes());
                        }
                        wire_body.extend_from_slice(&body[off..off + n]);
                        wire_body.extend_from_slice(b"\r\n");
                        off += n;
                        k += 1;
                    }
                    wire_body.extend_from_slice(b"0\r\n\r\n");
                }
            }
        }
        s.extend_from_slice(b"\r\n");
        s.extend_from_slice(&wire_body);
        (s, if self.bodiless() { vec![] } else { body })
    }
}

impl Case {
    /// offsets in the origin's byte stream at which the interim heads end
    fn interim_ends(&self) -> Vec<usize> {
        let mut v = vec![];
        let mut off = 0;
        for i in &self.interim {
            off += format!("HTTP/1.1 {} Interim\r\nX-Interim: {}\r\n\r\n", i, i).len();
            v.push(off);
        }
        v
    }

    /// the delivery positions of the origin stream
    fn delivery_cuts(&self, len: usize) -> Vec<usize> {
        let mut cuts: Vec<usize> = self.cuts.iter().map(|p| 1 + idx(*p, len.saturating_sub(1))).filter(|x| *x < len).collect();
        if self.cut_after_interims {
            cuts.extend(self.interim_ends().into_iter().filter(|x| *x < len));
        }
        cuts.sort();
        cuts.dedup();
        cuts.push(len);
        cuts
    }

    /// does some delivery carry the end of an interim head together with later bytes?
    fn bytes_follow_an_interim_head(&self) -> bool {
        let (origin_bytes, _) = self.origin_stream();
        let cuts = self.delivery_cuts(origin_bytes.len());
        self.interim_ends().iter().any(|e| !cuts.contains(e))
    }
}

/// Reference de-chunker. None = malformed / incomplete.
pub fn dechunk(mut b: &[u8]) -> Option<Vec<u8>> {
    let mut out = vec![];
    loop {
        let line_end = b.windows(2).position(|w| w == b"\r\n")?;
        let line = std::str::from_utf8(&b[..line_end]).ok()?;
        let size = usize::from_str_radix(line.split(';').next()?.trim(), 16).ok()?;
        b = &b[line_end + 2..];
        if size == 0 {
            return if b.starts_with(b"\r\n") { Some(out) } else { None };
        }
        if b.len() < size + 2 || &b[size..size + 2] != b"\r\n" {
            return None;
        }
        out.extend_from_slice(&b[..size]);
        b = &b[size + 2..];
    }
}

async fn settle() {
    tokio::time::sleep(Duration::from_millis(1)).await;
}

async fn wait_for_origin(scripted: &Scripted) -> Option<PeerHandle> {
    for _ in 0..2000 {
        if let Some((_, h)) = scripted.peers.lock().unwrap().first() {
            return Some(h.clone());
        }
        settle().await;
    }
    None
}

struct Seen {
    origin_request: Vec<u8>,
    connects: Vec<DestView>,
    status: Option<u16>,
    interim: Vec<u16>,
    headers: Vec<(String, String)>,
    body: Vec<u8>,
    ended: bool,
    error: Option<String>,
}

async fn run_case(c: &Case) -> Result<Seen, Violation> {
    let herr = |e: String| Violation { sig: "harness:c17".into(), msg: e };
    let spec = CoreSpec { tcp_timeout: Duration::from_secs(30), quic: c.h3, ..CoreSpec::default() };
    let net = if c.h3 { Some(crate::engine::networld::NetWorld::start(&spec).await.map_err(herr)?) } else { None };
    let own_world;
    let world: &crate::engine::world::World = match &net {
        Some(n) => &n.world,
        None => {
            own_world = spec.build().map_err(herr)?;
            &own_world
        }
    };
    let scripted = Scripted::new(|_| Outcome::Silent);
    let _g = scripted.install(world);
    let proto = if c.h2 { Proto::Http2 } else { Proto::Http1 };
    let (mut io, _srv) = if c.h3 {
        let (a, _b) = tokio::io::duplex(16);
        (a, tokio::spawn(async { Ok(()) }))
    } else {
        world.serve(proto, ChannelView::Tunnel, "main.x", None, crate::engine::world::peer_v4(), 1 << 20)
    };
    let auth = format!("Basic {}", b64("user:pass"));
    let (origin_bytes, _) = c.origin_stream();
    let cuts = c.delivery_cuts(origin_bytes.len());
    let mut seen = Seen {
        origin_request: vec![],
        connects: vec![],
        status: None,
        interim: vec![],
        headers: vec![],
        body: vec![],
        ended: false,
        error: None,
    };
    let req_body: &[u8] = match &c.req_body {
        ReqBody::None => &[],
        ReqBody::ContentLength(b) | ReqBody::Unsized(b) => b,
    };

    // ---- send the request
    let mut h2_parts = None;
    let mut h3_task = None;
    if c.h3 {
        use crate::engine::quic::{h3_session, H3Request};
        let mut headers: Vec<(Vec<u8>, Vec<u8>)> = vec![
            (b":method".to_vec(), c.method.as_bytes().to_vec()),
            (b":scheme".to_vec(), b"http".to_vec()),
            (b":authority".to_vec(), b"origin.test".to_vec()),
            (b":path".to_vec(), c.path.as_bytes().to_vec()),
            (b"proxy-authorization".to_vec(), auth.clone().into_bytes()),
        ];
        for (n, v) in &c.req_headers {
            headers.push((n.to_ascii_lowercase().into_bytes(), v.clone().into_bytes()));
        }
        if let ReqBody::ContentLength(body) = &c.req_body {
            headers.push((b"content-length".to_vec(), body.len().to_string().into_bytes()));
        }
        let req = H3Request { headers, body: req_body.to_vec(), fin: c.req_body == ReqBody::None, fin_after_body: c.req_body != ReqBody::None };
        let addr = net.as_ref().unwrap().addr;
        h3_task = Some(tokio::spawn(async move { h3_session(addr, "main.x", &[req], Duration::from_secs(4)).await }));
    } else if !c.h2 {
        let mut head = format!("{} http://origin.test{} HTTP/1.1\r\nHost: origin.test\r\nProxy-Authorization: {}\r\nProxy-Connection: keep-alive\r\n", c.method, c.path, auth);
        for (n, v) in &c.req_headers {
            head.push_str(&format!("{}: {}\r\n", n, v));
        }
        let mut wire = vec![];
        match &c.req_body {
            ReqBody::None => {}
            ReqBody::ContentLength(b) => {
                head.push_str(&format!("Content-Length: {}\r\n", b.len()));
                wire.extend_from_slice(b);
            }
            ReqBody::Unsized(b) => {
                head.push_str("Transfer-Encoding: chunked\r\n");
                if !b.is_empty() {
                    wire.extend_from_slice(format!("{:x}\r\n", b.len()).as_bytes());
                    wire.extend_from_slice(b);
                    wire.extend_from_slice(b"\r\n");
                }
                wire.extend_from_slice(b"0\r\n\r\n");
            }
        }
        head.push_str("\r\n");
        io.write_all(head.as_bytes()).await.map_err(|e| herr(e.to_string()))?;
        io.write_all(&wire).await.map_err(|e| herr(e.to_string()))?;
    } else {
        let window = if c.slow_client { 1000 } else { 1 << 20 };
        let (send, conn) = h2::client::Builder::new().initial_window_size(window).handshake::<_, Bytes>(io).await.map_err(|e| herr(e.to_string()))?;
        let conn_task = tokio::spawn(async move {
            let _ = conn.await;
        });
        let mut b = http::Request::builder()
            .method(c.method.as_str())
            .uri(format!("http://origin.test{}", c.path))
            .header("proxy-authorization", auth.as_str());
        for (n, v) in &c.req_headers {
            b = b.header(n.to_ascii_lowercase().as_str(), v.as_str());
        }
        if let ReqBody::ContentLength(body) = &c.req_body {
            b = b.header("content-length", body.len().to_string());
        }
        let req = b.body(()).map_err(|e| herr(e.to_string()))?;
        let mut sr = send.ready().await.map_err(|e| herr(e.to_string()))?;
        let (fut, mut stream) = sr.send_request(req, req_body.is_empty() && c.req_body == ReqBody::None).map_err(|e| herr(e.to_string()))?;
        if c.req_body != ReqBody::None {
            let mut off = 0;
            while off < req_body.len() {
                stream.reserve_capacity(req_body.len() - off);
                let Some(Ok(cap)) = futures::future::poll_fn(|cx| stream.poll_capacity(cx)).await else { break };
                let n = cap.min(req_body.len() - off);
                stream.send_data(Bytes::copy_from_slice(&req_body[off..off + n]), false).map_err(|e| herr(e.to_string()))?;
                off += n;
            }
            let _ = stream.send_data(Bytes::new(), true);
        }
        h2_parts = Some((fut, conn_task, sr));
        // `io` was moved into the h2 client; make a dummy so the H1 branch below type-checks
        io = tokio::io::duplex(16).0;
    }

    // ---- the origin side
    let Some(origin) = wait_for_origin(&scripted).await else {
        // no connect: collect whatever the client got
        seen.error = Some("the endpoint never connected to the origin".into());
        return Ok(seen);
    };
    for e in scripted.events() {
        if let Event::TcpConnect(m) = e {
            seen.connects.push(m.destination);
        }
    }
    // wait until the request (head and body) has arrived
    for _ in 0..3000 {
        let r = origin.received.lock().unwrap().clone();
        if let Some(p) = r.windows(4).position(|w| w == b"\r\n\r\n") {
            let after = &r[p + 4..];
            let done = match &c.req_body {
                ReqBody::None => true,
                ReqBody::ContentLength(b) => after.len() >= b.len(),
                ReqBody::Unsized(b) => after.len() >= b.len(),
            };
            if done {
                break;
            }
        }
        settle().await;
    }
    for _ in 0..5 {
        settle().await;
    }
    seen.origin_request = origin.received.lock().unwrap().clone();
    // send the response in pieces
    let mut prev = 0;
    for cut in &cuts {
        if *cut > prev {
            let _ = origin.to_client.send(PeerMsg::Data(Bytes::copy_from_slice(&origin_bytes[prev..*cut])));
            prev = *cut;
            settle().await;
        }
    }
    let close_now = c.framing == RespFraming::CloseDelimited || !(c.h2 || c.h3);
    if close_now {
        let _ = origin.to_client.send(PeerMsg::Eof);
    }

    // ---- read the response
    if let Some(task) = h3_task {
        match task.await {
            Ok((conn, mut resps)) => {
                let r = resps.remove(0);
                seen.status = r.status;
                seen.interim = r.interim.clone();
                seen.headers = r.headers.iter().map(|(n, v)| (n.clone(), String::from_utf8_lossy(v).into_owned())).collect();
                seen.body = r.body;
                seen.ended = r.ended && !r.reset;
                if let Some(e) = conn.error {
                    seen.error = Some(e);
                } else if r.status.is_none() {
                    seen.error = Some("no response within 4 s".into());
                } else if r.reset {
                    seen.error = Some("the response stream was reset".into());
                } else if !r.ended {
                    seen.error = Some("body not terminated within 4 s".into());
                }
            }
            Err(e) => seen.error = Some(format!("client task: {}", e)),
        }
    } else if let Some((fut, conn_task, _sr)) = h2_parts {
        match tokio::time::timeout(Duration::from_secs(20), fut).await {
            Err(_) => seen.error = Some("no response within 20 virtual seconds".into()),
            Ok(Err(e)) => seen.error = Some(format!("response error: {}", e)),
            Ok(Ok(resp)) => {
                seen.status = Some(resp.status().as_u16());
                seen.headers = resp.headers().iter().map(|(n, v)| (n.to_string(), String::from_utf8_lossy(v.as_bytes()).into_owned())).collect();
                let mut body = resp.into_body();
                loop {
                    if c.slow_client {
                        tokio::time::sleep(Duration::from_millis(5)).await;
                    }
                    match tokio::time::timeout(Duration::from_secs(20), body.data()).await {
                        Ok(Some(Ok(b))) => {
                            seen.body.extend_from_slice(&b);
                            let _ = body.flow_control().release_capacity(b.len());
                        }
                        Ok(None) => {
                            seen.ended = true;
                            break;
                        }
                        Ok(Some(Err(e))) => {
                            seen.error = Some(format!("body error: {}", e));
                            break;
                        }
                        Err(_) => {
                            seen.error = Some("body not terminated within 20 virtual seconds".into());
                            break;
                        }
                    }
                }
            }
        }
        conn_task.abort();
    } else {
        let mut buf = vec![];
        let deadline = tokio::time::Instant::now() + Duration::from_secs(20);
        loop {
            let mut tmp = vec![0u8; 16384];
            match tokio::time::timeout_at(deadline, io.read(&mut tmp)).await {
                Ok(Ok(0)) => {
                    seen.ended = true;
                    break;
                }
                Ok(Ok(n)) => buf.extend_from_slice(&tmp[..n]),
                _ => break,
            }
        }
        match parse_h1_response(&buf) {
            Ok(Some(r)) => {
                seen.status = Some(r.status);
                seen.interim = r.interim.clone();
                seen.headers = r.headers.iter().map(|(n, v)| (n.to_ascii_lowercase(), String::from_utf8_lossy(v).into_owned())).collect();
                seen.body = r.rest;
            }
            Ok(None) => seen.error = Some(format!("incomplete response: {:?}", String::from_utf8_lossy(&buf[..buf.len().min(200)]))),
            Err(e) => seen.error = Some(e),
        }
    }
    Ok(seen)
}

fn judge(c: &Case, s: &Seen) -> Verdict {
    let what = format!(
        "{} {} {} body={:?} -> {} {:?} {}B interim={:?} hop={} cuts={}",
        if c.h3 { "h3" } else if c.h2 { "h2" } else { "h1" },
        c.method,
        c.path,
        match &c.req_body {
            ReqBody::None => "none".to_string(),
            ReqBody::ContentLength(b) => format!("cl:{}", b.len()),
            ReqBody::Unsized(b) => format!("unsized:{}", b.len()),
        },
        c.status,
        c.framing,
        c.body_len,
        c.interim,
        c.hop_by_hop,
        c.cuts.len()
    );
    // ---- request as seen by the origin
    ensure!(
        s.connects == vec![DestView::HostName("origin.test".into(), 80)],
        "forward:wrong-destination",
        "{}: connects {:?}",
        what,
        s.connects
    );
    let mut hs = [httparse::EMPTY_HEADER; 256];
    let mut r = httparse::Request::new(&mut hs);
    let Ok(httparse::Status::Complete(hlen)) = r.parse(&s.origin_request) else {
        return viol("forward:request-malformed", format!("{}: origin received {:?}", what, String::from_utf8_lossy(&s.origin_request[..s.origin_request.len().min(300)])));
    };
    ensure!(
        // OPTIONS for "/" may go out as "*": the parsed URI does not tell "/" from the empty path
        // for which RFC 9112 3.2.4 prescribes the asterisk form
        r.method == Some(c.method.as_str()) && (r.path == Some(c.path.as_str()) || (c.method == "OPTIONS" && c.path == "/" && r.path == Some("*"))) && r.version == Some(1),
        "forward:request-line-differs",
        "{}: origin saw {:?} {:?} HTTP/1.{:?}",
        what,
        r.method,
        r.path,
        r.version
    );
    let hv = |name: &str| -> Vec<String> {
        r.headers.iter().filter(|h| h.name.eq_ignore_ascii_case(name)).map(|h| String::from_utf8_lossy(h.value).into_owned()).collect()
    };
    ensure!(hv("host") == vec!["origin.test".to_string()], "forward:host-header", "{}: host headers {:?}", what, hv("host"));
    ensure!(
        hv("proxy-authorization").is_empty() && hv("proxy-connection").is_empty(),
        "forward:proxy-headers-forwarded",
        "{}: proxy-* headers reached the origin",
        what
    );
    for (n, v) in &c.req_headers {
        ensure!(hv(n).contains(v), "forward:request-header-lost", "{}: header {}: {} did not reach the origin ({:?})", what, n, v, hv(n));
    }
    let sent_body: &[u8] = match &c.req_body {
        ReqBody::None => &[],
        ReqBody::ContentLength(b) | ReqBody::Unsized(b) => b,
    };
    let wire_body = &s.origin_request[hlen..];
    let te_chunked = hv("transfer-encoding").iter().any(|v| v.to_ascii_lowercase().contains("chunked"));
    let cl: Option<usize> = hv("content-length").first().and_then(|v| v.parse().ok());
    if te_chunked {
        ensure!(
            dechunk(wire_body).as_deref() == Some(sent_body),
            "forward:request-body-framing",
            "{}: request announces chunked encoding but the {} body bytes at the origin do not de-chunk to the {} bytes sent",
            what,
            wire_body.len(),
            sent_body.len()
        );
    } else if let Some(n) = cl {
        ensure!(
            n == sent_body.len() && wire_body == sent_body,
            "forward:request-body-framing",
            "{}: Content-Length {} with {} body bytes at the origin, client sent {}",
            what,
            n,
            wire_body.len(),
            sent_body.len()
        );
    } else {
        ensure!(
            wire_body.is_empty() && sent_body.is_empty(),
            "forward:request-body-without-framing",
            "{}: the forwarded request has neither Content-Length nor chunked encoding, yet {} body bytes follow (client sent {})",
            what,
            wire_body.len(),
            sent_body.len()
        );
    }
    // ---- response as seen by the client
    judge_response(c, s, &what).map_err(|mut v| {
        if !c.interim.is_empty() && c.bytes_follow_an_interim_head() {
            // one root cause: bytes following an interim head in the same delivery are handed back
            // as "unsent" while the sink still waits for a response (and the HTTP/1.1 response queue
            // holds one head at a time)
            v.sig = "forward:interim-response-breaks-exchange".into();
        }
        v
    })
}

fn judge_response(c: &Case, s: &Seen, what: &str) -> Verdict {
    ensure!(s.error.is_none(), "forward:response-broken", "{}: {}", what, s.error.clone().unwrap_or_default());
    ensure!(s.status == Some(c.status), "forward:status-differs", "{}: client got {:?}", what, s.status);
    if !c.h2 && !c.h3 {
        ensure!(s.interim == c.interim, "forward:interim-responses", "{}: client saw interim {:?}", what, s.interim);
    }
    let ch = |name: &str| -> Vec<&str> { s.headers.iter().filter(|(n, _)| n.eq_ignore_ascii_case(name)).map(|(_, v)| v.as_str()).collect() };
    ensure!(
        ch("x-resp") == vec!["value-1"] && ch("content-type") == vec!["application/x-test"],
        "forward:response-header-lost",
        "{}: end-to-end headers at the client: {:?}",
        what,
        s.headers
    );
    let many = s.headers.iter().filter(|(n, _)| n.to_ascii_lowercase().starts_with("x-many-")).count();
    ensure!(many == c.many_headers as usize, "forward:response-header-lost", "{}: {} of the origin's {} X-Many-* fields reached the client", what, many, c.many_headers);
    if c.hop_by_hop {
        ensure!(
            ch("keep-alive").is_empty() && ch("proxy-connection").is_empty() && ch("x-hop").is_empty(),
            "forward:hop-by-hop-header-forwarded",
            "{}: hop-by-hop headers at the client: {:?}",
            what,
            s.headers
        );
    }
    let (_, body) = c.origin_stream();
    let client_body: Vec<u8> = if !c.h2 && matches!(c.framing, RespFraming::Chunked(..)) && !c.bodiless() {
        // verbatim for HTTP/1.1: the client de-chunks
        match dechunk(&s.body) {
            Some(b) => b,
            None => return viol("forward:body-differs", format!("{}: the chunked body relayed to the HTTP/1.1 client is not well-formed ({} bytes)", what, s.body.len())),
        }
    } else {
        s.body.clone()
    };
    ensure!(
        client_body == body,
        "forward:body-differs",
        "{}: client body {} bytes, origin body {} bytes (first difference at {:?})",
        what,
        client_body.len(),
        body.len(),
        client_body.iter().zip(body.iter()).position(|(a, b)| a != b)
    );
    ensure!(s.ended, "forward:exchange-not-ended", "{}: no end of stream after the complete body", what);
    Ok(())
}

pub struct ForwardSuite;

impl Suite for ForwardSuite {
    type Case = Case;
    fn name(&self) -> &'static str {
        "forwarded-exchange"
    }
    fn rule(&self) -> String {
        "absolute-URI GET / HEAD / POST / PUT requests (0-3 end-to-end headers, body absent / with Content-Length / unsized: chunked on HTTP/1.1, DATA frames without content-length on HTTP/2) from HTTP/1.1 and HTTP/2 clients through the real tunnel in memory to a scripted origin; origin responses from a grammar: 0-2 interim 1xx heads (in half of the cases every interim head ends its delivery, with further cuts possibly inside it: the known finding about bytes following a 1xx head is then not in play and every failure is reported), status 200 / 404 / 500 / 204 / 304, framing Content-Length / chunked (chunk sizes 1-5000, optional extensions) / close-delimited, bodies of 0-12000 position-coded bytes, optional hop-by-hop and Connection-nominated headers, 0-118 further header fields (the forwarder takes up to 128); the origin stream is delivered in 1-8 generated pieces; HTTP/2 clients optionally with a 1000-byte window and slow release; oracle = reference HTTP/1.1 parser and de-chunker: the origin gets one well-formed request (method, path, one Host, headers minus proxy-*, body framed consistently), the client gets status, end-to-end headers, exactly the reference body (de-chunked for HTTP/2, verbatim for HTTP/1.1) and the end of the stream; interim responses reach HTTP/1.1 clients; non-trivial = chunked body with a chunk spanning two deliveries, or a slow client".into()
    }
    fn strategy(&self, _: Tier) -> BoxedStrategy<Case> {
        (
            any::<bool>(),
            prop_oneof![5 => Just("GET"), 1 => Just("HEAD"), 3 => Just("POST"), 1 => Just("PUT"), 1 => Just("DELETE"), 1 => Just("PATCH"), 1 => Just("OPTIONS")],
            "/[a-z0-9/]{0,16}(\\?[a-z]=[0-9]{1,3})?",
            prop::collection::vec(("X-[A-Z][a-z]{1,8}", "[a-zA-Z0-9 ;=/.-]{1,24}").prop_map(|(n, v)| (n, v.trim().to_string())).prop_filter("non-empty", |(_, v)| !v.is_empty()), 0..3),
            prop_oneof![
                Just(0u8),
                Just(1u8),
                Just(2u8),
            ],
            prop::collection::vec(any::<u8>(), 0..600),
            prop_oneof![3 => Just(vec![]), 1 => prop::collection::vec(prop_oneof![Just(100u16), Just(103u16)], 1..=2)],
            prop_oneof![6 => Just(200u16), 2 => Just(404u16), 1 => Just(500u16), 1 => Just(204u16), 1 => Just(304u16)],
            prop_oneof![
                3 => Just(RespFraming::ContentLength),
                5 => (prop::collection::vec(any::<u16>(), 0..5), any::<bool>()).prop_map(|(s, e)| RespFraming::Chunked(s, e)),
                2 => Just(RespFraming::CloseDelimited),
            ],
            prop_oneof![1 => Just(0u16), 4 => 1u16..300, 3 => 300u16..12_000],
            (any::<bool>(), prop::collection::vec(any::<u16>(), 0..8), any::<bool>(), any::<bool>(), prop_oneof![4 => Just(0u8), 2 => 1u8..60, 2 => 56u8..=118]),
        )
            .prop_map(|(h2, method, path, req_headers, body_kind, body, interim, status, framing, body_len, (hop_by_hop, cuts, slow_client, cut_after_interims, many_headers))| {
                // any method may carry a body (a GET with a JSON body is common with search APIs);
                // HEAD stays bodiless, and two GETs in three
                let req_body = if method == "HEAD" || (method == "GET" && body.len() % 3 != 0) {
                    ReqBody::None
                } else {
                    match body_kind {
                        0 => ReqBody::None,
                        1 => ReqBody::ContentLength(body),
                        _ => ReqBody::Unsized(body),
                    }
                };
                Case {
                    h2,
                    method: method.to_string(),
                    path,
                    req_headers,
                    req_body,
                    interim,
                    status,
                    framing,
                    body_len,
                    hop_by_hop,
                    cuts,
                    slow_client: slow_client && h2,
                    h3: false,
                    cut_after_interims,
                    many_headers,
                }
            })
            .boxed()
    }
    fn cases(&self, tier: Tier) -> u64 {
        tier.pick(40_000, 800_000)
    }
    fn classify(&self, c: &Case) -> Vec<&'static str> {
        let mut v = vec![];
        let chunked = matches!(c.framing, RespFraming::Chunked(..)) && !c.bodiless() && c.body_len > 0;
        if chunked && !c.cuts.is_empty() {
            v.push("chunked-under-segmentation");
        }
        if c.slow_client {
            v.push("slow-client");
        }
        if !c.interim.is_empty() {
            v.push("interim");
            if !c.bytes_follow_an_interim_head() {
                v.push("interim-heads-end-their-delivery");
            }
        }
        if c.req_body != ReqBody::None {
            v.push("request-body");
        }
        v.push(if c.h2 { "h2" } else { "h1" });
        if (chunked && !c.cuts.is_empty()) || c.slow_client {
            v.push("nontrivial");
        }
        v
    }
    fn required_classes(&self) -> Vec<&'static str> {
        vec!["nontrivial", "chunked-under-segmentation", "slow-client", "interim", "interim-heads-end-their-delivery", "request-body", "h1", "h2"]
    }
    fn check(&self, c: &Case) -> Verdict {
        let c2 = c.clone();
        let seen = aio::block_on_paused(async move {
            aio::skew_clock().await;
            run_case(&c2).await
        })?;
        judge(c, &seen)
    }
}

/// The same exchanges from an HTTP/3 client over the real QUIC listener (real time)
pub struct ForwardH3Suite;

impl Suite for ForwardH3Suite {
    type Case = Case;
    fn name(&self) -> &'static str {
        "forwarded-exchange-h3"
    }
    fn rule(&self) -> String {
        "the requests and origin responses of suite forwarded-exchange, sent by a quiche HTTP/3 client to the real QUIC listener of Core::listen on loopback (real time, 4 s per exchange); requests without a body finish their stream with the head, requests with a body finish it after the body; the scripted origin answers as there; interim responses and bodies without content-length (the two known findings) are not generated here; same oracle (origin sees one well-formed request, client sees status, end-to-end headers, exactly the de-chunked body and the end of the stream); non-trivial = chunked body under segmentation".into()
    }
    fn strategy(&self, t: Tier) -> BoxedStrategy<Case> {
        ForwardSuite
            .strategy(t)
            .prop_map(|mut c| {
                c.h3 = true;
                c.h2 = true;
                c.slow_client = false;
                // the two known findings of this property are excluded by construction here (they
                // are exercised, and counted, by forwarded-exchange): every hit would cost 4 s
                c.interim.clear();
                if let ReqBody::Unsized(b) = &c.req_body {
                    c.req_body = ReqBody::ContentLength(b.clone());
                }
                c
            })
            .boxed()
    }
    fn cases(&self, tier: Tier) -> u64 {
        tier.pick(640, 16_000)
    }
    fn classify(&self, c: &Case) -> Vec<&'static str> {
        let mut v = vec!["h3"];
        let chunked = matches!(c.framing, RespFraming::Chunked(..)) && !c.bodiless() && c.body_len > 0;
        if chunked && !c.cuts.is_empty() {
            v.push("chunked-under-segmentation");
            v.push("nontrivial");
        }
        if c.req_body != ReqBody::None {
            v.push("request-body");
        }
        if !c.interim.is_empty() {
            v.push("interim");
        }
        v
    }
    fn required_classes(&self) -> Vec<&'static str> {
        vec!["nontrivial", "request-body"]
    }
    fn check(&self, c: &Case) -> Verdict {
        let c2 = c.clone();
        let seen = aio::block_on_real(async move { run_case(&c2).await })?;
        judge(c, &seen)
    }
}

pub fn run(ctx: &mut Ctx) {
    super::replay_corpus(ctx, replay);
    ctx.run_suite(&ForwardSuite);
    ctx.run_suite(&ForwardH3Suite);
    ctx.run_suite(&super::c17stall::StallSuite);
    ctx.assume("chunk trailers are not generated (the statement's quantifier lists sizes and extensions only); on HTTP/1.1 the origin closes after its response so that the end of a chunked or close-delimited body is observable as the end of the connection");
    ctx.assume("HTTP/3 runs in real time against the real QUIC listener; 1xx responses are checked on HTTP/1.1 clients only, as the statement says");
    let _ = engine::hex(&[]);
}

pub fn replay(ctx: &mut Ctx, suite: &str, case: &Value) -> bool {
    match suite {
        "forwarded-exchange" => ctx.replay_suite(&ForwardSuite, case),
        "forwarded-exchange-h3" => ctx.replay_suite(&ForwardH3Suite, case),
        "forwarded-stall-across-idle-tick" => ctx.replay_suite(&super::c17stall::StallSuite, case),
        _ => false,
    }
}
