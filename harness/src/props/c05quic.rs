//! C05 over QUIC: the host entry, the channel and the SNI credentials of an HTTP/3 connection are
//! those its SNI designates - also when the ClientHello does not fit one Initial packet (a long
//! ALPN list, a post-quantum key share), so that the SNI is known only after the first packet.

use crate::engine::networld::NetWorld;
use crate::engine::quic::h3_request;
use crate::engine::world::{AuthKind, CoreSpec};
use crate::engine::{aio, viol, Suite, Tier, Verdict};
use crate::ensure;
use proptest::prelude::*;
use serde::{Deserialize, Serialize};
use std::time::Duration;

#[derive(Serialize, Deserialize, Debug, Clone)]
pub struct Case {
    /// 0 main host, 1 ping host, 2 speedtest host, 3 alternative SNI of the main host,
    /// 4 <credentials>.<main host> with credentials the authenticator accepts
    pub sni: u8,
    /// filler ALPN entries of 250 bytes behind "h3" (5 or more: the hello spans several packets)
    pub pad: u8,
}

pub struct QuicRoutingSuite;

impl Suite for QuicRoutingSuite {
    type Case = Case;
    fn name(&self) -> &'static str {
        "quic-sni-routing"
    }
    fn rule(&self) -> String {
        "one HTTP/3 request of a quiche client to the real QUIC listener of Core::listen whose hosts are a main host with an alternative SNI, a ping host and a speedtest host, with an authenticator that accepts one SNI credentials label; SNI in {main host, ping host, speedtest host, alternative SNI, <label>.<main host>} x ClientHello in one Initial packet or padded with 5-20 filler ALPN entries of 250 bytes so that it spans 2-5 packets; no Proxy-Authorization; oracle: the answer is the one of the designated channel - main host and its alternative SNI: CONNECT _check -> 407; ping host: GET / -> 200; speedtest host: GET /nothing -> 400; <label>.<main host>: CONNECT _check -> 200 (SNI-authenticated); non-trivial = hello in several packets and an SNI other than the first main host".into()
    }
    fn strategy(&self, _: Tier) -> BoxedStrategy<Case> {
        (0u8..5, prop_oneof![2 => Just(0u8), 3 => 5u8..20]).prop_map(|(sni, pad)| Case { sni, pad }).boxed()
    }
    fn cases(&self, tier: Tier) -> u64 {
        tier.pick(240, 4_800)
    }
    fn classify(&self, c: &Case) -> Vec<&'static str> {
        let mut v = vec![if c.pad >= 5 { "multi-packet-hello" } else { "single-packet-hello" }];
        if c.pad >= 5 && c.sni != 0 {
            v.push("nontrivial");
        }
        v
    }
    fn required_classes(&self) -> Vec<&'static str> {
        vec!["nontrivial", "single-packet-hello", "multi-packet-hello"]
    }
    fn check(&self, c: &Case) -> Verdict {
        let c = c.clone();
        aio::block_on_real(async move {
            let label = "sni0credentials0label";
            let spec = CoreSpec {
                quic: true,
                speedtest: true,
                auth: AuthKind::WithSni(Some(label.to_string())),
                main_hosts: vec![("main.x".into(), 0, vec!["alias.y".into()])],
                ping_hosts: vec![("ping.x".into(), 1)],
                speed_hosts: vec![("speed.x".into(), 2)],
                ..CoreSpec::default()
            };
            let net = match NetWorld::start(&spec).await {
                Ok(n) => n,
                Err(e) => return viol("harness:networld", e),
            };
            let (sni, method, authority, path, want): (String, &str, String, Option<&str>, u16) = match c.sni % 5 {
                0 => ("main.x".into(), "CONNECT", "_check".into(), None, 407),
                1 => ("ping.x".into(), "GET", format!("ping.x:{}", net.addr.port()), Some("/"), 200),
                2 => ("speed.x".into(), "GET", format!("speed.x:{}", net.addr.port()), Some("/nothing"), 400),
                3 => ("alias.y".into(), "CONNECT", "_check".into(), None, 407),
                _ => (format!("{}.main.x", label), "CONNECT", "_check".into(), None, 200),
            };
            let mut alpn: Vec<Vec<u8>> = vec![b"h3".to_vec()];
            for i in 0..c.pad {
                let mut p = format!("x-unused-{}-", i).into_bytes();
                p.resize(250, b'a');
                alpn.push(p);
            }
            let mut headers: Vec<(Vec<u8>, Vec<u8>)> = vec![(b":method".to_vec(), method.as_bytes().to_vec())];
            if path.is_some() {
                headers.push((b":scheme".to_vec(), b"https".to_vec()));
            }
            headers.push((b":authority".to_vec(), authority.into_bytes()));
            if let Some(p) = path {
                headers.push((b":path".to_vec(), p.as_bytes().to_vec()));
            }
            let out = h3_request(net.addr, &sni, &alpn, &headers, Duration::from_millis(3000)).await;
            if let Some(e) = &out.error {
                return viol("harness:quic-client", e.clone());
            }
            let what = format!("HTTP/3 connection with SNI {:?}, ClientHello in {} Initial packet(s), {} {}", sni, out.hello_packets, method, String::from_utf8_lossy(&headers.iter().find(|h| h.0 == b":authority").unwrap().1));
            ensure!(out.established, "demux:quic-handshake-failed", "{}: the handshake did not complete", what);
            if c.pad >= 5 {
                ensure!(out.hello_packets >= 2, "harness:quic-client", "{}: the padded hello still fits one packet", what);
            }
            ensure!(
                out.status == Some(want),
                "demux:quic-connection-routed-to-the-wrong-channel",
                "{}: answered {:?}, the channel its SNI designates answers {}",
                what,
                out.status,
                want
            );
            Ok(())
        })
    }
}
