//! C11 — ICMP echo tunnelling: faithful requests, valid checksums, matched replies.

use crate::engine::{self, idx, viol, Ctx, Suite, Tier, Verdict};
use crate::ensure;
use crate::props::c06::{for_all_cuts, ip_strategy, junk};
use crate::reference::icmp::{self, Expect};
use bytes::Bytes;
use proptest::prelude::*;
use serde::{Deserialize, Serialize};
use serde_json::Value;
use std::collections::VecDeque;
use std::net::{IpAddr, Ipv4Addr, Ipv6Addr};
use trusttunnel::verif::codecs::{icmp_parse, icmp_serialize_echo, IcmpDecoder, IcmpIn};

// ---------------------------------------------------------------------------------------------
// checksum

#[derive(Serialize, Deserialize, Debug, Clone)]
pub struct ChecksumCase {
    pub id: u16,
    pub seq: u16,
    pub data: Vec<u8>,
}

pub struct ChecksumSuite;

fn data_strategy() -> BoxedStrategy<Vec<u8>> {
    let len = prop_oneof![
        1 => Just(0usize),
        6 => 1usize..72,
        3 => 72usize..600,
        1 => 600usize..=1500,
    ];
    len.prop_flat_map(|n| {
        prop_oneof![
            // 0xff-rich content: the 32-bit sum gets large and folding carries again
            3 => prop::collection::vec(prop_oneof![3 => Just(0xffu8), 1 => any::<u8>()], n),
            2 => prop::collection::vec(any::<u8>(), n),
            1 => prop::collection::vec(prop_oneof![Just(0u8), Just(0xff), Just(0x80), Just(1)], n),
        ]
    })
    .boxed()
}

impl Suite for ChecksumSuite {
    type Case = ChecksumCase;
    fn name(&self) -> &'static str {
        "echo-checksum"
    }
    fn rule(&self) -> String {
        "echo requests (identifier, sequence number, payload of 0..1500 bytes of both parities, biased towards 0xff-rich content) serialised by the real code (Echo::serialize + rfc1071_checksum); the packet must carry the requested fields and verify to 0xffff under an independent RFC 1071 sum with the end-around carry folded until none is left; non-trivial = payload whose 32-bit word sum needs a second fold".into()
    }
    fn strategy(&self, _: Tier) -> BoxedStrategy<ChecksumCase> {
        (
            prop_oneof![any::<u16>(), Just(0xffffu16), Just(0u16)],
            prop_oneof![any::<u16>(), Just(0xffffu16)],
            data_strategy(),
            any::<bool>(),
            any::<u16>(),
        )
            .prop_map(|(id, seq, mut data, construct, pick)| {
                // half of the cases: choose the last payload word so that the folded sum carries again
                if construct && data.len() >= 2 {
                    let n = data.len() & !1;
                    data[n - 2] = 0;
                    data[n - 1] = 0;
                    let mut p = vec![8u8, 0, 0, 0];
                    p.extend_from_slice(&id.to_be_bytes());
                    p.extend_from_slice(&seq.to_be_bytes());
                    p.extend_from_slice(&data);
                    let mut sum: u32 = 0;
                    let mut i = 0;
                    while i + 1 < p.len() {
                        sum += u16::from_be_bytes([p[i], p[i + 1]]) as u32;
                        i += 2;
                    }
                    if i < p.len() {
                        sum += (p[i] as u32) << 8;
                    }
                    let hi = sum >> 16;
                    if hi >= 1 {
                        // target low word in [0x10000 - hi, 0xffff]
                        let t = 0x10000 - hi + idx(pick, hi as usize) as u32;
                        let w = (t.wrapping_sub(sum & 0xffff)) & 0xffff;
                        data[n - 2] = (w >> 8) as u8;
                        data[n - 1] = w as u8;
                    }
                }
                ChecksumCase { id, seq, data }
            })
            .boxed()
    }
    fn cases(&self, tier: Tier) -> u64 {
        tier.pick(400_000, 20_000_000)
    }
    fn classify(&self, c: &ChecksumCase) -> Vec<&'static str> {
        let mut v = vec![];
        let zeroed = icmp::echo(8, 0, c.id, c.seq, &c.data);
        let mut z = zeroed.clone();
        z[2] = 0;
        z[3] = 0;
        if icmp::needs_two_folds(&z) {
            v.push("double-carry");
            v.push("nontrivial");
        }
        if c.data.len() % 2 == 1 {
            v.push("odd-length");
        }
        v
    }
    fn required_classes(&self) -> Vec<&'static str> {
        vec!["nontrivial", "odd-length"]
    }
    fn check(&self, c: &ChecksumCase) -> Verdict {
        let wire = engine::no_panic("serialize:panic", || {
            icmp_serialize_echo(false, c.id, c.seq, Bytes::from(c.data.clone()))
        })?;
        ensure!(
            wire.len() == 8 + c.data.len(),
            "serialize:length",
            "serialised echo has {} bytes, want {}",
            wire.len(),
            8 + c.data.len()
        );
        ensure!(
            wire[0] == 8
                && wire[1] == 0
                && wire[4..6] == c.id.to_be_bytes()
                && wire[6..8] == c.seq.to_be_bytes()
                && wire[8..] == c.data[..],
            "serialize:fields",
            "serialised echo does not carry the requested type/code/id/seq/data: {}",
            engine::hex(&wire[..8])
        );
        let mut z = wire.to_vec();
        z[2] = 0;
        z[3] = 0;
        let class = if icmp::needs_two_folds(&z) {
            "checksum:wrong-when-sum-carries-twice"
        } else {
            "checksum:wrong"
        };
        ensure!(
            icmp::verifies(&wire),
            class,
            "echo id={} seq={} data={}B: checksum {:02x}{:02x} does not verify (RFC 1071 wants {:04x})",
            c.id,
            c.seq,
            c.data.len(),
            wire[2],
            wire[3],
            icmp::checksum(&z)
        );
        // ICMPv6 (checksum is recomputed by the kernel for raw ICMPv6 sockets): fields only
        let wire6 = engine::no_panic("serialize:panic", || {
            icmp_serialize_echo(true, c.id, c.seq, Bytes::from(c.data.clone()))
        })?;
        ensure!(
            wire6.len() == 8 + c.data.len()
                && wire6[0] == 128
                && wire6[1] == 0
                && wire6[4..6] == c.id.to_be_bytes()
                && wire6[6..8] == c.seq.to_be_bytes(),
            "serialize:fields",
            "serialised ICMPv6 echo request has wrong fields: {}",
            engine::hex(&wire6[..8.min(wire6.len())])
        );
        Ok(())
    }
}

// ---------------------------------------------------------------------------------------------
// 7.3 request stream decoding

#[derive(Serialize, Deserialize, Debug, Clone)]
pub struct ReqRec {
    pub id: u16,
    pub destination: IpAddr,
    pub seq: u16,
    pub ttl: u8,
    pub data_size: u16,
}

#[derive(Serialize, Deserialize, Debug, Clone)]
pub enum Seg {
    AllCuts { max_k: u8 },
    ByteAtATime,
    Cuts(Vec<u16>),
}

#[derive(Serialize, Deserialize, Debug, Clone)]
pub struct ReqCase {
    pub recs: Vec<ReqRec>,
    pub trailing: Vec<u8>,
    pub seg: Seg,
}

pub struct RequestSuite;

fn drive_requests(pieces: &[&[u8]]) -> Vec<IcmpIn> {
    let mut dec = IcmpDecoder::default();
    let mut out = vec![];
    let mut pending: VecDeque<Bytes> = VecDeque::new();
    for p in pieces {
        if p.is_empty() {
            continue;
        }
        pending.push_back(Bytes::copy_from_slice(p));
        while let Some(chunk) = pending.pop_front() {
            if let Some((d, tail)) = dec.decode_chunk(chunk) {
                out.push(d);
                if !tail.is_empty() {
                    pending.push_front(tail);
                }
            }
        }
    }
    out
}

fn check_requests(expected: &[icmp::Request], actual: &[IcmpIn], what: &str) -> Verdict {
    ensure!(
        expected.len() == actual.len(),
        "request-decode:count",
        "{}: {} requests in the stream, decoder produced {}",
        what,
        expected.len(),
        actual.len()
    );
    for (i, (e, a)) in expected.iter().zip(actual).enumerate() {
        ensure!(
            a.peer == e.destination,
            "request-decode:destination",
            "{}: request #{} destination {} decoded as {}",
            what,
            i,
            e.destination,
            a.peer
        );
        ensure!(
            a.is_echo_request && a.is_v6_message == e.destination.is_ipv6(),
            "request-decode:message-kind",
            "{}: request #{} to {} became v6={} echo_request={}",
            what,
            i,
            e.destination,
            a.is_v6_message,
            a.is_echo_request
        );
        ensure!(
            a.identifier == e.id && a.sequence_number == e.seq && a.ttl == e.ttl && a.code == 0,
            "request-decode:fields",
            "{}: request #{} id/seq/ttl {}/{}/{} decoded as {}/{}/{} code {}",
            what,
            i,
            e.id,
            e.seq,
            e.ttl,
            a.identifier,
            a.sequence_number,
            a.ttl,
            a.code
        );
        ensure!(
            a.data.len() == e.data_size as usize,
            "request-decode:data-size",
            "{}: request #{} data size {} decoded as {}",
            what,
            i,
            e.data_size,
            a.data.len()
        );
        let w = &a.serialized;
        let want_type = if e.destination.is_ipv6() { 128 } else { 8 };
        ensure!(
            w.len() == 8 + e.data_size as usize
                && w[0] == want_type
                && w[1] == 0
                && w[4..6] == e.id.to_be_bytes()
                && w[6..8] == e.seq.to_be_bytes(),
            "request-decode:wire",
            "{}: request #{} goes on the wire as {} ({} bytes)",
            what,
            i,
            engine::hex(&w[..8.min(w.len())]),
            w.len()
        );
        if !e.destination.is_ipv6() {
            let mut z = w.to_vec();
            z[2] = 0;
            z[3] = 0;
            let class = if icmp::needs_two_folds(&z) {
                "checksum:wrong-when-sum-carries-twice"
            } else {
                "checksum:wrong"
            };
            ensure!(
                icmp::verifies(w),
                class,
                "{}: request #{} (id {} seq {} size {}) carries a checksum that does not verify",
                what,
                i,
                e.id,
                e.seq,
                e.data_size
            );
        }
    }
    Ok(())
}

impl ReqCase {
    fn stream(&self) -> Vec<u8> {
        let mut s: Vec<u8> = self
            .recs
            .iter()
            .flat_map(|r| {
                icmp::encode_request(&icmp::Request {
                    id: r.id,
                    destination: r.destination,
                    seq: r.seq,
                    ttl: r.ttl,
                    data_size: r.data_size,
                })
            })
            .collect();
        s.extend_from_slice(&self.trailing);
        s
    }
}

impl Suite for RequestSuite {
    type Case = ReqCase;
    fn name(&self) -> &'static str {
        "request-decode"
    }
    fn rule(&self) -> String {
        "streams of 1-5 PROTOCOL.md 7.3 records (every field generated; IPv4, IPv6, ::, ::1, mapped and compatible destinations; data size 0..65535) plus an optional incomplete tail, fed to the real decoder under every 1-/2-(/3-) cut, byte-at-a-time and random cuts; each decoded request must equal an independent 7.3 decoder (id, destination, seq, TTL, data size, echo type for the family) and its serialised form must verify under RFC 1071; non-trivial = more than one record or a cut inside a record".into()
    }
    fn strategy(&self, tier: Tier) -> BoxedStrategy<ReqCase> {
        let rec = (
            any::<u16>(),
            ip_strategy(),
            any::<u16>(),
            any::<u8>(),
            prop_oneof![2 => Just(0u16), 6 => 1u16..128, 2 => 128u16..1500, 1 => any::<u16>()],
        )
            .prop_map(|(id, destination, seq, ttl, data_size)| ReqRec {
                id,
                destination,
                seq,
                ttl,
                data_size,
            });
        let max_k = tier.pick(2u8, 3u8);
        (
            prop::collection::vec(rec, 1..=5),
            prop_oneof![3 => Just(vec![]), 1 => prop::collection::vec(any::<u8>(), 1..22)],
            prop_oneof![
                2 => Just(Seg::AllCuts { max_k }),
                1 => Just(Seg::ByteAtATime),
                3 => prop::collection::vec(any::<u16>(), 1..6).prop_map(Seg::Cuts),
            ],
        )
            .prop_map(|(recs, trailing, seg)| ReqCase {
                recs,
                trailing,
                seg,
            })
            .boxed()
    }
    fn cases(&self, tier: Tier) -> u64 {
        tier.pick(3000, 12_000)
    }
    fn classify(&self, c: &ReqCase) -> Vec<&'static str> {
        let mut v = vec!["nontrivial"];
        if c.recs.len() > 1 {
            v.push("multi-record");
        }
        if c.recs.iter().any(|r| r.destination == IpAddr::V6(Ipv6Addr::LOCALHOST)) {
            v.push("ipv6-loopback");
        }
        if !c.trailing.is_empty() {
            v.push("trailing-partial");
        }
        v
    }
    fn check(&self, c: &ReqCase) -> Verdict {
        let stream = c.stream();
        let n = c.recs.len();
        let expected: Vec<icmp::Request> = (0..n)
            .map(|i| icmp::decode_request(&stream[i * icmp::REQUEST_SIZE..(i + 1) * icmp::REQUEST_SIZE]))
            .collect();
        let run = |cuts: &[usize]| -> Verdict {
            let mut pieces = vec![];
            let mut prev = 0;
            for &c in cuts {
                pieces.push(&stream[prev..c]);
                prev = c;
            }
            pieces.push(&stream[prev..]);
            let actual = engine::no_panic("request-decode:panic", || drive_requests(&pieces))?;
            check_requests(&expected, &actual, &format!("cuts {:?}", cuts))
        };
        match &c.seg {
            Seg::AllCuts { max_k } => {
                let mut count = 0u64;
                // every 3-cut only for streams of one or two records (about 50 000 segmentations);
                // longer streams get every 1- and 2-cut (the third cut cost 45 minutes per run)
                let max_k = if n > 2 { (*max_k).min(2) } else { *max_k };
                let r = for_all_cuts(stream.len(), max_k as usize, |cuts| {
                    count += 1;
                    if count % 4096 == 0 {
                        // a long enumeration, not a spin: each decode call still has the full budget
                        engine::watchdog::heartbeat();
                    }
                    run(cuts)
                });
                engine::bump("segmentations", count + 1);
                r?;
                run(&[])
            }
            Seg::ByteAtATime => {
                engine::bump("segmentations", 1);
                let cuts: Vec<usize> = (1..stream.len()).collect();
                run(&cuts)
            }
            Seg::Cuts(x) => {
                engine::bump("segmentations", 1);
                let mut cuts: Vec<usize> = x
                    .iter()
                    .map(|x| 1 + idx(*x, stream.len().saturating_sub(1)))
                    .filter(|c| *c < stream.len())
                    .collect();
                cuts.sort();
                cuts.dedup();
                run(&cuts)
            }
        }
    }
}

// ---------------------------------------------------------------------------------------------
// receive path: deserialize -> responded_echo_request -> 7.4 encoder

#[derive(Serialize, Deserialize, Debug, Clone)]
pub struct RecvCase {
    pub v6: bool,
    pub kind: String,
    pub packet: Vec<u8>,
    pub peer: IpAddr,
}

pub struct ReceiveSuite;

fn recv_strategy() -> BoxedStrategy<RecvCase> {
    let echo_fields = (any::<u16>(), any::<u16>(), prop::collection::vec(any::<u8>(), 0..40));
    let v4_reply = echo_fields.clone().prop_map(|(id, seq, data)| {
        ("echo-reply".to_string(), false, icmp::echo(0, 0, id, seq, &data))
    });
    let v6_reply = echo_fields.clone().prop_map(|(id, seq, data)| {
        ("echo-reply".to_string(), true, icmp::echo(129, 0, id, seq, &data))
    });
    let v4_error = (
        echo_fields.clone(),
        prop_oneof![Just(3u8), Just(11u8), Just(12u8), Just(4u8), Just(5u8)],
        prop_oneof![4 => 0u8..2, 2 => 2u8..6, 1 => any::<u8>()],
        prop_oneof![4 => Just(0usize), 1 => 1usize..=10],
        prop_oneof![8 => Just(1u8), 1 => Just(17u8), 1 => Just(6u8)],
        prop_oneof![8 => Just(8u8), 1 => Just(0u8), 1 => Just(13u8)],
        prop_oneof![6 => Just(usize::MAX), 1 => 0usize..8, 1 => 8usize..20],
        any::<[u8; 8]>(),
    )
        .prop_map(|((id, seq, data), t, code, opt_words, proto, qtype, quoted_keep, addr)| {
            let mut inner = icmp::echo(qtype, 0, id, seq, &data);
            if quoted_keep != usize::MAX {
                inner.truncate(quoted_keep);
            }
            let options = vec![1u8; opt_words * 4];
            let quoted = icmp::ipv4_packet(
                proto,
                &options,
                [addr[0], addr[1], addr[2], addr[3]],
                [addr[4], addr[5], addr[6], addr[7]],
                &inner,
            );
            ("error".to_string(), false, icmp::error(t, code, [0, 0, 0, 0], &quoted))
        });
    let v6_error = (
        echo_fields.clone(),
        1u8..=4,
        prop_oneof![4 => 0u8..2, 2 => 2u8..7, 1 => any::<u8>()],
        prop_oneof![8 => Just(58u8), 1 => Just(17u8), 1 => Just(6u8), 1 => Just(0u8), 1 => Just(43u8), 1 => Just(60u8), 1 => Just(44u8)],
        prop_oneof![8 => Just(128u8), 1 => Just(129u8), 1 => Just(1u8)],
        prop_oneof![6 => Just(usize::MAX), 1 => 0usize..8, 1 => 8usize..20],
        any::<[u8; 16]>(),
        any::<u8>(),
    )
        .prop_map(|((id, seq, data), t, code, nh, qtype, keep, addr, ext_len)| {
            let mut inner = icmp::echo(qtype, 0, id, seq, &data);
            if matches!(nh, 0 | 43 | 60 | 44) {
                // extension header in front: next header, length (in whatever unit), padding
                let mut ext = vec![58u8, ext_len, 0, 0, 0, 0, 0, 0];
                ext.extend_from_slice(&inner);
                inner = ext;
            }
            if keep != usize::MAX {
                inner.truncate(keep);
            }
            let quoted = icmp::ipv6_packet(nh, addr, addr, &inner);
            ("error".to_string(), true, icmp::error(t, code, [0, 0, 5, 0], &quoted))
        });
    let other = (any::<bool>(), prop::collection::vec(any::<u8>(), 0..80))
        .prop_map(|(v6, p)| ("random".to_string(), v6, p));
    let typed = (
        any::<bool>(),
        prop_oneof![
            Just(0u8), Just(3), Just(4), Just(5), Just(8), Just(11), Just(12), Just(13), Just(14),
            Just(15), Just(16), Just(1), Just(2), Just(128), Just(129)
        ],
        prop::collection::vec(any::<u8>(), 0..80),
    )
        .prop_map(|(v6, t, mut p)| {
            if !p.is_empty() {
                p[0] = t;
            }
            ("typed-random".to_string(), v6, p)
        });
    let mutated = (
        prop_oneof![v4_reply.clone().boxed(), v6_reply.clone().boxed(), v4_error.clone().boxed(), v6_error.clone().boxed()],
        any::<u16>(),
        any::<u8>(),
        prop_oneof![Just(0u8), Just(1), Just(2)],
    )
        .prop_map(|((_, v6, mut p), pos, val, op)| {
            if !p.is_empty() {
                let i = idx(pos, p.len());
                match op {
                    0 => p[i] = val,
                    1 => p.truncate(i),
                    _ => p[i] ^= 1 << (val % 8),
                }
            }
            ("mutated".to_string(), v6, p)
        });
    (
        prop_oneof![
            3 => v4_reply.boxed(),
            3 => v6_reply.boxed(),
            5 => v4_error.boxed(),
            5 => v6_error.boxed(),
            1 => other.boxed(),
            2 => typed.boxed(),
            4 => mutated.boxed(),
        ],
        ip_strategy(),
    )
        .prop_map(|((kind, v6, packet), peer)| RecvCase {
            v6,
            kind,
            packet,
            peer,
        })
        .boxed()
}

impl Suite for ReceiveSuite {
    type Case = RecvCase;
    fn name(&self) -> &'static str {
        "receive-path"
    }
    fn rule(&self) -> String {
        "ICMP / ICMPv6 packets built around echo requests - replies, destination-unreachable / time-exceeded / parameter-problem / source-quench / redirect / packet-too-big errors quoting an echo request with IPv4 options, other protocols, other ICMP types, truncated quotes and IPv6 extension headers - plus random, typed-random and mutated packets, run through the real receive path (deserialize -> responded_echo_request -> 7.4 encoder); an independent parser says whether a report is mandatory (then id, seq, type, code and the responder address must be exact in the 20-byte 7.4 record), forbidden, or unspecified; non-trivial = report mandatory or packet mutated".into()
    }
    fn strategy(&self, _: Tier) -> BoxedStrategy<RecvCase> {
        recv_strategy()
    }
    fn cases(&self, tier: Tier) -> u64 {
        tier.pick(300_000, 6_000_000)
    }
    fn classify(&self, c: &RecvCase) -> Vec<&'static str> {
        let mut v = vec![];
        match icmp::expect(c.v6, &c.packet) {
            Expect::Report { .. } => {
                v.push("must-report");
                v.push("nontrivial");
            }
            Expect::Nothing => v.push("must-not-report"),
            Expect::DontCare => v.push("dont-care"),
        }
        if c.kind == "mutated" {
            v.push("mutated");
            if !v.contains(&"nontrivial") {
                v.push("nontrivial");
            }
        }
        v
    }
    fn required_classes(&self) -> Vec<&'static str> {
        vec!["nontrivial", "must-report", "must-not-report", "dont-care"]
    }
    fn check(&self, c: &RecvCase) -> Verdict {
        let parsed = engine::no_panic("receive:panic", || {
            icmp_parse(c.v6, Bytes::from(c.packet.clone()), c.peer)
        })?;
        let reported = match &parsed {
            Ok(p) => p.responded.as_ref().map(|(id, seq, _)| (*id, *seq, p.type_id, p.code)),
            Err(_) => None,
        };
        match icmp::expect(c.v6, &c.packet) {
            Expect::DontCare => {}
            Expect::Nothing => {
                ensure!(
                    reported.is_none(),
                    "receive:unrelated-packet-reported",
                    "packet {} must not be reported but is matched to request {:?}",
                    engine::hex(&c.packet[..c.packet.len().min(60)]),
                    reported
                );
            }
            Expect::Report { id, seq, type_id, code } => {
                ensure!(
                    reported == Some((id, seq, type_id, code)),
                    "receive:response-not-matched",
                    "packet {} responds to echo id={} seq={} (type {} code {}), receive path says {:?} ({})",
                    engine::hex(&c.packet[..c.packet.len().min(60)]),
                    id,
                    seq,
                    type_id,
                    code,
                    reported,
                    parsed.as_ref().err().cloned().unwrap_or_default()
                );
                let enc = parsed.as_ref().unwrap().encoded_reply.clone();
                let want = icmp::reply_record(id, &c.peer, type_id, code, seq);
                ensure!(
                    enc.as_deref() == Some(want.as_slice()),
                    "receive:reply-record",
                    "7.4 record is {:?}, want {}",
                    enc.as_ref().map(|b| engine::hex(b)),
                    engine::hex(&want)
                );
            }
        }
        // whenever a 7.4 record is produced it must be well-formed and consistent with the parse
        if let Ok(p) = &parsed {
            if let Some(enc) = &p.encoded_reply {
                ensure!(
                    enc.len() == 22 && p.responded.is_some(),
                    "receive:reply-record",
                    "7.4 record of {} bytes for a message with responded={:?}",
                    enc.len(),
                    p.responded.is_some()
                );
            }
        }
        Ok(())
    }
}

pub fn run(ctx: &mut Ctx) {
    super::replay_corpus(ctx, replay);
    ctx.run_suite(&ChecksumSuite);
    ctx.run_suite(&RequestSuite);
    ctx.run_suite(&ReceiveSuite);
    ctx.run_suite(&forwarder::ForwarderSuite);
    ctx.assume("echo payload bytes are random (ring::SystemRandom) and unconstrained; ICMPv6 checksums are computed by the kernel for raw ICMPv6 sockets, so only ICMPv4 checksums are asserted");
    ctx.assume("error codes the endpoint deliberately rejects (v4 unreachable > 5, time-exceeded > 1; v6 unreachable > 6) and quoted packets with IPv6 extension headers are don't-care");
    let _ = (junk(0, 0), Ipv4Addr::LOCALHOST);
}

pub fn replay(ctx: &mut Ctx, suite: &str, case: &Value) -> bool {
    match suite {
        "echo-checksum" => ctx.replay_suite(&ChecksumSuite, case),
        "request-decode" => ctx.replay_suite(&RequestSuite, case),
        "receive-path" => ctx.replay_suite(&ReceiveSuite, case),
        "forwarder-histories" => ctx.replay_suite(&forwarder::ForwarderSuite, case),
        _ => false,
    }
}

// ---------------------------------------------------------------------------------------------
// the live forwarder: waiter table, delivery to the requesting client only, expiry

pub mod forwarder {
    use crate::engine::world::{CoreSpec, Outcome, Scripted, World};
    use crate::engine::{self, aio, idx, viol, Suite, Tier, Verdict, Violation};
    use crate::ensure;
    use crate::props::tunnelreq::b64;
    use crate::reference::icmp;
    use bytes::Bytes;
    use proptest::prelude::*;
    use serde::{Deserialize, Serialize};
    use std::net::{IpAddr, Ipv4Addr};
    use std::sync::{Arc, Mutex};
    use std::time::{Duration, Instant};
    use tokio::sync::mpsc;
    use trusttunnel::verif::session::{ChannelView, MuxPlan, Proto};

    const TIMEOUT_MS: u64 = 400;

    fn default_ttl() -> u8 {
        64
    }

    #[derive(Serialize, Deserialize, Debug, Clone, PartialEq, Eq)]
    pub enum Op {
        /// client c pings 127.0.0.<host> (answered by the kernel) with this TTL
        Echo {
            c: u8,
            host: u8,
            size: u16,
            #[serde(default = "default_ttl")]
            ttl: u8,
        },
        /// client c pings a silent address (no reply ever comes)
        EchoSilent { c: u8, size: u16 },
        /// client c pings ::1 (answered by the kernel) with this hop limit
        Echo6 { c: u8, size: u16, ttl: u8 },
        /// an ICMP error (3 = unreachable, 11 = time exceeded) about the n-th request sent so far,
        /// quoting `quote` bytes of its payload (255 = the whole request)
        ErrorAbout { n: u8, type_id: u8, code: u8, quote: u8 },
        /// an ICMP error quoting a request nobody sent
        ErrorAboutUnknown { type_id: u8 },
        /// a truncated / corrupted ICMP error
        Malformed { cut: u8 },
        /// a forged echo reply for the n-th request (late when it comes after the time-out)
        ForgedReply { n: u8 },
        /// let the request time-out pass
        WaitTimeout,
        /// client c asks for an echo to 127.0.0.1 with 65508 + (over % 28) data bytes: no IPv4
        /// packet can carry it, the raw socket refuses it (EMSGSIZE) and nothing leaves
        EchoUnsendable { c: u8, over: u8 },
    }

    #[derive(Serialize, Deserialize, Debug, Clone)]
    pub struct Case {
        pub ops: Vec<Op>,
    }

    /// 7.4 record as decoded by the harness
    #[derive(Debug, Clone, PartialEq, Eq)]
    struct Reply {
        id: u16,
        source: IpAddr,
        type_id: u8,
        code: u8,
        seq: u16,
    }

    struct Client {
        send: h2::SendStream<Bytes>,
        rx: mpsc::UnboundedReceiver<Reply>,
        closed: Arc<Mutex<Option<String>>>,
        _conn: tokio::task::JoinHandle<()>,
    }

    async fn open_mux(world: &World) -> Result<Client, String> {
        let (io, _srv) = world.serve(Proto::Http2, ChannelView::Tunnel, "main.x", None, crate::engine::world::peer_v4(), 1 << 18);
        let (send_req, conn) = h2::client::handshake(io).await.map_err(|e| e.to_string())?;
        let conn = tokio::spawn(async move {
            let _ = conn.await;
        });
        let req = http::Request::builder()
            .method("CONNECT")
            .uri("_icmp")
            .header("proxy-authorization", format!("Basic {}", b64("user:pass")))
            .body(())
            .unwrap();
        let mut sr = send_req.ready().await.map_err(|e| e.to_string())?;
        let (fut, send) = sr.send_request(req, false).map_err(|e| e.to_string())?;
        let resp = tokio::time::timeout(Duration::from_secs(5), fut).await.map_err(|_| "no response".to_string())?.map_err(|e| e.to_string())?;
        if resp.status() != 200 {
            return Err(format!("CONNECT _icmp answered {}", resp.status()));
        }
        let mut body = resp.into_body();
        let (tx, rx) = mpsc::unbounded_channel();
        let closed = Arc::new(Mutex::new(None));
        let c2 = closed.clone();
        tokio::spawn(async move {
            let _keep = sr;
            let mut buf: Vec<u8> = vec![];
            loop {
                match body.data().await {
                    Some(Ok(b)) => {
                        let _ = body.flow_control().release_capacity(b.len());
                        buf.extend_from_slice(&b);
                        while buf.len() >= 22 {
                            let r: Vec<u8> = buf.drain(..22).collect();
                            let _ = tx.send(Reply {
                                id: u16::from_be_bytes([r[0], r[1]]),
                                source: crate::reference::udpmux::decode_ip(&r[2..18]),
                                type_id: r[18],
                                code: r[19],
                                seq: u16::from_be_bytes([r[20], r[21]]),
                            });
                        }
                    }
                    other => {
                        *c2.lock().unwrap() = Some(format!("stream ended: {:?}", other.map(|r| r.map(|b| b.len()))));
                        return;
                    }
                }
            }
        });
        Ok(Client { send, rx, closed, _conn: conn })
    }

    /// A raw ICMP socket of the harness (sniffs outgoing requests, injects forged packets)
    struct Raw(i32);

    impl Raw {
        fn new() -> Result<Self, String> {
            let fd = unsafe { libc::socket(libc::AF_INET, libc::SOCK_RAW | libc::SOCK_NONBLOCK, libc::IPPROTO_ICMP) };
            if fd < 0 {
                return Err(std::io::Error::last_os_error().to_string());
            }
            Ok(Self(fd))
        }
        fn send(&self, from_host: u8, packet: &[u8]) {
            let _ = from_host;
            let addr = libc::sockaddr_in {
                sin_family: libc::AF_INET as u16,
                sin_port: 0,
                sin_addr: libc::in_addr { s_addr: u32::from_ne_bytes([127, 0, 0, 1]) },
                sin_zero: [0; 8],
            };
            unsafe {
                libc::sendto(self.0, packet.as_ptr() as *const _, packet.len(), 0, &addr as *const _ as *const libc::sockaddr, std::mem::size_of_val(&addr) as u32);
            }
        }
        /// all packets received so far (with IP header)
        fn drain(&self) -> Vec<Vec<u8>> {
            let mut out = vec![];
            loop {
                let mut buf = vec![0u8; 70_000];
                let n = unsafe { libc::recv(self.0, buf.as_mut_ptr() as *mut _, buf.len(), libc::MSG_DONTWAIT) };
                if n <= 0 {
                    return out;
                }
                buf.truncate(n as usize);
                out.push(buf);
            }
        }
    }

    impl Drop for Raw {
        fn drop(&mut self) {
            unsafe { libc::close(self.0) };
        }
    }

    /// A raw ICMPv6 socket that reports the hop limit of what it receives
    struct Raw6(i32);

    impl Raw6 {
        fn new() -> Result<Self, String> {
            let fd = unsafe { libc::socket(libc::AF_INET6, libc::SOCK_RAW | libc::SOCK_NONBLOCK, libc::IPPROTO_ICMPV6) };
            if fd < 0 {
                return Err(std::io::Error::last_os_error().to_string());
            }
            let on: libc::c_int = 1;
            unsafe {
                libc::setsockopt(fd, libc::IPPROTO_IPV6, libc::IPV6_RECVHOPLIMIT, &on as *const _ as *const libc::c_void, 4);
            }
            Ok(Self(fd))
        }
        /// (hop limit, ICMPv6 message) of everything received so far
        fn drain(&self) -> Vec<(u8, Vec<u8>)> {
            let mut out = vec![];
            loop {
                let mut buf = vec![0u8; 70_000];
                let mut cbuf = [0u8; 128];
                let mut iov = libc::iovec { iov_base: buf.as_mut_ptr() as *mut libc::c_void, iov_len: buf.len() };
                let mut msg: libc::msghdr = unsafe { std::mem::zeroed() };
                msg.msg_iov = &mut iov;
                msg.msg_iovlen = 1;
                msg.msg_control = cbuf.as_mut_ptr() as *mut libc::c_void;
                msg.msg_controllen = cbuf.len() as _;
                let n = unsafe { libc::recvmsg(self.0, &mut msg, libc::MSG_DONTWAIT) };
                if n <= 0 {
                    return out;
                }
                let mut hop = 0u8;
                unsafe {
                    let mut c = libc::CMSG_FIRSTHDR(&msg);
                    while !c.is_null() {
                        if (*c).cmsg_level == libc::IPPROTO_IPV6 && (*c).cmsg_type == libc::IPV6_HOPLIMIT {
                            let v = *(libc::CMSG_DATA(c) as *const libc::c_int);
                            hop = v as u8;
                        }
                        c = libc::CMSG_NXTHDR(&msg, c);
                    }
                }
                buf.truncate(n as usize);
                out.push((hop, buf));
            }
        }
    }

    impl Drop for Raw6 {
        fn drop(&mut self) {
            unsafe { libc::close(self.0) };
        }
    }

    #[derive(Clone, Debug)]
    struct Sent {
        client: usize,
        id: u16,
        seq: u16,
        dest: Ipv4Addr,
        silent: bool,
        at: Instant,
        /// the request as it went on the wire (ICMP part), once sniffed
        wire: Option<Vec<u8>>,
        size: u16,
        ttl: u8,
        v6: bool,
    }

    /// The same for ICMPv6 echo requests to ::1
    fn absorb6(raw: &Raw6, sent: &mut [Sent]) -> Verdict {
        for (hop, p) in raw.drain() {
            if p.len() < 8 || p[0] != 128 {
                continue;
            }
            let (pid, pseq) = (u16::from_be_bytes([p[4], p[5]]), u16::from_be_bytes([p[6], p[7]]));
            let Some(s) = sent.iter_mut().find(|s| s.v6 && s.id == pid && s.seq == pseq) else { continue };
            let what = format!("ICMPv6 echo request id {:#06x} seq {} to ::1 (asked: hop limit {}, {} data bytes)", s.id, s.seq, s.ttl, s.size);
            ensure!(s.wire.is_none(), "icmp:request-emitted-twice", "{}: seen on the wire a second time", what);
            ensure!(hop == s.ttl, "icmp:request-ttl-differs", "{}: left with hop limit {}", what, hop);
            ensure!(p[1] == 0, "icmp:request-malformed", "{}: code {}", what, p[1]);
            ensure!(p.len() == 8 + s.size as usize, "icmp:request-size-differs", "{}: {} data bytes on the wire", what, p.len() - 8);
            s.wire = Some(p);
        }
        Ok(())
    }

    /// Take the echo requests sniffed so far and check each against what its client asked for
    fn absorb(raw: &Raw, sent: &mut [Sent]) -> Verdict {
        for p in raw.drain() {
            if p.len() < 28 || p[0] >> 4 != 4 || p[20] != 8 {
                continue;
            }
            let (pid, pseq) = (u16::from_be_bytes([p[24], p[25]]), u16::from_be_bytes([p[26], p[27]]));
            let Some(s) = sent.iter_mut().find(|s| !s.v6 && s.id == pid && s.seq == pseq) else { continue };
            let what = format!("echo request id {:#06x} seq {} to {} (asked: ttl {}, {} data bytes)", s.id, s.seq, s.dest, s.ttl, s.size);
            ensure!(s.wire.is_none(), "icmp:request-emitted-twice", "{}: seen on the wire a second time", what);
            let icmp_part = &p[20..];
            ensure!(p[8] == s.ttl, "icmp:request-ttl-differs", "{}: left with TTL {}", what, p[8]);
            ensure!(p[16..20] == s.dest.octets(), "icmp:request-to-wrong-address", "{}: sent to {:?}", what, &p[16..20]);
            ensure!(icmp_part[1] == 0, "icmp:request-malformed", "{}: code {}", what, icmp_part[1]);
            ensure!(
                icmp_part.len() == 8 + s.size as usize,
                "icmp:request-size-differs",
                "{}: {} data bytes on the wire",
                what,
                icmp_part.len() - 8
            );
            ensure!(icmp::verifies(icmp_part), "icmp:request-checksum-wrong", "{}: the Internet checksum does not verify", what);
            s.wire = Some(icmp_part.to_vec());
        }
        Ok(())
    }

    async fn run_history(c: &Case, nonce: u16) -> Verdict {
        let herr = |e: String| Violation { sig: "harness:c11".into(), msg: e };
        let raw = match Raw::new() {
            Ok(r) => r,
            Err(e) => return viol("harness:raw-socket", format!("cannot open a raw ICMP socket: {}", e)),
        };
        // ICMPv6 only where the sandbox lets a raw ICMPv6 socket be opened
        let raw6 = Raw6::new().ok();
        let spec = CoreSpec { icmp: true, icmp_timeout: Duration::from_millis(TIMEOUT_MS), ipv6_available: raw6.is_some(), ..CoreSpec::default() };
        let world = Arc::new(spec.build().map_err(herr)?);
        let mut scripted = Scripted::new(|_| Outcome::Refused);
        Arc::get_mut(&mut scripted).unwrap().icmp_plan = || MuxPlan::Real;
        let _g = scripted.install(&world);
        let w2 = world.clone();
        let listener = tokio::spawn(async move { w2.core.verif_listen_icmp().await });
        tokio::time::sleep(Duration::from_millis(20)).await;
        if listener.is_finished() {
            return viol("harness:icmp-listener", "the ICMP listener could not start (raw sockets on lo)");
        }
        let mut clients = vec![];
        for _ in 0..3 {
            clients.push(open_mux(&world).await.map_err(herr)?);
        }
        let mut sent: Vec<Sent> = vec![];
        let mut got: Vec<Vec<Reply>> = vec![vec![], vec![], vec![]];
        let mut expected: Vec<Vec<Reply>> = vec![vec![], vec![], vec![]];
        let mut seq = 0u16;
        // clients whose request could not be sent: the endpoint may end their stream (nothing in the
        // property keeps it open), so they take no further part
        let mut retired = [false; 3];
        // identifiers unique to this process and case, so that parallel workers ignore each other
        let id_base = nonce | 0x8000;
        let _ = raw.drain();

        for (step, op) in c.ops.iter().enumerate() {
            let actor = match op {
                Op::Echo { c, .. } | Op::EchoSilent { c, .. } | Op::Echo6 { c, .. } | Op::EchoUnsendable { c, .. } => Some(*c as usize % 3),
                _ => None,
            };
            if actor.is_some_and(|a| retired[a]) {
                continue;
            }
            match op {
                Op::EchoUnsendable { c, over } => {
                    let ci = *c as usize % 3;
                    seq = seq.wrapping_add(1);
                    let id = id_base ^ (ci as u16);
                    let size = 65_508u16 + (*over as u16 % 28);
                    let rec = icmp::encode_request(&icmp::Request { id, destination: IpAddr::V4(Ipv4Addr::LOCALHOST), seq, ttl: 64, data_size: size });
                    clients[ci].send.send_data(Bytes::from(rec), false).map_err(|e| herr(e.to_string()))?;
                    retired[ci] = true;
                }
                Op::Echo { .. } | Op::EchoSilent { .. } => {
                    let (ci, dest, size, silent, ttl) = match op {
                        Op::Echo { c, host, size, ttl } => (*c as usize % 3, Ipv4Addr::new(127, 0, 0, 1 + host % 250), *size % 1200, false, (*ttl).max(1)),
                        Op::EchoSilent { c, size } => (*c as usize % 3, Ipv4Addr::new(192, 0, 2, 77), *size % 1200, true, 64),
                        _ => unreachable!(),
                    };
                    seq = seq.wrapping_add(1);
                    let id = id_base ^ (ci as u16);
                    let rec = icmp::encode_request(&icmp::Request { id, destination: IpAddr::V4(dest), seq, ttl, data_size: size });
                    clients[ci].send.send_data(Bytes::from(rec), false).map_err(|e| herr(e.to_string()))?;
                    sent.push(Sent { client: ci, id, seq, dest, silent, at: Instant::now(), wire: None, size, ttl, v6: false });
                    if !silent {
                        expected[ci].push(Reply { id, source: IpAddr::V4(dest), type_id: 0, code: 0, seq });
                    }
                }
                Op::Echo6 { c, size, ttl } => {
                    let Some(_) = &raw6 else { continue };
                    let ci = *c as usize % 3;
                    let size = *size % 1200;
                    let ttl = (*ttl).max(1);
                    seq = seq.wrapping_add(1);
                    let id = id_base ^ (ci as u16);
                    let dest = IpAddr::V6(std::net::Ipv6Addr::LOCALHOST);
                    let rec = icmp::encode_request(&icmp::Request { id, destination: dest, seq, ttl, data_size: size });
                    clients[ci].send.send_data(Bytes::from(rec), false).map_err(|e| herr(e.to_string()))?;
                    sent.push(Sent { client: ci, id, seq, dest: Ipv4Addr::UNSPECIFIED, silent: false, at: Instant::now(), wire: None, size, ttl, v6: true });
                    expected[ci].push(Reply { id, source: dest, type_id: 129, code: 0, seq });
                }
                Op::ErrorAbout { n, type_id, code, quote } => {
                    if sent.is_empty() {
                        continue;
                    }
                    let k = idx((*n as u16) << 8, sent.len());
                    absorb(&raw, &mut sent)?;
                    let s = sent[k].clone();
                    if s.v6 {
                        continue;
                    }
                    let Some(wire) = s.wire.clone() else { continue };
                    let keep = if *quote == 255 { wire.len() } else { (8 + *quote as usize).min(wire.len()) };
                    let quoted = icmp::ipv4_packet(1, &[], [127, 0, 0, 1], s.dest.octets(), &wire[..keep]);
                    let t = if *type_id % 2 == 0 { 3 } else { 11 };
                    let code = if t == 3 { code % 6 } else { code % 2 };
                    raw.send(1, &icmp::error(t, code, [0, 0, 0, 0], &quoted));
                    let alive = s.at.elapsed() < Duration::from_millis(TIMEOUT_MS * 7 / 10);
                    let expired = s.at.elapsed() > Duration::from_millis(TIMEOUT_MS * 13 / 10 + 50);
                    if alive {
                        expected[s.client].push(Reply { id: s.id, source: IpAddr::V4(Ipv4Addr::LOCALHOST), type_id: t, code, seq: s.seq });
                    } else if !expired {
                        // around the time-out: may or may not be delivered
                        expected[s.client].push(Reply { id: s.id, source: IpAddr::V4(Ipv4Addr::UNSPECIFIED), type_id: t, code, seq: s.seq });
                    }
                }
                Op::ErrorAboutUnknown { type_id } => {
                    let echo = icmp::echo(8, 0, id_base ^ 0x40, 0x7777, b"nobody sent this");
                    let quoted = icmp::ipv4_packet(1, &[], [127, 0, 0, 1], [127, 0, 0, 9], &echo);
                    raw.send(1, &icmp::error(if type_id % 2 == 0 { 3 } else { 11 }, 0, [0, 0, 0, 0], &quoted));
                }
                Op::Malformed { cut } => {
                    let echo = icmp::echo(8, 0, id_base, seq, b"x");
                    let quoted = icmp::ipv4_packet(1, &[], [127, 0, 0, 1], [127, 0, 0, 1], &echo);
                    let mut p = icmp::error(3, 1, [0, 0, 0, 0], &quoted);
                    p.truncate(8 + (*cut as usize % 27));
                    raw.send(1, &p);
                }
                Op::ForgedReply { n } => {
                    if sent.is_empty() {
                        continue;
                    }
                    let s = sent[idx((*n as u16) << 8, sent.len())].clone();
                    if s.v6 {
                        continue;
                    }
                    raw.send(1, &icmp::echo(0, 0, s.id, s.seq, &[]));
                    let alive = s.at.elapsed() < Duration::from_millis(TIMEOUT_MS * 7 / 10);
                    let expired = s.at.elapsed() > Duration::from_millis(TIMEOUT_MS * 13 / 10 + 50);
                    if alive {
                        expected[s.client].push(Reply { id: s.id, source: IpAddr::V4(Ipv4Addr::LOCALHOST), type_id: 0, code: 0, seq: s.seq });
                    } else if !expired {
                        expected[s.client].push(Reply { id: s.id, source: IpAddr::V4(Ipv4Addr::UNSPECIFIED), type_id: 0, code: 0, seq: s.seq });
                    }
                }
                Op::WaitTimeout => {
                    tokio::time::sleep(Duration::from_millis(TIMEOUT_MS * 13 / 10 + 80)).await;
                    let w = world.core.verif_icmp_waiters().unwrap_or(0);
                    ensure!(w == 0, "icmp:waiters-not-forgotten", "step {}: {} requests are still in the waiter table after the request time-out has passed", step, w);
                }
            }
            tokio::time::sleep(Duration::from_millis(15)).await;
            absorb(&raw, &mut sent)?;
            if let Some(r6) = &raw6 {
                absorb6(r6, &mut sent)?;
            }
            for (ci, cl) in clients.iter_mut().enumerate() {
                while let Ok(r) = cl.rx.try_recv() {
                    got[ci].push(r);
                }
                let dead = cl.closed.lock().unwrap().clone();
                ensure!(dead.is_none() || retired[ci], "icmp:multiplexer-terminated", "step {}: client {} lost its stream: {:?}", step, ci, dead);
            }
            // nothing a client receives may be unexpected for that client
            for ci in 0..3 {
                let mut pool = expected[ci].clone();
                for r in &got[ci] {
                    let pos = pool.iter().position(|e| {
                        e.id == r.id && e.seq == r.seq && e.type_id == r.type_id && e.code == r.code && (e.source == r.source || e.source == IpAddr::V4(Ipv4Addr::UNSPECIFIED))
                    });
                    match pos {
                        Some(p) => {
                            pool.remove(p);
                        }
                        None => {
                            let other = (0..3).find(|o| *o != ci && expected[*o].iter().any(|e| e.id == r.id && e.seq == r.seq));
                            return viol(
                                if other.is_some() { "icmp:reply-delivered-to-wrong-client" } else { "icmp:unexpected-report" },
                                format!("step {} ({:?}): client {} received {:?} which it must not (or not again)", step, op, ci, r),
                            );
                        }
                    }
                }
            }
        }
        tokio::time::sleep(Duration::from_millis(60)).await;
        absorb(&raw, &mut sent)?;
        if let Some(r6) = &raw6 {
            absorb6(r6, &mut sent)?;
        }
        for s in &sent {
            ensure!(
                s.silent || s.wire.is_some(),
                "icmp:request-not-emitted",
                "client {} asked for an echo (id {:#06x} seq {}) to {}: no such packet left the endpoint",
                s.client,
                s.id,
                s.seq,
                if s.v6 { "::1".to_string() } else { s.dest.to_string() }
            );
        }
        for (ci, cl) in clients.iter_mut().enumerate() {
            while let Ok(r) = cl.rx.try_recv() {
                got[ci].push(r);
            }
        }
        for ci in 0..3 {
            if retired[ci] {
                continue; // its stream may have been ended with replies still to come
            }
            for e in &expected[ci] {
                if e.source == IpAddr::V4(Ipv4Addr::UNSPECIFIED) {
                    continue; // optional
                }
                let n_exp = expected[ci].iter().filter(|x| *x == e).count();
                let n_got = got[ci].iter().filter(|x| *x == e).count();
                ensure!(
                    n_got >= n_exp,
                    if e.type_id == 0 { "icmp:reply-not-reported" } else { "icmp:error-not-reported" },
                    "client {}: {:?} expected {} time(s), reported {} time(s)",
                    ci,
                    e,
                    n_exp,
                    n_got
                );
            }
        }
        tokio::time::sleep(Duration::from_millis(TIMEOUT_MS * 13 / 10 + 80)).await;
        let w = world.core.verif_icmp_waiters().unwrap_or(0);
        ensure!(w == 0, "icmp:waiters-not-forgotten", "{} requests still in the waiter table at the end", w);
        listener.abort();
        Ok(())
    }

    pub struct ForwarderSuite;

    impl Suite for ForwarderSuite {
        type Case = Case;
        fn name(&self) -> &'static str {
            "forwarder-histories"
        }
        fn rule(&self) -> String {
            "three clients with CONNECT _icmp streams (HTTP/2 in memory) on one real IcmpForwarder bound to lo (raw ICMP sockets, kernel echo replies); histories of 3-12 operations: echo to 127.0.0.x with a generated TTL (64, 1, 255, any) and data size, echo to a silent address, ICMPv6 echo to ::1 with a generated hop limit (sniffed on a raw ICMPv6 socket with IPV6_RECVHOPLIMIT), forged destination-unreachable / time-exceeded quoting the n-th request (sniffed from the wire) with 0-200 payload bytes or completely, errors about a request nobody sent, truncated errors, forged (possibly late) echo replies, waiting past the request time-out (400 ms), an echo of 65508-65535 data bytes that the raw socket refuses with EMSGSIZE (that client takes no further part: its stream may be ended); oracle: every request to 127.0.0.x is seen on the wire exactly once with the requested TTL, destination, identifier, sequence number and data size and a verifying checksum; every reply / error about a pending request reaches exactly the requesting client with the responder's address, type, code, id and seq, once per packet; nothing else is reported to anybody; the waiter table is empty after the time-out; non-trivial = two clients with pending requests at the same time".into()
        }
        fn strategy(&self, _: Tier) -> BoxedStrategy<Case> {
            let op = prop_oneof![
                5 => (0u8..3, any::<u8>(), prop_oneof![Just(0u16), 1u16..64, 64u16..1200], prop_oneof![3 => Just(64u8), 1 => Just(1u8), 1 => Just(255u8), 2 => 1u8..=255])
                    .prop_map(|(c, host, size, ttl)| Op::Echo { c, host, size, ttl }),
                3 => (0u8..3, prop_oneof![Just(0u16), 1u16..64, 64u16..1200]).prop_map(|(c, size)| Op::EchoSilent { c, size }),
                3 => (0u8..3, prop_oneof![Just(0u16), 1u16..64, 64u16..1200], prop_oneof![3 => Just(64u8), 1 => Just(1u8), 1 => Just(255u8), 2 => 1u8..=255]).prop_map(|(c, size, ttl)| Op::Echo6 { c, size, ttl }),
                5 => (any::<u8>(), any::<u8>(), any::<u8>(), prop_oneof![3 => Just(0u8), 2 => 1u8..64, 2 => Just(255u8), 1 => 64u8..200]).prop_map(|(n, type_id, code, quote)| Op::ErrorAbout { n, type_id, code, quote }),
                1 => any::<u8>().prop_map(|type_id| Op::ErrorAboutUnknown { type_id }),
                1 => any::<u8>().prop_map(|cut| Op::Malformed { cut }),
                2 => any::<u8>().prop_map(|n| Op::ForgedReply { n }),
                1 => Just(Op::WaitTimeout),
                1 => (0u8..3, any::<u8>()).prop_map(|(c, over)| Op::EchoUnsendable { c, over }),
            ];
            prop::collection::vec(op, 3..=12).prop_map(|ops| Case { ops }).boxed()
        }
        fn cases(&self, tier: Tier) -> u64 {
            tier.pick(240, 4800)
        }
        fn classify(&self, c: &Case) -> Vec<&'static str> {
            let mut clients = std::collections::BTreeSet::new();
            for op in &c.ops {
                match op {
                    Op::Echo { c, .. } | Op::EchoSilent { c, .. } | Op::Echo6 { c, .. } => {
                        clients.insert(c % 3);
                    }
                    _ => {}
                }
            }
            let mut v = vec![];
            if clients.len() >= 2 {
                v.push("nontrivial");
            }
            if c.ops.iter().any(|o| matches!(o, Op::ErrorAbout { quote, .. } if *quote != 255)) {
                v.push("truncated-quote");
            }
            if c.ops.contains(&Op::WaitTimeout) {
                v.push("timeout");
            }
            if c.ops.iter().any(|o| matches!(o, Op::Echo6 { .. })) {
                v.push("icmpv6");
            }
            if c.ops.iter().any(|o| matches!(o, Op::EchoUnsendable { .. })) {
                v.push("request-the-socket-refuses");
            }
            let ttls: Vec<u8> = c.ops.iter().filter_map(|o| if let Op::Echo { ttl, .. } = o { Some(*ttl) } else { None }).collect();
            if ttls.windows(2).any(|w| w[0] != w[1]) {
                v.push("ttl-changes-between-requests");
            }
            v
        }
        fn required_classes(&self) -> Vec<&'static str> {
            vec!["nontrivial", "truncated-quote", "timeout", "ttl-changes-between-requests"]
        }
        fn check(&self, c: &Case) -> Verdict {
            let c = c.clone();
            // identifiers unique among the concurrently running workers and recent cases:
            // 1 | shard (4 bits) | case counter (9 bits) | client (2 bits, added later)
            static CASES: std::sync::atomic::AtomicU32 = std::sync::atomic::AtomicU32::new(0);
            let shard = engine::SHARD.load(std::sync::atomic::Ordering::SeqCst) as u16 & 0xf;
            let n = CASES.fetch_add(1, std::sync::atomic::Ordering::SeqCst) as u16 & 0x1ff;
            let nonce = (shard << 11) | (n << 2);
            aio::block_on_real(async move { run_history(&c, nonce).await })
        }
    }
}
