//! C19 — graceful shutdown reaches every participant and completes when all finish.

use crate::engine::{self, viol, Ctx, Suite, Tier, Verdict};
use crate::ensure;
use proptest::prelude::*;
use serde::{Deserialize, Serialize};
use serde_json::{json, Value};
use std::future::Future;
use std::pin::Pin;
use std::sync::atomic::{AtomicUsize, Ordering};
use std::sync::Arc;
use std::task::{Context, Poll, Wake, Waker};
use trusttunnel::shutdown::Shutdown;
use trusttunnel::verif::shutdown::{completion_guard, notification_handler, GuardDoor};

#[derive(Serialize, Deserialize, Debug, Clone, Copy, PartialEq, Eq)]
pub enum Op {
    /// participant k takes its notification handler and completion guard
    Register(u8),
    /// poll participant k's wait-for-notification future
    Poll(u8),
    Submit,
    /// participant k terminates (drops its guard and its future)
    Finish(u8),
    /// the application starts waiting for completion (first poll included)
    StartCompletion,
    PollCompletion,
    /// the application gives its completion wait up (a time-out around it, a `select!` arm that
    /// lost); a later StartCompletion waits again
    CancelCompletion,
}

struct CountingWaker(AtomicUsize);

impl Wake for CountingWaker {
    fn wake(self: Arc<Self>) {
        self.0.fetch_add(1, Ordering::SeqCst);
    }
}

struct Participant {
    wait: Option<Pin<Box<dyn Future<Output = Result<(), String>>>>>,
    guard: Option<GuardDoor>,
    had_guard: bool,
    waker: Arc<CountingWaker>,
    /// a submit happened after this participant registered
    owed_notification: bool,
    observed: bool,
    /// the wait future returned Pending at its last poll (so a wake-up is owed on submit)
    parked: bool,
    finished: bool,
}

/// Interpret a schedule against the real primitives and the model. Invalid steps are skipped.
pub fn run_schedule(ops: &[Op]) -> Verdict {
    let shutdown = Shutdown::new();
    let mut parts: Vec<Option<Participant>> = (0..4).map(|_| None).collect();
    let mut completion: Option<Pin<Box<dyn Future<Output = ()>>>> = None;
    let cwaker = Arc::new(CountingWaker(AtomicUsize::new(0)));
    let mut completion_parked = false;
    let mut completion_done = false;
    let mut completion_ever_started = false;

    let alive_guards = |parts: &Vec<Option<Participant>>| parts.iter().flatten().filter(|p| p.guard.is_some()).count();

    for (step, op) in ops.iter().enumerate() {
        match *op {
            Op::Register(k) => {
                let k = k as usize % 4;
                if parts[k].is_some() || completion.is_some() || completion_ever_started {
                    // the application holds the lock while it waits for completion; and once a
                    // completion wait has begun nobody new can register for it
                    continue;
                }
                let (mut n, g) = {
                    let s = shutdown.lock().unwrap();
                    (notification_handler(&s), completion_guard(&s))
                };
                ensure!(
                    g.is_some(),
                    "shutdown:guard-refused-before-completion",
                    "step {}: no completion guard although completion has not started",
                    step
                );
                parts[k] = Some(Participant {
                    wait: Some(Box::pin(async move { n.wait().await })),
                    had_guard: g.is_some(),
                    guard: g,
                    waker: Arc::new(CountingWaker(AtomicUsize::new(0))),
                    owed_notification: false,
                    observed: false,
                    parked: false,
                    finished: false,
                });
            }
            Op::Poll(k) => {
                let k = k as usize % 4;
                let Some(p) = parts[k].as_mut() else { continue };
                if p.finished || p.observed {
                    continue;
                }
                let waker = Waker::from(p.waker.clone());
                let mut cx = Context::from_waker(&waker);
                match p.wait.as_mut().unwrap().as_mut().poll(&mut cx) {
                    Poll::Ready(r) => {
                        ensure!(
                            p.owed_notification,
                            "shutdown:spurious-notification",
                            "step {}: participant {} was notified ({:?}) although no shutdown was submitted after it registered",
                            step,
                            k,
                            r
                        );
                        ensure!(r.is_ok(), "shutdown:notification-error", "step {}: participant {} got {:?}", step, k, r);
                        p.observed = true;
                        p.parked = false;
                        p.wait = None;
                    }
                    Poll::Pending => {
                        ensure!(
                            !p.owed_notification,
                            "shutdown:notification-missed",
                            "step {}: participant {} registered before the submission but its wait is still pending at its next poll",
                            step,
                            k
                        );
                        p.parked = true;
                    }
                }
            }
            Op::Submit => {
                if completion.is_some() {
                    continue;
                }
                let before: Vec<usize> = parts.iter().map(|p| p.as_ref().map_or(0, |p| p.waker.0.load(Ordering::SeqCst))).collect();
                shutdown.lock().unwrap().submit();
                for (k, p) in parts.iter_mut().enumerate() {
                    let Some(p) = p else { continue };
                    if p.finished || p.observed {
                        continue;
                    }
                    p.owed_notification = true;
                    if p.parked {
                        ensure!(
                            p.waker.0.load(Ordering::SeqCst) > before[k],
                            "shutdown:lost-wakeup-on-submit",
                            "step {}: participant {} is parked in wait() and was not woken by the submission",
                            step,
                            k
                        );
                        // the wake-up is delivered; the next one is owed only after another Pending
                        p.parked = false;
                    }
                }
            }
            Op::Finish(k) => {
                let k = k as usize % 4;
                let Some(p) = parts[k].as_mut() else { continue };
                if p.finished {
                    continue;
                }
                let before = cwaker.0.load(Ordering::SeqCst);
                p.finished = true;
                p.wait = None;
                p.guard = None;
                if completion_parked && !completion_done && alive_guards(&parts) == 0 {
                    ensure!(
                        cwaker.0.load(Ordering::SeqCst) > before,
                        "shutdown:lost-wakeup-on-last-finish",
                        "step {}: the last participant finished but the completion waiter was not woken",
                        step
                    );
                }
            }
            Op::CancelCompletion => {
                if completion.is_some() && !completion_done {
                    completion = None;
                    completion_parked = false;
                }
            }
            Op::StartCompletion | Op::PollCompletion => {
                if completion_done {
                    continue;
                }
                completion_ever_started |= *op == Op::StartCompletion;
                if completion.is_none() {
                    if *op == Op::PollCompletion {
                        continue;
                    }
                    let s = shutdown.clone();
                    #[allow(clippy::await_holding_lock)]
                    let fut = async move {
                        // exactly what the application does: the lock is held while waiting
                        let mut g = s.lock().unwrap();
                        g.completion().await;
                    };
                    completion = Some(Box::pin(fut));
                }
                let waker = Waker::from(cwaker.clone());
                let mut cx = Context::from_waker(&waker);
                let alive = alive_guards(&parts);
                match completion.as_mut().unwrap().as_mut().poll(&mut cx) {
                    Poll::Ready(()) => {
                        ensure!(
                            alive == 0,
                            "shutdown:completion-early",
                            "step {}: completion returned while {} registered participant(s) have not finished",
                            step,
                            alive
                        );
                        completion_done = true;
                        completion_parked = false;
                    }
                    Poll::Pending => {
                        ensure!(
                            alive > 0,
                            "shutdown:completion-hangs",
                            "step {}: every registered participant has finished but completion is still pending",
                            step
                        );
                        completion_parked = true;
                    }
                }
            }
        }
    }
    // closing checks: drive everything to the end
    if completion.is_some() && !completion_done {
        for p in parts.iter_mut().flatten() {
            p.wait = None;
            p.guard = None;
            p.finished = true;
        }
        let waker = Waker::from(cwaker.clone());
        let mut cx = Context::from_waker(&waker);
        ensure!(
            completion.as_mut().unwrap().as_mut().poll(&mut cx).is_ready(),
            "shutdown:completion-hangs",
            "all participants finished at the end of the schedule but completion is still pending"
        );
    }
    let _ = parts.iter().flatten().map(|p| p.had_guard).count();
    Ok(())
}

#[derive(Serialize, Deserialize, Debug, Clone)]
pub struct Case {
    pub ops: Vec<Op>,
}

pub struct ScheduleSuite;

fn nontrivial(ops: &[Op]) -> bool {
    // a submission falls between a registration and that participant's first poll
    for (i, op) in ops.iter().enumerate() {
        if let Op::Register(k) = op {
            let k = *k % 4;
            let mut seen_submit = false;
            for later in &ops[i + 1..] {
                match later {
                    Op::Submit => seen_submit = true,
                    Op::Poll(j) if *j % 4 == k => {
                        if seen_submit {
                            return true;
                        }
                        break;
                    }
                    Op::Finish(j) if *j % 4 == k => break,
                    _ => {}
                }
            }
        }
    }
    false
}

impl Suite for ScheduleSuite {
    type Case = Case;
    fn name(&self) -> &'static str {
        "primitive-schedules-random"
    }
    fn rule(&self) -> String {
        "schedules of 4-24 steps over {register k, poll k's notification wait, submit, finish k, start completion wait, poll completion, give the completion wait up (a later start waits again)} for up to 4 participants, executed on the real Shutdown / Notification / CompletionGuard with a hand-driven poll loop and counting wakers (every interleaving at await-point granularity is a schedule); model: a participant registered before a submission observes it at its next poll and is woken if parked, nobody is notified without a submission, completion is pending while a registered guard is alive, ready at the first poll after the last one dropped, and the waiter is woken by that drop; non-trivial = a submission falls between a registration and that participant's first poll".into()
    }
    fn strategy(&self, _: Tier) -> BoxedStrategy<Case> {
        let op = prop_oneof![
            3 => (0u8..4).prop_map(Op::Register),
            4 => (0u8..4).prop_map(Op::Poll),
            2 => Just(Op::Submit),
            3 => (0u8..4).prop_map(Op::Finish),
            2 => Just(Op::StartCompletion),
            2 => Just(Op::PollCompletion),
            1 => Just(Op::CancelCompletion),
        ];
        prop::collection::vec(op, 4..=24).prop_map(|ops| Case { ops }).boxed()
    }
    fn cases(&self, tier: Tier) -> u64 {
        tier.pick(400_000, 8_000_000)
    }
    fn classify(&self, c: &Case) -> Vec<&'static str> {
        let mut v = vec![];
        if nontrivial(&c.ops) {
            v.push("nontrivial");
        }
        if c.ops.contains(&Op::StartCompletion) {
            v.push("with-completion");
        }
        if let Some(i) = c.ops.iter().position(|o| *o == Op::CancelCompletion) {
            if c.ops[..i].contains(&Op::StartCompletion) && c.ops[i..].contains(&Op::StartCompletion) {
                v.push("completion-wait-cancelled-and-repeated");
            }
        }
        v
    }
    fn required_classes(&self) -> Vec<&'static str> {
        vec!["nontrivial", "with-completion"]
    }
    fn check(&self, c: &Case) -> Verdict {
        run_schedule(&c.ops)
    }
}

/// Every schedule up to `len` steps over two participants.
fn exhaustive(ctx: &mut Ctx) {
    const SUITE: &str = "primitive-schedules-exhaustive";
    if !ctx.suite_enabled(SUITE) {
        return;
    }
    let len = ctx.tier.pick(7usize, 8usize);
    const ALPHABET: [Op; 10] = [
        Op::Register(0),
        Op::Register(1),
        Op::Poll(0),
        Op::Poll(1),
        Op::Submit,
        Op::Finish(0),
        Op::Finish(1),
        Op::StartCompletion,
        Op::PollCompletion,
        Op::CancelCompletion,
    ];
    let total: u64 = (ALPHABET.len() as u64).pow(len as u32);
    let mut evals = 0u64;
    let mut nontriv = 0u64;
    let mut samples = vec![];
    engine::watchdog::begin_case(ctx.prop, SUITE, &json!("enumeration"));
    let mut n = ctx.shard as u64;
    while n < total {
        if evals % 200_000 == 0 {
            engine::watchdog::heartbeat();
        }
        let mut ops = Vec::with_capacity(len);
        let mut x = n;
        for _ in 0..len {
            ops.push(ALPHABET[(x % ALPHABET.len() as u64) as usize]);
            x /= ALPHABET.len() as u64;
        }
        evals += 1;
        if nontrivial(&ops) {
            nontriv += 1;
            if samples.len() < 2 && nontriv % 5000 == 1 {
                samples.push(json!({"ops": ops}));
            }
        }
        let verdict = match std::panic::catch_unwind(std::panic::AssertUnwindSafe(|| run_schedule(&ops))) {
            Ok(v) => v,
            Err(_) => viol("shutdown:panic", "panic"),
        };
        if let Err(v) = verdict {
            ctx.violation(SUITE, json!({"ops": ops}), v);
        }
        n += ctx.nshards as u64;
    }
    engine::watchdog::end_case();
    ctx.record_bulk(SUITE, evals, nontriv, &[("nontrivial", nontriv)], samples);
    let s = ctx.suite_mut(SUITE);
    s.exhaustive = Some(true);
    s.rule = format!(
        "all 10^{} schedules of exactly {} steps over the 10 operations of two participants (shorter ones are covered as prefixes with skipped steps); same interpreter and model",
        len, len
    );
}

pub fn run(ctx: &mut Ctx) {
    super::replay_corpus(ctx, replay);
    exhaustive(ctx);
    ctx.run_suite(&ScheduleSuite);
    ctx.run_suite(&super::c19sess::SessionSuite);
    ctx.run_suite(&super::c19proc::ProcessSuite);
    ctx.run_suite(&super::c19h3::H3WindDownSuite);
    ctx.assume("while the application waits for completion it holds the Shutdown mutex (as endpoint/src/main.rs does), so registrations and submissions after that point are not part of the model");
    ctx.assume("process level: real time on loopback; a graceful end of a session is recognised by the TLS close_notify (a process that exits or drops the socket sends none)");
}

pub fn replay(ctx: &mut Ctx, suite: &str, case: &Value) -> bool {
    match suite {
        "h3-tunnel-wind-down" => ctx.replay_suite(&super::c19h3::H3WindDownSuite, case),
        "primitive-schedules-random" => ctx.replay_suite(&ScheduleSuite, case),
        "process-shutdown" => ctx.replay_suite(&super::c19proc::ProcessSuite, case),
        "session-wind-down" => ctx.replay_suite(&super::c19sess::SessionSuite, case),
        "primitive-schedules-exhaustive" => {
            let Ok(c) = serde_json::from_value::<Case>(case.clone()) else { return false };
            ctx.record(suite, &["replayed"], || case.clone());
            if let Err(v) = run_schedule(&c.ops) {
                ctx.violation(suite, case.clone(), v);
            }
            true
        }
        _ => false,
    }
}
