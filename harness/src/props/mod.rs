//! One module per property.

use crate::engine::{Ctx, Tier};
use serde_json::Value;

pub mod c01;
pub mod c01pipe;
pub mod c02;
pub mod c02bp;
pub mod c02credit;
pub mod c02h3;
pub mod c02real;
pub mod c02sess;
pub mod c02socks;
pub mod c02tick;
pub mod c03;
pub mod c03conn;
pub mod c04;
pub mod c05;
pub mod c05proc;
pub mod c05quic;
pub mod c06;
pub mod c07;
pub mod c08;
pub mod c09;
pub mod c09net;
pub mod c09num;
pub mod c10;
pub mod c10real;
pub mod tunnelreq;
pub mod c11;
pub mod c12;
pub mod c12quic;
pub mod c13;
pub mod c13bin;
pub mod c14;
pub mod c14sess;
pub mod c14tls;
pub mod c15;
pub mod c15fwd;
pub mod c16;
pub mod c16http;
pub mod c17;
pub mod c17stall;
pub mod c18;
pub mod c19;
pub mod c19h3;
pub mod c19proc;
pub mod c19sess;
pub mod frontdoor;
pub mod c20;
pub mod c20quic;
pub mod pipes;

pub struct PropDef {
    pub id: &'static str,
    pub level: &'static str,
    pub run: fn(&mut Ctx),
    pub replay: fn(&mut Ctx, &str, &Value) -> bool,
    pub workers: fn(Tier) -> u32,
    /// cargo-fuzz targets run in the thorough tier
    pub fuzz: &'static [&'static str],
}

fn w16(_: Tier) -> u32 {
    16
}

pub static PROPS: &[PropDef] = &[
    PropDef {
        id: "C01",
        level: "exploration",
        run: c01::run,
        replay: c01::replay,
        workers: w16,
        fuzz: &[],
    },
    PropDef {
        id: "C02",
        level: "fault_enumeration",
        run: c02::run,
        replay: c02::replay,
        workers: w16,
        fuzz: &[],
    },
    PropDef {
        id: "C03",
        level: "exploration",
        run: c03::run,
        replay: c03::replay,
        workers: w16,
        fuzz: &[],
    },
    PropDef {
        id: "C07",
        level: "exploration",
        run: c07::run,
        replay: c07::replay,
        workers: w16,
        fuzz: &[],
    },
    PropDef {
        id: "C08",
        level: "exploration",
        run: c08::run,
        replay: c08::replay,
        workers: w16,
        fuzz: &["h1_heads"],
    },
    PropDef {
        id: "C09",
        level: "exploration",
        run: c09::run,
        replay: c09::replay,
        workers: w16,
        fuzz: &["udp_decoder", "icmp_packets", "client_random", "h1_heads", "socks5_server_bytes", "icmp_mux_stream", "udp_roundtrip"],
    },
    PropDef {
        id: "C10",
        level: "fault_enumeration",
        run: c10::run,
        replay: c10::replay,
        workers: w16,
        fuzz: &[],
    },
    PropDef {
        id: "C11",
        level: "exploration",
        run: c11::run,
        replay: c11::replay,
        workers: w16,
        fuzz: &["icmp_packets", "icmp_mux_stream"],
    },
    PropDef {
        id: "C12",
        level: "exploration",
        run: c12::run,
        replay: c12::replay,
        workers: w16,
        fuzz: &["client_random"],
    },
    PropDef {
        id: "C13",
        level: "exploration",
        run: c13::run,
        replay: c13::replay,
        workers: w16,
        fuzz: &[],
    },
    PropDef {
        id: "C14",
        level: "exploration",
        run: c14::run,
        replay: c14::replay,
        workers: w16,
        fuzz: &[],
    },
    PropDef {
        id: "C04",
        level: "exploration",
        run: c04::run,
        replay: c04::replay,
        workers: w16,
        fuzz: &[],
    },
    PropDef {
        id: "C05",
        level: "exploration",
        run: c05::run,
        replay: c05::replay,
        workers: w16,
        fuzz: &[],
    },
    PropDef {
        id: "C15",
        level: "fault_enumeration",
        run: c15::run,
        replay: c15::replay,
        workers: w16,
        fuzz: &["socks5_server_bytes"],
    },
    PropDef {
        id: "C16",
        level: "exploration",
        run: c16::run,
        replay: c16::replay,
        workers: w16,
        fuzz: &[],
    },
    PropDef {
        id: "C17",
        level: "exploration",
        run: c17::run,
        replay: c17::replay,
        workers: w16,
        fuzz: &[],
    },
    PropDef {
        id: "C18",
        level: "exploration",
        run: c18::run,
        replay: c18::replay,
        workers: w16,
        fuzz: &[],
    },
    PropDef {
        id: "C19",
        level: "exploration",
        run: c19::run,
        replay: c19::replay,
        workers: w16,
        fuzz: &[],
    },
    PropDef {
        id: "C20",
        level: "exploration",
        run: c20::run,
        replay: c20::replay,
        workers: w16,
        fuzz: &[],
    },
    PropDef {
    id: "C06",
    level: "exploration",
    run: c06::run,
    replay: c06::replay,
    workers: w16,
        fuzz: &["udp_decoder", "udp_roundtrip"],
}
];

pub fn find(id: &str) -> Option<&'static PropDef> {
    PROPS.iter().find(|p| p.id == id)
}

/// Replay every committed corpus file of a property (shard 0 only).
pub fn replay_corpus(ctx: &mut Ctx, replay: fn(&mut Ctx, &str, &Value) -> bool) {
    if ctx.shard != 0 {
        return;
    }
    let dir = format!("{}/corpus/{}", crate::engine::VERIF_ROOT, ctx.prop);
    let Ok(rd) = std::fs::read_dir(&dir) else {
        return;
    };
    let mut files: Vec<_> = rd.filter_map(|e| e.ok()).map(|e| e.path()).collect();
    files.sort();
    for f in files {
        if f.extension().and_then(|e| e.to_str()) != Some("json") {
            continue;
        }
        let Some(body) = std::fs::read_to_string(&f)
            .ok()
            .and_then(|t| serde_json::from_str::<Value>(&t).ok())
        else {
            continue;
        };
        let suite = body["suite"].as_str().unwrap_or("").to_string();
        if !ctx.suite_enabled(&suite) {
            continue;
        }
        replay(ctx, &suite, &body["case"]);
    }
}
