//! C10 — every tunnel request gets exactly one, correctly coded, final response.

use crate::engine::world::{CoreSpec, Event, Outcome, Scripted};
use crate::engine::{aio, viol, Ctx, Suite, Tier, Verdict};
use crate::ensure;
use crate::props::tunnelreq::{b64, run_h1, run_h2, AuthHeader, Obs, Req};
use proptest::prelude::*;
use serde::{Deserialize, Serialize};
use serde_json::Value;
use std::time::Duration;
use trusttunnel::verif::session::{DestView, MuxPlan};

pub const RESERVED: [&str; 3] = ["_check", "_udp2", "_icmp"];

#[derive(Serialize, Deserialize, Debug, Clone)]
pub struct Case {
    pub h2: bool,
    pub method: String,
    pub authority: String,
    pub kind: String,
    pub creds_valid: bool,
    pub outcome: Outcome,
    pub mux_fails: bool,
    /// the forwarder's authentication step for _udp2 / _icmp: 0 passes, 1 rejects the credentials,
    /// 2 I/O error, 3 times out, 4 host unreachable
    #[serde(default)]
    pub mux_auth: u8,
    /// HTTP/3 (quiche client, real QUIC listener, real time); `h2` is then ignored
    #[serde(default)]
    pub h3: bool,
    /// HTTP/1.1 CONNECT: the client sends its first payload bytes right behind the request head,
    /// without waiting for the answer
    #[serde(default)]
    pub early_data: bool,
    /// the early data leaves this long after the head (0 = together with it); generated around the
    /// moment at which the endpoint gives its answer
    #[serde(default)]
    pub early_delay_ms: u32,
}

pub struct ResponseSuite;

fn authority_strategy() -> BoxedStrategy<(String, String)> {
    let reserved = prop::sample::select(RESERVED.to_vec()).prop_map(|s| ("reserved".to_string(), s.to_string()));
    let lookalike_port = prop::sample::select(vec![
        "_check:80", "_CHECK:443", "_Check:1", "x_check:80", "_check.:80", "_udp2:53", "_UDP2:53", "_udp:53",
        "_udp22:53", "_icmp:1", "_ICMP:7", "_icmp6:9", "check:80", "_check._udp2:80",
    ])
    .prop_map(|s| ("lookalike-with-port".to_string(), s.to_string()));
    let lookalike_noport = prop::sample::select(vec![
        "_CHECK", "_Check", "_check.", "x_check", "_udp", "_udp22", "_UDP2", "_icmp6", "_ICMP", "check",
    ])
    .prop_map(|s| ("lookalike-no-port".to_string(), s.to_string()));
    let host_port = ("[a-z]{1,8}(\\.[a-z]{2,5}){1,2}", 1u16..=65535)
        .prop_map(|(h, p)| ("host-port".to_string(), format!("{}:{}", h, p)));
    let host_noport = "[a-z]{1,8}\\.[a-z]{2,4}".prop_map(|h| ("host-no-port".to_string(), h));
    let v4 = (any::<[u8; 4]>(), 1u16..=65535).prop_map(|(a, p)| {
        (
            "ipv4-literal".to_string(),
            format!("{}.{}.{}.{}:{}", a[0], a[1], a[2], a[3], p),
        )
    });
    let v6 = (any::<[u16; 8]>(), 1u16..=65535).prop_map(|(a, p)| {
        (
            "ipv6-literal".to_string(),
            format!("[{}]:{}", std::net::Ipv6Addr::from(a), p),
        )
    });
    // a colon, or brackets, but no usable port: still "a CONNECT without a port" (":+80" is not in
    // the list: the http crate reads it as port 80, a lenient spelling of a port, not a missing one)
    let malformed = prop_oneof![
        any::<[u16; 8]>().prop_map(|a| format!("[{}]", std::net::Ipv6Addr::from(a))),
        ("[a-z]{1,8}\\.[a-z]{2,4}", 65_536u32..1_000_000).prop_map(|(h, p)| format!("{}:{}", h, p)),
        "[a-z]{1,8}\\.[a-z]{2,4}".prop_map(|h| format!("{}:", h)),
        ("[a-z]{1,8}\\.[a-z]{2,4}", prop::sample::select(vec!["8o", "-1", "0x50", " 80", "80 ", "http"])).prop_map(|(h, p)| format!("{}:{}", h, p)),
        "[a-z]{1,8}\\.[a-z]{2,4}".prop_map(|h| format!("user:pw@{}", h)),
        any::<[u8; 4]>().prop_map(|a| format!("{}.{}.{}.{}:", a[0], a[1], a[2], a[3])),
        any::<[u16; 8]>().prop_map(|a| format!("[{}]:", std::net::Ipv6Addr::from(a))),
    ]
    .prop_map(|s| ("malformed-port".to_string(), s));
    prop_oneof![
        4 => reserved,
        3 => lookalike_port,
        2 => lookalike_noport,
        4 => host_port,
        1 => host_noport,
        2 => malformed,
        2 => v4,
        2 => v6,
    ]
    .boxed()
}

fn outcome_strategy() -> BoxedStrategy<Outcome> {
    prop::sample::select(vec![
        Outcome::Echo,
        Outcome::Echo,
        Outcome::Refused,
        Outcome::HostUnreachable,
        Outcome::Timeout,
        Outcome::Never,
        Outcome::DnsLoopback,
        Outcome::DnsNonroutable,
        Outcome::ResolveFail,
        Outcome::TooManyFiles,
        Outcome::Other,
        Outcome::DelayedEcho(500),
    ])
    .boxed()
}

#[derive(Debug, PartialEq)]
enum Egress {
    None,
    Tcp(DestView),
    Udp,
    Icmp,
}

struct Expected {
    status: u16,
    /// None = any (mux creation failed after the 200 had to be sent)
    warn: Option<&'static str>,
    host_header: bool,
    egress: Egress,
    status_dont_care: bool,
    /// any refusal will do (a status that is not 2xx, a reset stream, a closed connection)
    refusal_any: bool,
}

const ESTABLISHMENT_MS: u64 = 30_000;

fn dest_of(authority: &str) -> Option<DestView> {
    if let Ok(a) = authority.parse::<std::net::SocketAddr>() {
        return Some(DestView::Address(a));
    }
    let (h, p) = authority.rsplit_once(':')?;
    let p: u16 = p.parse().ok()?;
    Some(DestView::HostName(h.to_string(), p))
}

fn expected(c: &Case) -> Expected {
    let none = |status, warn| Expected {
        status,
        warn,
        host_header: false,
        egress: Egress::None,
        status_dont_care: false,
        refusal_any: false,
    };
    if c.kind == "malformed-port" && c.method == "CONNECT" {
        // where the refusal comes from (codec, client library, tunnel) is not specified
        return Expected { refusal_any: true, ..none(502, None) };
    }
    if !c.creds_valid {
        return none(407, None);
    }
    let is_reserved = RESERVED.contains(&c.authority.as_str());
    if is_reserved && c.method != "CONNECT" {
        return none(502, None);
    }
    if is_reserved && c.authority != "_check" && c.mux_auth != 0 {
        return match c.mux_auth {
            1 => none(407, None),
            2 => none(502, Some("300")),
            3 => none(502, Some("302")),
            _ => none(502, Some("301")),
        };
    }
    if is_reserved {
        return match c.authority.as_str() {
            "_check" => none(200, None),
            "_udp2" => Expected {
                status: 200,
                warn: None,
                host_header: false,
                egress: Egress::Udp,
                status_dont_care: c.mux_fails,
                refusal_any: false,
            },
            _ => Expected {
                status: 200,
                warn: None,
                host_header: false,
                egress: Egress::Icmp,
                status_dont_care: c.mux_fails,
                refusal_any: false,
            },
        };
    }
    // CONNECT to an ordinary authority
    let Some(dest) = dest_of(&c.authority) else {
        return none(502, None); // no port
    };
    let (status, warn, host_header) = match c.outcome {
        Outcome::Echo | Outcome::Silent | Outcome::DelayedEcho(_) => (200, None, false),
        Outcome::Refused | Outcome::ResolveFail | Outcome::TooManyFiles | Outcome::Other => {
            (502, Some("300"), false)
        }
        Outcome::HostUnreachable => (502, Some("301"), false),
        Outcome::Timeout | Outcome::Never => (502, Some("302"), false),
        Outcome::DnsNonroutable => (502, Some("310"), true),
        Outcome::DnsLoopback => (502, Some("311"), true),
    };
    Expected {
        status,
        warn,
        host_header,
        egress: Egress::Tcp(dest),
        status_dont_care: false,
        refusal_any: false,
    }
}

pub fn judge(c: &Case, obs: &Obs, events: &[Event]) -> Verdict {
    let exp = expected(c);
    let what = format!(
        "{} {} {} creds_valid={} outcome={:?}",
        if c.h3 { "h3" } else if c.h2 { "h2" } else { "h1" },
        c.method,
        c.authority,
        c.creds_valid,
        c.outcome
    );
    // egress first: it is the safety-relevant part
    let tcp: Vec<&DestView> = events
        .iter()
        .filter_map(|e| match e {
            Event::TcpConnect(m) => Some(&m.destination),
            _ => None,
        })
        .collect();
    let udp = events.iter().filter(|e| matches!(e, Event::UdpMux(_))).count();
    let icmp = events.iter().filter(|e| matches!(e, Event::IcmpMux)).count();
    match &exp.egress {
        Egress::None => {
            let sig = if RESERVED.contains(&c.authority.as_str()) {
                "egress:reserved-authority-reached-forwarder"
            } else if !c.creds_valid {
                "egress:unauthenticated"
            } else {
                "egress:unexpected"
            };
            ensure!(
                tcp.is_empty() && udp == 0 && icmp == 0,
                sig,
                "{}: expected no forwarder call, saw tcp={:?} udp={} icmp={}",
                what,
                tcp,
                udp,
                icmp
            );
        }
        Egress::Tcp(d) => {
            ensure!(
                tcp.len() == 1 && tcp[0] == d && udp == 0 && icmp == 0,
                if c.kind.starts_with("lookalike") {
                    "egress:lookalike-treated-as-reserved"
                } else {
                    "egress:wrong-destination"
                },
                "{}: expected exactly one connect to {:?}, saw tcp={:?} udp={} icmp={}",
                what,
                d,
                tcp,
                udp,
                icmp
            );
        }
        Egress::Udp => ensure!(
            tcp.is_empty() && udp == 1 && icmp == 0,
            "egress:reserved-authority-reached-forwarder",
            "{}: expected one UDP multiplexer, saw tcp={:?} udp={} icmp={}",
            what,
            tcp,
            udp,
            icmp
        ),
        Egress::Icmp => ensure!(
            tcp.is_empty() && udp == 0 && icmp == 1,
            "egress:reserved-authority-reached-forwarder",
            "{}: expected one ICMP multiplexer, saw tcp={:?} udp={} icmp={}",
            what,
            tcp,
            udp,
            icmp
        ),
    }
    if exp.refusal_any {
        ensure!(
            !obs.status.is_some_and(|s| (200..300).contains(&s)),
            "status:portless-connect-accepted",
            "{}: a CONNECT whose authority has no usable port was answered {:?}",
            what,
            obs.status
        );
        return Ok(());
    }
    ensure!(
        obs.error.is_none() || obs.status.is_some(),
        "response:none",
        "{}: client saw an error instead of a response: {:?}",
        what,
        obs.error
    );
    let Some(status) = obs.status else {
        return viol(
            "response:none",
            format!("{}: no final response within the establishment timeout + 5 s", what),
        );
    };
    ensure!(!obs.second_response, "response:second", "{}: a second response head followed the first", what);
    if !exp.status_dont_care {
        let sig = match (exp.status, status) {
            (407, _) => "status:authentication-failure-not-407",
            (_, 407) => "status:spurious-407",
            (200, _) => "status:success-not-200",
            (_, 200) => "status:failure-answered-200",
            _ => "status:wrong",
        };
        ensure!(
            status == exp.status,
            sig,
            "{}: status {} (want {}), headers {:?}",
            what,
            status,
            exp.status,
            obs.headers
        );
    }
    if status == 407 {
        let ch = obs.header("proxy-authenticate").unwrap_or("");
        ensure!(
            ch.starts_with("Basic"),
            "header:challenge-missing",
            "{}: 407 without a Basic challenge: {:?}",
            what,
            obs.headers
        );
    }
    if let Some(prefix) = exp.warn {
        let w = obs.header("x-warning").unwrap_or("");
        ensure!(
            w.starts_with(prefix),
            "header:wrong-warning-code",
            "{}: X-Warning {:?}, want code {}",
            what,
            w,
            prefix
        );
        if exp.host_header {
            let host = c.authority.rsplit_once(':').map(|x| x.0).unwrap_or(&c.authority);
            let h = obs.header("x-adguard-vpn-error").unwrap_or("");
            ensure!(
                h.contains(host.trim_matches(|c| c == '[' || c == ']')),
                "header:offending-host-missing",
                "{}: refusal does not name the offending host: {:?}",
                what,
                obs.headers
            );
        }
    }
    if status == 200 && matches!(exp.egress, Egress::Tcp(_)) {
        ensure!(
            obs.echoed == Some(true),
            "tunnel:not-relaying-after-200",
            "{}: 200 but the payload did not come back from the echo destination",
            what
        );
    }
    // timing: failures decided by the endpoint's own timer must arrive at the limit
    if c.h3 {
        // real time: only "answered at all within the budget" (checked above)
    } else if c.outcome == Outcome::Never && matches!(exp.egress, Egress::Tcp(_)) {
        ensure!(
            obs.after_ms >= ESTABLISHMENT_MS && obs.after_ms <= ESTABLISHMENT_MS + 1000,
            "timing:establishment-timeout",
            "{}: response after {} ms, establishment timeout is {} ms",
            what,
            obs.after_ms,
            ESTABLISHMENT_MS
        );
    } else {
        ensure!(
            obs.after_ms <= 1000,
            "timing:late-response",
            "{}: response only after {} virtual ms",
            what,
            obs.after_ms
        );
    }
    Ok(())
}

pub fn request_of(c: &Case) -> Req {
    let auth = if c.creds_valid {
        AuthHeader::Raw(format!("Basic {}", b64("user:pass")).into_bytes())
    } else {
        AuthHeader::Raw(format!("Basic {}", b64("user:wrong")).into_bytes())
    };
    let mut r = Req::connect(&c.authority, auth);
    r.method = c.method.clone();
    r.early_payload = c.early_data;
    r.early_delay_ms = c.early_delay_ms;
    if c.early_data && c.early_delay_ms == 1 {
        // more than the codec hands over at once: the rest waits in the transport while the
        // request is being decided
        r.payload = (0..70_000usize).map(|i| (i * 7 + (i >> 8)) as u8).collect();
        r.early_delay_ms = 0;
    }
    if c.method != "CONNECT" {
        // reserved authority with another method: absolute form names it as the host
        r.target = format!("http://{}/", c.authority);
        r.payload = vec![];
    }
    r
}

fn script(c: &Case) -> std::sync::Arc<Scripted> {
    let outcome = c.outcome.clone();
    let mut scripted = Scripted::new(move |_| outcome.clone());
    if c.mux_fails {
        let s = std::sync::Arc::get_mut(&mut scripted).unwrap();
        s.udp_plan = || MuxPlan::Fail(std::io::Error::from(std::io::ErrorKind::AddrNotAvailable));
        s.icmp_plan = || MuxPlan::NotConfigured;
    }
    {
        use trusttunnel::verif::session::ConnErrView;
        let s = std::sync::Arc::get_mut(&mut scripted).unwrap();
        s.auth_plan = match c.mux_auth {
            0 => || Ok(()),
            1 => || Err(ConnErrView::Authentication("upstream rejects the credentials".into())),
            2 => || Err(ConnErrView::Io(std::io::Error::from(std::io::ErrorKind::ConnectionRefused))),
            3 => || Err(ConnErrView::Timeout),
            _ => || Err(ConnErrView::HostUnreachable),
        };
    }
    scripted
}

pub fn execute(c: &Case) -> (Obs, Vec<Event>) {
    if c.h3 {
        let spec = CoreSpec { establishment_timeout: Duration::from_millis(400), quic: true, ..CoreSpec::default() };
        let c = c.clone();
        return aio::block_on_real(async move {
            let net = match crate::engine::networld::NetWorld::start(&spec).await {
                Ok(n) => n,
                Err(e) => return (Obs { error: Some(format!("harness: {}", e)), ..Default::default() }, vec![]),
            };
            let scripted = script(&c);
            let _guard = scripted.install(&net.world);
            let req = request_of(&c);
            let obs = crate::props::tunnelreq::run_h3(&net, "main.x", &[req], Duration::from_millis(2500)).await.remove(0);
            tokio::time::sleep(Duration::from_millis(20)).await;
            (obs, scripted.events())
        });
    }
    let spec = CoreSpec {
        establishment_timeout: Duration::from_millis(ESTABLISHMENT_MS),
        ..CoreSpec::default()
    };
    let outcome = c.outcome.clone();
    let mux_fails = c.mux_fails;
    aio::block_on_paused(async move {
        let world = spec.build().expect("core");
        let mut scripted = Scripted::new(move |_| outcome.clone());
        if mux_fails {
            let s = std::sync::Arc::get_mut(&mut scripted).unwrap();
            s.udp_plan = || MuxPlan::Fail(std::io::Error::from(std::io::ErrorKind::AddrNotAvailable));
            s.icmp_plan = || MuxPlan::NotConfigured;
        }
        {
            use trusttunnel::verif::session::ConnErrView;
            let s = std::sync::Arc::get_mut(&mut scripted).unwrap();
            s.auth_plan = match c.mux_auth {
                0 => || Ok(()),
                1 => || Err(ConnErrView::Authentication("upstream rejects the credentials".into())),
                2 => || Err(ConnErrView::Io(std::io::Error::from(std::io::ErrorKind::ConnectionRefused))),
                3 => || Err(ConnErrView::Timeout),
                _ => || Err(ConnErrView::HostUnreachable),
            };
        }
        let _guard = scripted.install(&world);
        let req = request_of(c);
        let wait = Duration::from_millis(ESTABLISHMENT_MS + 5000);
        let obs = if c.h2 {
            run_h2(&world, "main.x", None, &[req], wait).await.remove(0)
        } else {
            run_h1(&world, "main.x", None, &req, wait).await
        };
        // let spawned request tasks finish bookkeeping
        tokio::time::sleep(Duration::from_millis(50)).await;
        (obs, scripted.events())
    })
}

impl Suite for ResponseSuite {
    type Case = Case;
    fn name(&self) -> &'static str {
        "final-response"
    }
    fn rule(&self) -> String {
        "method x authority (reserved names, look-alikes differing by case/suffix with and without port, host:port, host without port, authorities with a colon or brackets but no usable port - [v6], host:99999, host:, host:8o, user:pw@host -, IPv4/IPv6 literals) x credentials valid/invalid x scripted outcome of the outbound attempt (success, refused, unreachable, timed out, never completes, policy refusal loopback/non-routable, resolver failure, EMFILE, other, delayed success) x outcome of the forwarder's authentication step for _udp2 / _icmp (passes, credentials rejected, I/O error, timed out, unreachable) x {HTTP/1.1, HTTP/2} served in memory by the real Tunnel + HttpDownstream + codecs under a paused clock; oracle = table from PROTOCOL.md and the property statement (status, X-Warning code, offending host, exactly one response, forwarder calls, time of the response); non-trivial = failure outcome or reserved/look-alike authority".into()
    }
    fn strategy(&self, _: Tier) -> BoxedStrategy<Case> {
        (
            any::<bool>(),
            prop_oneof![6 => Just("CONNECT"), 1 => Just("GET"), 1 => Just("POST"), 1 => Just("OPTIONS")],
            authority_strategy(),
            prop_oneof![5 => Just(true), 1 => Just(false)],
            outcome_strategy(),
            prop_oneof![4 => Just(false), 1 => Just(true)],
            prop_oneof![3 => Just(0u8), 1 => 1u8..=4],
            prop_oneof![2 => Just(false), 1 => Just(true)],
            // with the head, shortly after it, or at the instant the establishment timer fires
            prop_oneof![3 => Just(0u32), 2 => 1u32..4, 3 => (ESTABLISHMENT_MS as u32 - 2)..(ESTABLISHMENT_MS as u32 + 3), 1 => Just(500u32)],
        )
            .prop_map(|(h2, method, (kind, authority), creds_valid, outcome, mux_fails, mux_auth, early_data, early_delay_ms)| {
                let method = if kind == "reserved" { method } else { "CONNECT" };
                Case {
                    h2,
                    method: method.to_string(),
                    authority,
                    kind,
                    creds_valid,
                    outcome,
                    mux_fails,
                    mux_auth,
                    h3: false,
                    early_data: early_data && !h2,
                    early_delay_ms: if early_data && !h2 { early_delay_ms } else { 0 },
                }
            })
            .boxed()
    }
    fn cases(&self, tier: Tier) -> u64 {
        tier.pick(40_000, 600_000)
    }
    fn classify(&self, c: &Case) -> Vec<&'static str> {
        let mut v = vec![];
        let failure = !matches!(c.outcome, Outcome::Echo | Outcome::DelayedEcho(_));
        if c.kind == "reserved" {
            v.push("reserved");
        }
        if c.kind.starts_with("lookalike") {
            v.push("lookalike");
        }
        if c.kind == "malformed-port" {
            v.push("colon-or-brackets-but-no-usable-port");
        }
        if failure {
            v.push("failure-outcome");
        }
        if !c.creds_valid {
            v.push("invalid-credentials");
        }
        if c.early_data && failure {
            v.push("early-data-before-a-failure-answer");
        }
        if c.mux_auth != 0 && c.creds_valid && c.method == "CONNECT" && (c.authority == "_udp2" || c.authority == "_icmp") {
            v.push("multiplexer-authentication-fails");
        }
        v.push(if c.h2 { "h2" } else { "h1" });
        if failure || c.kind == "reserved" || c.kind.starts_with("lookalike") || c.kind == "malformed-port" {
            v.push("nontrivial");
        }
        v
    }
    fn required_classes(&self) -> Vec<&'static str> {
        vec!["nontrivial", "reserved", "lookalike", "failure-outcome", "h1", "h2", "multiplexer-authentication-fails", "colon-or-brackets-but-no-usable-port"]
    }
    fn check(&self, c: &Case) -> Verdict {
        let (obs, events) = execute(c);
        judge(c, &obs, &events)
    }
}

/// The same table for HTTP/3 requests over the real QUIC listener
pub struct ResponseH3Suite;

impl Suite for ResponseH3Suite {
    type Case = Case;
    fn name(&self) -> &'static str {
        "final-response-h3"
    }
    fn rule(&self) -> String {
        "the cases of suite final-response sent by a quiche HTTP/3 client to the real QUIC listener of Core::listen (scripted forwarder installed on that endpoint, establishment timeout 400 ms, real time, 2.5 s to answer); same oracle except for the time of the response; non-trivial = failure outcome or reserved / look-alike authority".into()
    }
    fn strategy(&self, t: Tier) -> BoxedStrategy<Case> {
        ResponseSuite
            .strategy(t)
            .prop_map(|mut c| {
                c.h3 = true;
                if let Outcome::DelayedEcho(_) = c.outcome {
                    c.outcome = Outcome::DelayedEcho(100);
                }
                c
            })
            .boxed()
    }
    fn cases(&self, tier: Tier) -> u64 {
        tier.pick(640, 16_000)
    }
    fn classify(&self, c: &Case) -> Vec<&'static str> {
        ResponseSuite.classify(c).into_iter().filter(|x| *x != "h1" && *x != "h2").collect()
    }
    fn required_classes(&self) -> Vec<&'static str> {
        vec!["nontrivial", "reserved", "lookalike", "failure-outcome"]
    }
    fn check(&self, c: &Case) -> Verdict {
        let (obs, events) = execute(c);
        judge(c, &obs, &events)
    }
}

pub fn run(ctx: &mut Ctx) {
    super::replay_corpus(ctx, replay);
    ctx.run_suite(&ResponseSuite);
    ctx.run_suite(&ResponseH3Suite);
    ctx.run_suite(&super::c10real::RealConnectSuite);
    // the real forwarder's choice among several resolver answers decides between 200 and 502 / 310 / 311
    ctx.run_suite(&super::c03conn::ConnectorSuite);
    ctx.assume("HTTP/3 runs in real time against the real QUIC listener with a 400 ms establishment timeout; the time of the response is judged on HTTP/1.1 and HTTP/2 only (virtual clock)");
    ctx.assume("a multiplexer whose creation fails after the 200 had to be sent is don't-care for the status (exactly one response still required)");
    ctx.assume("CONNECT with an Expect header is answered 417 by the codec before the tunnel channel and is excluded");
}

pub fn replay(ctx: &mut Ctx, suite: &str, case: &Value) -> bool {
    match suite {
        "final-response" => ctx.replay_suite(&ResponseSuite, case),
        "final-response-h3" => ctx.replay_suite(&ResponseH3Suite, case),
        "real-connect-errors" => ctx.replay_suite(&super::c10real::RealConnectSuite, case),
        "connector-spellings" => ctx.replay_suite(&super::c03conn::ConnectorSuite, case),
        _ => false,
    }
}
