//! C20 over HTTP/3: requests with canary secrets through the real QUIC listener at trace level.

use crate::engine::networld::NetWorld;
use crate::engine::quic::h3_request;
use crate::engine::world::CoreSpec;
use crate::engine::{aio, logcap, viol, Suite, Tier, Verdict};
use crate::props::tunnelreq::b64;
use proptest::prelude::*;
use serde::{Deserialize, Serialize};
use std::time::Duration;

#[derive(Serialize, Deserialize, Debug, Clone)]
pub struct Case {
    /// 0 CONNECT host:port, 1 CONNECT _check, 2 GET absolute (plain forwarding), 3 CONNECT _udp2, 4 x-ping
    pub kind: u8,
    /// Proxy-Authorization: 0 absent, 1 wrong pair, 2 configured pair, 3 bearer, 4 malformed base64,
    /// 5 token without a scheme, 6 lower-case scheme
    pub auth: u8,
    pub with_authorization: bool,
    pub with_cookie: bool,
    /// SNI carries a credentials label
    pub sni_creds: bool,
    pub nonce: u32,
}

pub struct H3LeakSuite;

impl Suite for H3LeakSuite {
    type Case = Case;
    fn name(&self) -> &'static str {
        "h3-log-canaries"
    }
    fn rule(&self) -> String {
        "a quiche HTTP/3 client sends one request (CONNECT host:port, CONNECT _check, absolute-form GET, CONNECT _udp2, x-ping) to the real QUIC listener of Core::listen with unique canary strings in Proxy-Authorization (wrong pair, configured pair, other scheme, malformed, no scheme, lower-case scheme), Authorization, Cookie (each also as a repeated field with a second secret) and optionally in the credentials label of the SNI, log level trace, records read back from the endpoint's own FileLogger; oracle: no record contains a canary verbatim, base64-encoded or base64-decoded; non-trivial = a request that is rejected or fails".into()
    }
    fn strategy(&self, _: Tier) -> BoxedStrategy<Case> {
        (0u8..5, 0u8..7, any::<bool>(), any::<bool>(), any::<bool>(), any::<u32>())
            .prop_map(|(kind, auth, with_authorization, with_cookie, sni_creds, nonce)| Case { kind, auth, with_authorization, with_cookie, sni_creds, nonce })
            .boxed()
    }
    fn cases(&self, tier: Tier) -> u64 {
        tier.pick(320, 8000)
    }
    fn classify(&self, c: &Case) -> Vec<&'static str> {
        let mut v = vec![];
        if c.sni_creds {
            v.push("sni-credentials");
        }
        if c.auth != 2 || c.kind == 0 || c.kind == 2 {
            v.push("nontrivial");
        }
        v
    }
    fn required_classes(&self) -> Vec<&'static str> {
        vec!["nontrivial", "sni-credentials"]
    }
    fn check(&self, c: &Case) -> Verdict {
        let c = c.clone();
        let user = format!("usr{:08x}", c.nonce);
        let pass = format!("PwCanary{:08x}Zq", c.nonce ^ 0x5a5a_5a5a);
        let cfg_pass = format!("CfgPwCanary{:08x}Jm", c.nonce.rotate_left(23));
        let authz = format!("AuthzCanary{:08x}Kw", c.nonce.rotate_left(7));
        let cookie = format!("CookieCanary{:08x}Xv", c.nonce.rotate_left(13));
        let label = format!("snicanary{:08x}", c.nonce.rotate_left(19));
        let token = b64(&format!("{}:{}", user, pass));
        let good = b64(&format!("user:{}", cfg_pass));
        let enc = |s: &str| b64(s);
        let needles: Vec<(String, &str)> = vec![
            (token.clone(), "proxy-authorization token"),
            (format!("{}:{}", user, pass), "proxy-authorization value, base64-decoded"),
            (pass.clone(), "password"),
            (good.clone(), "configured credentials token"),
            (cfg_pass.clone(), "configured password"),
            (enc(&cfg_pass), "configured password, base64"),
            (authz.clone(), "authorization header value"),
            (enc(&authz), "authorization header value, base64"),
            (cookie.clone(), "cookie header value"),
            (enc(&cookie), "cookie header value, base64"),
            (label.clone(), "SNI credentials label"),
        ];
        logcap::start();
        let c2 = c.clone();
        let (cfg_pass2, label2) = (cfg_pass.clone(), label.clone());
        let res = aio::block_on_real(async move {
            let c = c2;
            let spec = CoreSpec { quic: true, clients: vec![("user".into(), cfg_pass2)], ..CoreSpec::default() };
            let net = NetWorld::start(&spec).await?;
            let sni = if c.sni_creds { format!("{}.main.x", label2) } else { "main.x".to_string() };
            let (method, authority, path, scheme): (&str, String, Option<&str>, Option<&str>) = match c.kind {
                0 => ("CONNECT", "203.0.113.9:443".into(), None, None),
                1 => ("CONNECT", "_check".into(), None, None),
                2 => ("GET", "origin.example:80".into(), Some("/index.html"), Some("http")),
                3 => ("CONNECT", "_udp2".into(), None, None),
                _ => ("GET", format!("main.x:{}", net.addr.port()), Some("/"), Some("https")),
            };
            let mut headers: Vec<(Vec<u8>, Vec<u8>)> = vec![(b":method".to_vec(), method.as_bytes().to_vec())];
            if let Some(s) = scheme {
                headers.push((b":scheme".to_vec(), s.as_bytes().to_vec()));
            }
            headers.push((b":authority".to_vec(), authority.into_bytes()));
            if let Some(p) = path {
                headers.push((b":path".to_vec(), p.as_bytes().to_vec()));
            }
            if c.kind == 4 {
                headers.push((b"x-ping".to_vec(), b"1".to_vec()));
            }
            match c.auth {
                1 => headers.push((b"proxy-authorization".to_vec(), format!("Basic {}", token).into_bytes())),
                2 => headers.push((b"proxy-authorization".to_vec(), format!("Basic {}", good).into_bytes())),
                3 => headers.push((b"proxy-authorization".to_vec(), format!("Bearer {}", token).into_bytes())),
                4 => headers.push((b"proxy-authorization".to_vec(), format!("Basic {}!!", token).into_bytes())),
                5 => headers.push((b"proxy-authorization".to_vec(), token.clone().into_bytes())),
                6 => headers.push((b"proxy-authorization".to_vec(), format!("basic {}", token).into_bytes())),
                _ => {}
            }
            // repeated fields: every value is a secret, not only the first of a name
            let repeat = c.nonce % 2 == 0;
            if repeat && c.auth != 0 {
                headers.push((b"proxy-authorization".to_vec(), format!("Basic {}", if c.auth == 2 { &token } else { &good }).into_bytes()));
            }
            if c.with_authorization {
                headers.push((b"authorization".to_vec(), format!("Bearer {}", authz).into_bytes()));
                if repeat {
                    headers.push((b"authorization".to_vec(), format!("Basic {}", b64(&authz)).into_bytes()));
                }
            }
            if c.with_cookie {
                headers.push((b"cookie".to_vec(), format!("sid={}", cookie).into_bytes()));
                if repeat {
                    headers.push((b"cookie".to_vec(), format!("theme=dark; token={}", b64(&cookie)).into_bytes()));
                }
            }
            let out = h3_request(net.addr, &sni, &[b"h3".to_vec()], &headers, Duration::from_millis(1500)).await;
            tokio::time::sleep(Duration::from_millis(20)).await;
            drop(net);
            Ok::<_, String>(out)
        });
        let logs = logcap::stop();
        let out = match res {
            Ok(o) => o,
            Err(e) => return viol("harness:networld", e),
        };
        if let Some(e) = &out.error {
            return viol("harness:quic-client", e.clone());
        }
        crate::engine::bump("log-records", logs.len() as u64);
        crate::engine::bump(if out.status.is_some() { "answered" } else { "not-answered" }, 1);
        for line in &logs {
            for (needle, what) in &needles {
                if line.contains(needle.as_str()) {
                    let target = line.split(' ').nth(1).unwrap_or("?").to_string();
                    return viol(
                        &format!("leak:h3:{}:{}", target, what.replace(' ', "-")),
                        format!("{} appears in a log record of an HTTP/3 request ({:?}, status {:?}): {}", what, c, out.status, &line[..line.len().min(400)]),
                    );
                }
            }
        }
        Ok(())
    }
}
