//! C05 — SNI/ALPN demultiplexing selects the right host, channel and protocol.

use crate::engine::world::{cert_path, CoreSpec};
use crate::engine::{self, idx, viol, Ctx, Suite, Tier, Verdict};
use crate::ensure;
use crate::props::c04::TempFile;
use proptest::prelude::*;
use serde::{Deserialize, Serialize};
use serde_json::Value;
use std::collections::BTreeSet;
use trusttunnel::settings::TlsHostsSettings;
use trusttunnel::verif::session::{ChannelView, MetaView, Proto};

const NAMES: [&str; 12] = [
    "x", "a.x", "b.x", "ping.x", "a.a.x", "b.a.x", "ping.a.x", "a.b.x", "ping.b.x", "a.ping.x", "y", "a.y",
];

#[derive(Serialize, Deserialize, Debug, Clone, PartialEq, Eq)]
pub struct HostCfg {
    /// (name index, certificate index, alternative SNIs as name indices)
    pub main: Vec<(u8, u8, Vec<u8>)>,
    pub ping: Vec<(u8, u8)>,
    pub speed: Vec<(u8, u8)>,
    pub rp: Vec<(u8, u8)>,
}

#[derive(Serialize, Deserialize, Debug, Clone)]
pub enum Op {
    Select { sni: String, alpn: Vec<Vec<u8>> },
    ReloadValid(usize),
    /// 0 = duplicate host name, 1 = key file that is not a key
    ReloadInvalid(u8),
}

#[derive(Serialize, Deserialize, Debug, Clone)]
pub struct Case {
    pub h1: bool,
    pub h2: bool,
    pub quic: bool,
    pub reverse_proxy: bool,
    /// configs[0] is the start-up configuration, the others are reload targets
    pub configs: Vec<HostCfg>,
    pub ops: Vec<Op>,
}

pub(crate) fn name(i: u8) -> &'static str {
    NAMES[i as usize % NAMES.len()]
}

#[derive(Debug, Clone, PartialEq, Eq)]
pub(crate) struct Designation {
    pub channel: ChannelView,
    pub cert: u8,
    pub creds: Option<String>,
    pub exact: bool,
}

/// Reference routing table
pub(crate) fn designations(cfg: &HostCfg, reverse_proxy: bool, sni: &str) -> Vec<Designation> {
    let mut v = vec![];
    for (n, c, _) in &cfg.main {
        if name(*n) == sni {
            v.push(Designation { channel: ChannelView::Tunnel, cert: *c, creds: None, exact: true });
        }
    }
    if reverse_proxy {
        for (n, c) in &cfg.rp {
            if name(*n) == sni {
                v.push(Designation { channel: ChannelView::ReverseProxy, cert: *c, creds: None, exact: true });
            }
        }
    }
    for (n, c) in &cfg.ping {
        if name(*n) == sni {
            v.push(Designation { channel: ChannelView::Ping, cert: *c, creds: None, exact: true });
        }
    }
    for (n, c) in &cfg.speed {
        if name(*n) == sni {
            v.push(Designation { channel: ChannelView::Speedtest, cert: *c, creds: None, exact: true });
        }
    }
    if let Some((label, rest)) = sni.split_once('.') {
        for (n, c, _) in &cfg.main {
            if name(*n) == rest {
                v.push(Designation { channel: ChannelView::Tunnel, cert: *c, creds: Some(label.to_string()), exact: false });
            }
        }
    }
    for (_, c, alts) in &cfg.main {
        for a in alts {
            if name(*a) == sni {
                v.push(Designation { channel: ChannelView::Tunnel, cert: *c, creds: None, exact: false });
            }
        }
    }
    v
}

pub(crate) fn proto_of(alpn: &[u8]) -> Option<Proto> {
    match alpn {
        b"h3" => Some(Proto::Http3),
        b"h2" => Some(Proto::Http2),
        b"http/1.1" => Some(Proto::Http1),
        _ => None,
    }
}

pub(crate) fn rank(p: Proto) -> u8 {
    match p {
        Proto::Http1 => 1,
        Proto::Http2 => 2,
        Proto::Http3 => 3,
    }
}

/// Ok(protocol) or Err(()) = must be refused
pub(crate) fn expected_protocol(c: &Case, channel: ChannelView, alpn: &[Vec<u8>]) -> Result<Proto, ()> {
    expected_protocol_flags(c.h1, c.h2, c.quic, channel, alpn)
}

pub(crate) fn expected_protocol_flags(h1: bool, h2: bool, quic: bool, channel: ChannelView, alpn: &[Vec<u8>]) -> Result<Proto, ()> {
    let enabled = |p: Proto| match p {
        Proto::Http1 => h1,
        Proto::Http2 => h2,
        Proto::Http3 => quic,
    };
    let permitted = |p: Proto| channel != ChannelView::ReverseProxy || p != Proto::Http2;
    let offered: Vec<Proto> = alpn.iter().filter_map(|a| proto_of(a)).collect();
    if alpn.is_empty() {
        return if enabled(Proto::Http1) && permitted(Proto::Http1) { Ok(Proto::Http1) } else { Err(()) };
    }
    offered
        .into_iter()
        .filter(|p| enabled(*p) && permitted(*p))
        .max_by_key(|p| rank(*p))
        .ok_or(())
}

pub(crate) fn cfg_valid(cfg: &HostCfg) -> bool {
    if cfg.main.is_empty() {
        return false;
    }
    let mut seen = BTreeSet::new();
    cfg.main
        .iter()
        .map(|x| x.0)
        .chain(cfg.ping.iter().map(|x| x.0))
        .chain(cfg.speed.iter().map(|x| x.0))
        .chain(cfg.rp.iter().map(|x| x.0))
        .all(|n| seen.insert(name(n)))
}

pub(crate) fn apply_cfg(spec: &mut CoreSpec, cfg: &HostCfg) {
    spec.main_hosts = cfg
        .main
        .iter()
        .map(|(n, c, a)| (name(*n).to_string(), *c as usize, a.iter().map(|x| name(*x).to_string()).collect()))
        .collect();
    spec.ping_hosts = cfg.ping.iter().map(|(n, c)| (name(*n).to_string(), *c as usize)).collect();
    spec.speed_hosts = cfg.speed.iter().map(|(n, c)| (name(*n).to_string(), *c as usize)).collect();
    spec.rp_hosts = cfg.rp.iter().map(|(n, c)| (name(*n).to_string(), *c as usize)).collect();
}

fn hosts_toml(cfg: &HostCfg, sabotage: Option<u8>, garbage: &str) -> String {
    let mut s = String::new();
    let entry = |table: &str, n: u8, c: u8, alts: &[u8], key_path: Option<&str>| {
        let mut e = format!(
            "[[{}]]\nhostname = \"{}\"\ncert_chain_path = \"{}\"\nprivate_key_path = \"{}\"\n",
            table,
            name(n),
            cert_path(c as usize),
            key_path.map(String::from).unwrap_or_else(|| cert_path(c as usize))
        );
        if !alts.is_empty() {
            e.push_str(&format!(
                "allowed_sni = [{}]\n",
                alts.iter().map(|a| format!("\"{}\"", name(*a))).collect::<Vec<_>>().join(", ")
            ));
        }
        e.push('\n');
        e
    };
    for (i, (n, c, a)) in cfg.main.iter().enumerate() {
        let key = if sabotage == Some(1) && i == 0 { Some(garbage) } else { None };
        s.push_str(&entry("main_hosts", *n, *c, a, key));
    }
    if sabotage == Some(0) {
        // duplicate of the first main host in another class
        let (n, c, _) = &cfg.main[0];
        s.push_str(&entry("ping_hosts", *n, *c, &[], None));
    }
    for (n, c) in &cfg.ping {
        s.push_str(&entry("ping_hosts", *n, *c, &[], None));
    }
    for (n, c) in &cfg.speed {
        s.push_str(&entry("speedtest_hosts", *n, *c, &[], None));
    }
    for (n, c) in &cfg.rp {
        s.push_str(&entry("reverse_proxy_hosts", *n, *c, &[], None));
    }
    s
}

pub(crate) fn leaf_of(cert: u8) -> Vec<u8> {
    use std::sync::OnceLock;
    static CACHE: OnceLock<Vec<Vec<u8>>> = OnceLock::new();
    CACHE
        .get_or_init(|| {
            (0..6)
                .map(|i| {
                    trusttunnel::utils::load_certs(&cert_path(i))
                        .ok()
                        .and_then(|v| v.into_iter().next())
                        .map(|c| c.0)
                        .unwrap_or_default()
                })
                .collect()
        })[cert as usize % 6]
        .clone()
}

fn judge_select(c: &Case, cfg: &HostCfg, sni: &str, alpn: &[Vec<u8>], got: &Result<MetaView, String>) -> Verdict {
    let des = designations(cfg, c.reverse_proxy, sni);
    let what = format!(
        "sni {:?} alpn {:?} (enabled h1={} h2={} quic={}, reverse proxy {})",
        sni,
        alpn.iter().map(|a| String::from_utf8_lossy(a).into_owned()).collect::<Vec<_>>(),
        c.h1,
        c.h2,
        c.quic,
        c.reverse_proxy
    );
    if des.is_empty() {
        ensure!(
            got.is_err(),
            "select:undesignated-sni-served",
            "{}: designates no host entry but was routed to {:?}",
            what,
            got.as_ref().ok().map(|m| (m.channel, &m.cert_chain_path))
        );
        return Ok(());
    }
    // exact host wins; otherwise any non-exact designation is acceptable
    let acceptable: Vec<&Designation> = if des.iter().any(|d| d.exact) {
        des.iter().filter(|d| d.exact).collect()
    } else {
        des.iter().collect()
    };
    match got {
        Err(e) => {
            // refusal is right only when every acceptable designation's protocol choice fails
            let all_fail = acceptable.iter().all(|d| expected_protocol(c, d.channel, alpn).is_err());
            ensure!(
                all_fail,
                "select:designated-sni-refused",
                "{}: refused ({}) although it designates {:?}",
                what,
                e,
                acceptable
            );
            Ok(())
        }
        Ok(m) => {
            let Some(d) = acceptable.iter().find(|d| {
                d.channel == m.channel && m.cert_chain_path == cert_path(d.cert as usize) && m.sni_auth_creds == d.creds
            }) else {
                return viol(
                    "select:wrong-host-or-channel",
                    format!(
                        "{}: routed to channel {:?} cert {} creds {:?}, acceptable: {:?}",
                        what, m.channel, m.cert_chain_path, m.sni_auth_creds, acceptable
                    ),
                );
            };
            ensure!(
                m.key_path == cert_path(d.cert as usize) && m.leaf_cert == leaf_of(d.cert),
                "select:wrong-certificate",
                "{}: certificate / key of another host entry is served",
                what
            );
            ensure!(m.sni == sni, "select:sni-changed", "{}: meta carries sni {:?}", what, m.sni);
            match expected_protocol(c, d.channel, alpn) {
                Err(()) => viol(
                    if alpn.is_empty() {
                        "select:http1-assumed-although-disabled"
                    } else {
                        "select:protocol-not-offered-enabled-and-permitted"
                    },
                    format!("{}: must be refused, but {:?} was selected on channel {:?}", what, m.protocol, m.channel),
                ),
                Ok(p) => {
                    ensure!(
                        m.protocol == p,
                        if d.channel == ChannelView::Tunnel {
                            "select:wrong-protocol"
                        } else {
                            "select:protocol-not-offered-enabled-and-permitted"
                        },
                        "{}: selected {:?} on channel {:?}, the most preferred offered+enabled+permitted one is {:?}",
                        what,
                        m.protocol,
                        m.channel,
                        p
                    );
                    Ok(())
                }
            }
        }
    }
}

pub(crate) fn sni_strategy() -> BoxedStrategy<String> {
    prop_oneof![
        10 => (0u8..NAMES.len() as u8).prop_map(|i| name(i).to_string()),
        3 => ((0u8..NAMES.len() as u8), prop::sample::select(vec!["a", "b", "ping", "creds", "x"]))
            .prop_map(|(i, l)| format!("{}.{}", l, name(i))),
        1 => Just(String::new()),
        1 => Just("z".to_string()),
        1 => Just(".x".to_string()),
        1 => Just("A.X".to_string()),
    ]
    .boxed()
}

pub(crate) fn alpn_strategy() -> BoxedStrategy<Vec<Vec<u8>>> {
    let entry = prop_oneof![
        3 => Just(b"h3".to_vec()),
        3 => Just(b"h2".to_vec()),
        3 => Just(b"http/1.1".to_vec()),
        1 => Just(b"spdy".to_vec()),
        1 => Just(vec![0xff, 0xfe]),
        1 => Just(vec![]),
        1 => Just(b"H2".to_vec()),
    ];
    prop::collection::vec(entry, 0..=4).boxed()
}

pub(crate) fn cfg_strategy() -> BoxedStrategy<HostCfg> {
    // a shuffled selection of distinct names split over the four classes
    (
        Just((0..NAMES.len() as u8).collect::<Vec<u8>>()).prop_shuffle(),
        1usize..=3,
        0usize..=2,
        0usize..=2,
        0usize..=2,
        prop::collection::vec((0u8..6, prop::collection::vec(0u8..NAMES.len() as u8, 0..=2)), 8),
    )
        .prop_map(|(names, nm, np, ns, nr, extra)| {
            let mut it = names.into_iter();
            let mut k = 0;
            let mut next = |with_alt: bool| {
                let n = it.next().unwrap();
                let (c, alts) = extra[k % extra.len()].clone();
                k += 1;
                (n, c, if with_alt { alts } else { vec![] })
            };
            let main: Vec<_> = (0..nm).map(|_| next(true)).collect();
            let ping: Vec<_> = (0..np).map(|_| next(false)).map(|(n, c, _)| (n, c)).collect();
            let speed: Vec<_> = (0..ns).map(|_| next(false)).map(|(n, c, _)| (n, c)).collect();
            let rp: Vec<_> = (0..nr).map(|_| next(false)).map(|(n, c, _)| (n, c)).collect();
            // alternative SNIs must not collide with configured host names (validate() does not
            // check that, and the routing of such a name would be ambiguous by configuration)
            let used: BTreeSet<u8> = main.iter().map(|x| x.0).chain(ping.iter().map(|x| x.0)).chain(speed.iter().map(|x| x.0)).chain(rp.iter().map(|x| x.0)).collect();
            let main = main
                .into_iter()
                .map(|(n, c, a)| (n, c, a.into_iter().filter(|x| !used.contains(x)).collect()))
                .collect();
            HostCfg { main, ping, speed, rp }
        })
        .boxed()
}

pub fn case_strategy(with_reloads: bool) -> BoxedStrategy<Case> {
    let select = (sni_strategy(), alpn_strategy()).prop_map(|(sni, alpn)| Op::Select { sni, alpn });
    let op = if with_reloads {
        prop_oneof![
            6 => select,
            1 => (0usize..3).prop_map(Op::ReloadValid),
            1 => (0u8..2).prop_map(Op::ReloadInvalid),
        ]
        .boxed()
    } else {
        select.boxed()
    };
    (
        any::<[bool; 3]>(),
        any::<bool>(),
        prop::collection::vec(cfg_strategy(), 3),
        prop::collection::vec(op, 1..40),
    )
        .prop_map(|(p, reverse_proxy, configs, ops)| Case {
            h1: p[0] || (!p[1] && !p[2]),
            h2: p[1],
            quic: p[2],
            reverse_proxy,
            configs,
            ops,
        })
        .boxed()
}

pub struct SelectSuite {
    pub with_reloads: bool,
}

impl Suite for SelectSuite {
    type Case = Case;
    fn name(&self) -> &'static str {
        if self.with_reloads {
            "select-with-reloads"
        } else {
            "select"
        }
    }
    fn rule(&self) -> String {
        format!(
            "host names over a label alphabet with dot-suffix overlaps (x, a.x, b.x, ping.x, a.a.x, ...) assigned to main / ping / speedtest / reverse-proxy classes (valid per TlsHostsSettings::validate), 0-2 alternative SNIs per main host, each host with its own certificate file, reverse proxy configured or not, every non-empty subset of {{http1, http2, quic}}; up to 40 operations per configuration: select(SNI over the alphabet up to 3 labels / empty / unknown / wrong case, ALPN list of 0-4 entries from h3, h2, http/1.1, spdy, H2, non-UTF-8, empty){}; the real TlsDemux::select (through Core) is compared with a reference routing table (exact host wins, otherwise any of <label>.<main> / alternative SNI; certificate and key of the designated entry; protocol = most preferred of offered, enabled and permitted by the channel, http/1.1 assumed only without ALPN); non-trivial = SNI with >= 2 designations, or an ALPN list mixing known and unknown entries, or a protocol offered but disabled",
            if self.with_reloads { ", reload(valid configuration), reload(invalid: duplicate host name / unusable key) - after a reload every answer must follow the new configuration, after a failed reload the previous one" } else { "" }
        )
    }
    fn strategy(&self, _: Tier) -> BoxedStrategy<Case> {
        case_strategy(self.with_reloads)
    }
    fn cases(&self, tier: Tier) -> u64 {
        if self.with_reloads {
            tier.pick(16_000, 240_000)
        } else {
            tier.pick(32_000, 480_000)
        }
    }
    fn classify(&self, c: &Case) -> Vec<&'static str> {
        let mut v = vec![];
        let cfg = &c.configs[0];
        let mut multi = false;
        let mut mixed = false;
        let mut disabled_offered = false;
        for op in &c.ops {
            if let Op::Select { sni, alpn } = op {
                if designations(cfg, c.reverse_proxy, sni).len() >= 2 {
                    multi = true;
                }
                let known = alpn.iter().filter(|a| proto_of(a).is_some()).count();
                if known > 0 && known < alpn.len() {
                    mixed = true;
                }
                if alpn.iter().filter_map(|a| proto_of(a)).any(|p| match p {
                    Proto::Http1 => !c.h1,
                    Proto::Http2 => !c.h2,
                    Proto::Http3 => !c.quic,
                }) {
                    disabled_offered = true;
                }
            }
        }
        if multi {
            v.push("sni-with-several-designations");
        }
        if mixed {
            v.push("alpn-known-and-unknown");
        }
        if disabled_offered {
            v.push("disabled-protocol-offered");
        }
        if c.ops.iter().any(|o| matches!(o, Op::ReloadInvalid(_))) {
            v.push("failed-reload");
        }
        if multi || mixed || disabled_offered {
            v.push("nontrivial");
        }
        v
    }
    fn required_classes(&self) -> Vec<&'static str> {
        let mut v = vec!["nontrivial", "sni-with-several-designations", "alpn-known-and-unknown", "disabled-protocol-offered"];
        if self.with_reloads {
            v.push("failed-reload");
        }
        v
    }
    fn check(&self, c: &Case) -> Verdict {
        ensure!(c.configs.iter().all(cfg_valid), "harness:invalid-config", "generator produced an invalid configuration");
        let mut spec = CoreSpec {
            h1: c.h1,
            h2: c.h2,
            quic: c.quic,
            reverse_proxy: c.reverse_proxy.then(|| ("127.0.0.1:8080".parse().unwrap(), "/".to_string())),
            ..CoreSpec::default()
        };
        apply_cfg(&mut spec, &c.configs[0]);
        let world = spec.build().map_err(|e| engine::Violation {
            sig: "select:valid-configuration-refused".into(),
            msg: e,
        })?;
        let garbage = TempFile::new("notakey", "this is not a key\n");
        let mut current = 0usize;
        let mut selects = 0u64;
        for op in &c.ops {
            match op {
                Op::Select { sni, alpn } => {
                    selects += 1;
                    let got = engine::no_panic("select:panic", || world.core.verif_select(alpn, sni))?;
                    judge_select(c, &c.configs[current], sni, alpn, &got)?;
                }
                Op::ReloadValid(i) => {
                    let i = *i % c.configs.len();
                    let doc = hosts_toml(&c.configs[i], None, "");
                    let s: TlsHostsSettings = toml::from_str(&doc).map_err(|e| engine::Violation {
                        sig: "reload:valid-hosts-file-rejected".into(),
                        msg: format!("{}\n{}", e, doc),
                    })?;
                    let r = engine::no_panic("reload:panic", || world.core.reload_tls_hosts_settings(s))?;
                    ensure!(r.is_ok(), "reload:valid-configuration-refused", "reload of a valid configuration failed: {:?}", r.err());
                    current = i;
                }
                Op::ReloadInvalid(kind) => {
                    let doc = hosts_toml(&c.configs[(current + 1) % c.configs.len()], Some(*kind), &garbage.path());
                    let Ok(s) = toml::from_str::<TlsHostsSettings>(&doc) else {
                        continue; // rejected at parse time: nothing reaches the endpoint
                    };
                    let r = engine::no_panic("reload:panic", || world.core.reload_tls_hosts_settings(s))?;
                    ensure!(
                        r.is_err(),
                        "reload:invalid-configuration-accepted",
                        "reload of an invalid configuration (kind {}) succeeded",
                        kind
                    );
                    // `current` unchanged: the previous configuration must stay in force
                }
            }
        }
        engine::bump("selections", selects);
        Ok(())
    }
}

/// Reload stress: selecting threads race a reloading thread; every observation must equal the
/// reference under exactly one of the two configurations.
fn reload_race(ctx: &mut Ctx) {
    const SUITE: &str = "reload-race";
    if !ctx.suite_enabled(SUITE) || ctx.shard != 0 {
        return;
    }
    ctx.suite_mut(SUITE).rule = "8 threads select continuously while one thread alternates reloads between two configurations that route the same SNIs to different classes and certificates; every observed (channel, certificate, credentials, protocol) tuple must be the reference answer of configuration A or of configuration B as a whole (no mixture); real threads, sampled interleavings; non-trivial = observation taken while reloads were running".into();
    let cfg_a = HostCfg { main: vec![(1, 0, vec![10])], ping: vec![(3, 1)], speed: vec![(2, 2)], rp: vec![] };
    let cfg_b = HostCfg { main: vec![(2, 3, vec![11])], ping: vec![(1, 4)], speed: vec![(3, 5)], rp: vec![] };
    let case = Case { h1: true, h2: true, quic: true, reverse_proxy: false, configs: vec![cfg_a.clone(), cfg_b.clone()], ops: vec![] };
    let mut spec = CoreSpec { quic: true, ..CoreSpec::default() };
    apply_cfg(&mut spec, &cfg_a);
    let world = match spec.build() {
        Ok(w) => std::sync::Arc::new(w),
        Err(e) => {
            ctx.report.inconclusive.push(format!("reload-race: {}", e));
            return;
        }
    };
    let rounds = ctx.tier.pick(400usize, 6000usize);
    let stop = std::sync::Arc::new(std::sync::atomic::AtomicBool::new(false));
    let snis = ["a.x", "b.x", "ping.x", "creds.a.x", "creds.b.x", "y", "a.y"];
    let alpns: Vec<Vec<Vec<u8>>> = vec![vec![b"h2".to_vec()], vec![b"http/1.1".to_vec(), b"h3".to_vec()], vec![]];
    let mut handles = vec![];
    for t in 0..8usize {
        let world = world.clone();
        let stop = stop.clone();
        let case = case.clone();
        let (cfg_a, cfg_b) = (cfg_a.clone(), cfg_b.clone());
        let alpns = alpns.clone();
        handles.push(std::thread::spawn(move || {
            let mut n = 0u64;
            let mut bad = None;
            let mut i = t;
            while !stop.load(std::sync::atomic::Ordering::Relaxed) {
                let sni = snis[i % snis.len()];
                let alpn = &alpns[(i / snis.len()) % alpns.len()];
                i += 1;
                let got = world.core.verif_select(alpn, sni);
                n += 1;
                let ok_a = judge_select(&case, &cfg_a, sni, alpn, &got).is_ok();
                let ok_b = judge_select(&case, &cfg_b, sni, alpn, &got).is_ok();
                if !ok_a && !ok_b && bad.is_none() {
                    bad = Some(format!("sni {} alpn {:?}: {:?}", sni, alpn, got.map(|m| (m.channel, m.cert_chain_path, m.protocol))));
                }
            }
            (n, bad)
        }));
    }
    for r in 0..rounds {
        let cfg = if r % 2 == 0 { &cfg_b } else { &cfg_a };
        let doc = hosts_toml(cfg, None, "");
        if let Ok(s) = toml::from_str::<TlsHostsSettings>(&doc) {
            let _ = world.core.reload_tls_hosts_settings(s);
        }
    }
    stop.store(true, std::sync::atomic::Ordering::Relaxed);
    let mut total = 0;
    for h in handles {
        let (n, bad) = h.join().unwrap();
        total += n;
        if let Some(b) = bad {
            ctx.violation(
                SUITE,
                serde_json::json!({"observation": b}),
                engine::Violation {
                    sig: "reload:mixed-configuration-observed".into(),
                    msg: format!("an answer that matches neither configuration: {}", b),
                },
            );
        }
    }
    ctx.record_bulk(SUITE, total, total.min(rounds as u64 * 8), &[("nontrivial", total)], vec![serde_json::json!({"reloads": rounds, "observations": total})]);
}

pub fn run(ctx: &mut Ctx) {
    super::replay_corpus(ctx, replay);
    ctx.run_suite(&SelectSuite { with_reloads: false });
    ctx.run_suite(&SelectSuite { with_reloads: true });
    reload_race(ctx);
    ctx.run_suite(&super::frontdoor::FrontDoorSuite);
    ctx.run_suite(&super::c05proc::ReloadSuite);
    ctx.run_suite(&super::c05quic::QuicRoutingSuite);
    ctx.assume("alternative SNIs equal to a configured host name are not generated (validate() does not forbid them and their routing would be ambiguous by configuration)");
    ctx.assume("select() is transport-agnostic: an h3 result on TCP is turned into a refusal by the caller (on_new_tls_connection), which the full-stack scenarios observe");
    ctx.assume("reload interleavings with real threads are sampled, not owned");
    let _ = idx(0, 1);
}

pub fn replay(ctx: &mut Ctx, suite: &str, case: &Value) -> bool {
    match suite {
        "select" => ctx.replay_suite(&SelectSuite { with_reloads: false }, case),
        "select-with-reloads" => ctx.replay_suite(&SelectSuite { with_reloads: true }, case),
        "tls-front-door" => ctx.replay_suite(&super::frontdoor::FrontDoorSuite, case),
        "process-reload" => ctx.replay_suite(&super::c05proc::ReloadSuite, case),
        "quic-sni-routing" => ctx.replay_suite(&super::c05quic::QuicRoutingSuite, case),
        _ => false,
    }
}
