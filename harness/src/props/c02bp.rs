//! C02, "a failure or a stall of one direction never stalls the other": a real HTTP/1.1 or HTTP/2
//! tunnel in memory whose destination refuses uploads for a while (back-pressure all the way to
//! the client) while it sends a download.

use crate::engine::world::{CoreSpec, Outcome, PeerMsg, Scripted};
use crate::engine::{aio, viol, Suite, Tier, Verdict};
use crate::ensure;
use crate::props::tunnelreq::b64;
use bytes::Bytes;
use proptest::prelude::*;
use serde::{Deserialize, Serialize};
use std::time::Duration;
use tokio::io::{AsyncReadExt, AsyncWriteExt};
use trusttunnel::verif::session::{ChannelView, Proto};

#[derive(Serialize, Deserialize, Debug, Clone)]
pub struct Case {
    pub h2: bool,
    /// bytes the client uploads (far more than every buffer on the way holds)
    pub up_kib: u16,
    /// bytes the destination sends while it refuses the upload
    pub down_kib: u16,
    /// pieces the download comes in
    pub down_pieces: u8,
    /// client transport buffer
    pub transport_kib: u8,
    /// the destination ends its stream right behind its last piece, while it still refuses the upload
    #[serde(default)]
    pub dest_ends: bool,
}

fn pat(tag: u8, off: usize, len: usize) -> Vec<u8> {
    (off..off + len).map(|i| ((i * 11 + (i >> 9)) as u8) ^ tag).collect()
}

pub struct BackPressureSuite;

impl Suite for BackPressureSuite {
    type Case = Case;
    fn name(&self) -> &'static str {
        "bidirectional-back-pressure"
    }
    fn rule(&self) -> String {
        "a CONNECT tunnel on a real HTTP/1.1 or HTTP/2 session in memory (virtual clock) to a scripted destination that accepts no upload byte for 20 s; the client writes 512-4096 KiB as fast as the tunnel takes them (so every queue between client and destination fills up) and reads concurrently; meanwhile the destination sends 1-512 KiB in 1-8 pieces (and, in half of the cases, ends its stream right behind the last one); oracle: the whole download reaches the client within 5 virtual seconds although the upload direction is blocked, and once the destination accepts again the upload arrives completely and intact; non-trivial = every case".into()
    }
    fn strategy(&self, _: Tier) -> BoxedStrategy<Case> {
        (any::<bool>(), 512u16..4096, 1u16..512, 1u8..=8, prop_oneof![Just(4u8), Just(16u8), Just(64u8)], any::<bool>())
            .prop_map(|(h2, up_kib, down_kib, down_pieces, transport_kib, dest_ends)| Case { h2, up_kib, down_kib, down_pieces, transport_kib, dest_ends })
            .boxed()
    }
    fn cases(&self, tier: Tier) -> u64 {
        tier.pick(960, 24_000)
    }
    fn classify(&self, c: &Case) -> Vec<&'static str> {
        let mut v = vec![if c.h2 { "h2" } else { "h1" }, "nontrivial"];
        if c.dest_ends {
            v.push("destination-ends-behind-its-last-piece");
        }
        v
    }
    fn required_classes(&self) -> Vec<&'static str> {
        vec!["nontrivial", "h1", "h2", "destination-ends-behind-its-last-piece"]
    }
    fn check(&self, c: &Case) -> Verdict {
        let c = c.clone();
        aio::block_on_paused(async move {
            aio::skew_clock().await;
            let spec = CoreSpec { tcp_timeout: Duration::from_secs(600), ..CoreSpec::default() };
            let world = spec.build().map_err(|e| crate::engine::Violation { sig: "harness:core".into(), msg: e })?;
            let scripted = Scripted::new(|_| Outcome::Silent);
            let _g = scripted.install(&world);
            let up_total = c.up_kib as usize * 1024;
            let down_total = c.down_kib as usize * 1024;
            let what = format!("{} tunnel, upload {} KiB blocked at the destination, download {} KiB in {} pieces, client transport {} KiB", if c.h2 { "h2" } else { "h1" }, c.up_kib, c.down_kib, c.down_pieces, c.transport_kib);
            let (io, _srv) = world.serve(if c.h2 { Proto::Http2 } else { Proto::Http1 }, ChannelView::Tunnel, "main.x", None, crate::engine::world::peer_v4(), c.transport_kib as usize * 1024);
            let auth = format!("Basic {}", b64("user:pass"));
            // ---- open the tunnel
            enum Cli {
                H1(tokio::io::ReadHalf<tokio::io::DuplexStream>, tokio::io::WriteHalf<tokio::io::DuplexStream>),
                H2(h2::RecvStream, h2::SendStream<Bytes>, tokio::task::JoinHandle<()>),
            }
            let cli = if c.h2 {
                let (send, conn) = h2::client::handshake(io).await.map_err(|e| crate::engine::Violation { sig: "harness:h2".into(), msg: e.to_string() })?;
                let conn = tokio::spawn(async move {
                    let _ = conn.await;
                });
                let req = http::Request::builder().method("CONNECT").uri("dest.example:443").header("proxy-authorization", auth.as_str()).body(()).unwrap();
                let mut sr = send.ready().await.map_err(|e| crate::engine::Violation { sig: "harness:h2".into(), msg: e.to_string() })?;
                let (fut, stream) = sr.send_request(req, false).map_err(|e| crate::engine::Violation { sig: "harness:h2".into(), msg: e.to_string() })?;
                let resp = tokio::time::timeout(Duration::from_secs(5), fut).await.map_err(|_| crate::engine::Violation { sig: "harness:h2".into(), msg: "no response".into() })?.map_err(|e| crate::engine::Violation { sig: "harness:h2".into(), msg: e.to_string() })?;
                ensure!(resp.status() == 200, "harness:connect", "CONNECT answered {}", resp.status());
                std::mem::forget(sr);
                Cli::H2(resp.into_body(), stream, conn)
            } else {
                let (mut rd, mut wr) = tokio::io::split(io);
                let head = format!("CONNECT dest.example:443 HTTP/1.1\r\nHost: dest.example:443\r\nProxy-Authorization: {}\r\n\r\n", auth);
                wr.write_all(head.as_bytes()).await.map_err(|e| crate::engine::Violation { sig: "harness:io".into(), msg: e.to_string() })?;
                let mut headbuf = vec![];
                let mut b = [0u8; 1];
                while !headbuf.ends_with(b"\r\n\r\n") {
                    match tokio::time::timeout(Duration::from_secs(5), rd.read(&mut b)).await {
                        Ok(Ok(1)) => headbuf.push(b[0]),
                        _ => return viol("harness:connect", "no response head"),
                    }
                }
                ensure!(headbuf.starts_with(b"HTTP/1.1 200"), "harness:connect", "CONNECT answered {:?}", String::from_utf8_lossy(&headbuf));
                Cli::H1(rd, wr)
            };
            let Some((_, origin)) = scripted.peers.lock().unwrap().first().cloned() else {
                return viol("harness:connect", "no destination");
            };
            origin.set_accepting(false);
            // ---- both directions at once
            let up_data = pat(0x33, 0, up_total);
            let down_data = pat(0xcc, 0, down_total);
            let piece = down_total.div_ceil(c.down_pieces as usize).max(1);
            let origin2 = origin.clone();
            let down2 = down_data.clone();
            let dest_ends = c.dest_ends;
            let feeder = tokio::spawn(async move {
                // give the upload a head start so that the queues are full when the download begins
                tokio::time::sleep(Duration::from_millis(200)).await;
                let n = down2.chunks(piece).count();
                for (k, ch) in down2.chunks(piece).enumerate() {
                    let _ = origin2.to_client.send(PeerMsg::Data(Bytes::copy_from_slice(ch)));
                    if k + 1 < n || !dest_ends {
                        tokio::time::sleep(Duration::from_millis(2)).await;
                    }
                }
                if dest_ends {
                    // back to back with the last piece
                    let _ = origin2.to_client.send(PeerMsg::Eof);
                }
            });
            let (reader, writer): (tokio::task::JoinHandle<(Vec<u8>, Option<u128>)>, tokio::task::JoinHandle<usize>) = match cli {
                Cli::H1(mut rd, mut wr) => {
                    let start = tokio::time::Instant::now();
                    let r = tokio::spawn(async move {
                        let mut got = vec![];
                        let mut buf = vec![0u8; 16384];
                        let mut done_at = None;
                        while got.len() < down_total {
                            match tokio::time::timeout(Duration::from_secs(40), rd.read(&mut buf)).await {
                                Ok(Ok(n)) if n > 0 => got.extend_from_slice(&buf[..n]),
                                _ => break,
                            }
                        }
                        if got.len() >= down_total {
                            done_at = Some(start.elapsed().as_millis());
                        }
                        (got, done_at)
                    });
                    let w = tokio::spawn(async move {
                        let mut sent = 0;
                        for ch in up_data.chunks(8192) {
                            if tokio::time::timeout(Duration::from_secs(60), wr.write_all(ch)).await.map(|r| r.is_ok()).unwrap_or(false) {
                                sent += ch.len();
                            } else {
                                break;
                            }
                        }
                        // keep the write half alive
                        tokio::time::sleep(Duration::from_secs(60)).await;
                        drop(wr);
                        sent
                    });
                    (r, w)
                }
                Cli::H2(mut body, mut stream, _conn) => {
                    let start = tokio::time::Instant::now();
                    let r = tokio::spawn(async move {
                        let mut got = vec![];
                        let mut done_at = None;
                        while got.len() < down_total {
                            match tokio::time::timeout(Duration::from_secs(40), body.data()).await {
                                Ok(Some(Ok(b))) => {
                                    let _ = body.flow_control().release_capacity(b.len());
                                    got.extend_from_slice(&b);
                                }
                                _ => break,
                            }
                        }
                        if got.len() >= down_total {
                            done_at = Some(start.elapsed().as_millis());
                        }
                        tokio::time::sleep(Duration::from_secs(60)).await;
                        drop(body);
                        (got, done_at)
                    });
                    let w = tokio::spawn(async move {
                        let _keep = _conn;
                        let mut off = 0;
                        let deadline = tokio::time::Instant::now() + Duration::from_secs(60);
                        while off < up_data.len() {
                            stream.reserve_capacity((up_data.len() - off).min(65536));
                            let cap = tokio::time::timeout_at(deadline, futures::future::poll_fn(|cx| stream.poll_capacity(cx))).await;
                            let Ok(Some(Ok(cap))) = cap else { break };
                            let n = cap.min(up_data.len() - off);
                            if stream.send_data(Bytes::copy_from_slice(&up_data[off..off + n]), false).is_err() {
                                break;
                            }
                            off += n;
                        }
                        tokio::time::sleep(Duration::from_secs(60)).await;
                        off
                    });
                    (r, w)
                }
            };
            // the download must get through while the upload is still refused
            tokio::time::sleep(Duration::from_secs(6)).await;
            let _ = feeder.await;
            if c.dest_ends {
                // the download and its end must have come through although the upload never moved;
                // the upload itself ends with the tunnel
                let (got, done_at) = match tokio::time::timeout(Duration::from_secs(100), reader).await {
                    Ok(Ok(x)) => x,
                    _ => (vec![], None),
                };
                writer.abort();
                ensure!(
                    got.len() >= down_total && done_at.is_some_and(|t| t <= 5200),
                    "tunnel:download-stalled-behind-blocked-upload",
                    "{}, the destination ends its stream behind its last piece: after the 5 s allowed the client has {} of {} download bytes (complete after {:?} ms)",
                    what,
                    got.len().min(down_total),
                    down_total,
                    done_at
                );
                ensure!(got[..down_total] == down_data[..], "tunnel:download-differs", "{}: download bytes differ", what);
                return Ok(());
            }
            // open the gate: the rest of the upload follows
            origin.set_accepting(true);
            let expected_up = pat(0x33, 0, up_total);
            for _ in 0..4000 {
                if origin.received.lock().unwrap().len() >= up_total {
                    break;
                }
                tokio::time::sleep(Duration::from_millis(10)).await;
            }
            let (got, done_at) = match tokio::time::timeout(Duration::from_secs(100), reader).await {
                Ok(Ok(x)) => x,
                _ => (vec![], None),
            };
            writer.abort();
            ensure!(
                got.len() >= down_total && done_at.is_some_and(|t| t <= 5200),
                "tunnel:download-stalled-behind-blocked-upload",
                "{}: after {} the client has {} of {} download bytes (complete after {:?} ms); the destination refused uploads for the first 6 s",
                what,
                "the 5 s allowed",
                got.len().min(down_total),
                down_total,
                done_at
            );
            ensure!(got[..down_total] == down_data[..], "tunnel:download-differs", "{}: download bytes differ", what);
            let up_got = origin.received.lock().unwrap().clone();
            ensure!(
                up_got == expected_up,
                if up_got.len() < up_total { "tunnel:upload-stalled" } else { "tunnel:upload-differs" },
                "{}: after the destination accepted again it received {} of {} upload bytes",
                what,
                up_got.len(),
                up_total
            );
            Ok(())
        })
    }
}
