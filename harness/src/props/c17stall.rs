//! C17, "... for every segmentation of the origin's byte stream and every back-pressure pattern of
//! the client": a client that stalls across a tick of the tunnel's idle timer while the response
//! direction is parked with an unsent remainder and the request direction is open but idle.

use crate::engine::world::{CoreSpec, Outcome, PeerMsg, Scripted};
use crate::engine::{aio, Suite, Tier, Verdict, Violation};
use crate::ensure;
use crate::props::tunnelreq::b64;
use bytes::Bytes;
use proptest::prelude::*;
use serde::{Deserialize, Serialize};
use std::time::Duration;
use tokio::io::{AsyncReadExt, AsyncWriteExt};
use trusttunnel::verif::session::{ChannelView, Proto};

#[derive(Serialize, Deserialize, Debug, Clone)]
pub struct Case {
    /// response body pieces; piece k leaves the origin 300 ms after piece k-1
    pub pieces: Vec<u16>,
    /// request body length (all but its last byte is sent at once, the last byte at the end)
    pub req_len: u8,
    /// the client's transport buffer
    pub transport: u16,
    /// the client starts reading this long after the request (the idle timeout is 1000 ms)
    pub resume_ms: u16,
}

pub struct StallSuite;

fn pat(tag: u8, n: usize) -> Vec<u8> {
    (0..n).map(|i| ((i * 7 + (i >> 8)) as u8) ^ tag).collect()
}

impl Suite for StallSuite {
    type Case = Case;
    fn name(&self) -> &'static str {
        "forwarded-stall-across-idle-tick"
    }
    fn rule(&self) -> String {
        "a POST with Content-Length forwarded on a real HTTP/1.1 session in memory (virtual clock, idle timeout 1 s) whose client holds the last byte of its body back, so that the request direction stays open and idle; the origin answers at once with a Content-Length response whose body leaves in 3-5 pieces of 2500-6000 bytes, one every 300 ms; the client (transport buffer 1-3 KiB) reads nothing for 1100-1500 ms - the request direction's idle timer fires while the response direction is parked with a piece the client sink could not take - then sends its last byte and reads the response; oracle: the client receives exactly the origin's body, the origin the request body (its last byte may be cut off by the end of the exchange); non-trivial = every case".into()
    }
    fn strategy(&self, _: Tier) -> BoxedStrategy<Case> {
        (prop::collection::vec(2500u16..6000, 3..=5), 2u8..200, 1024u16..3072, 1100u16..1500)
            .prop_map(|(pieces, req_len, transport, resume_ms)| Case { pieces, req_len, transport, resume_ms })
            .boxed()
    }
    fn cases(&self, tier: Tier) -> u64 {
        tier.pick(1_600, 40_000)
    }
    fn classify(&self, _: &Case) -> Vec<&'static str> {
        vec!["nontrivial"]
    }
    fn check(&self, c: &Case) -> Verdict {
        let c = c.clone();
        let debug = std::env::var("VERIF_DEBUG").is_ok();
        if debug {
            crate::engine::logcap::start();
        }
        let r = aio::block_on_paused(async move {
            aio::skew_clock().await;
            let herr = |e: String| Violation { sig: "harness:c17stall".into(), msg: e };
            let spec = CoreSpec { tcp_timeout: Duration::from_secs(1), ..CoreSpec::default() };
            let world = spec.build().map_err(herr)?;
            let scripted = Scripted::new(|_| Outcome::Silent);
            let _g = scripted.install(&world);
            let (mut io, _srv) = world.serve(Proto::Http1, ChannelView::Tunnel, "main.x", None, crate::engine::world::peer_v4(), c.transport as usize);
            let req_body = pat(0x21, c.req_len as usize);
            let head = format!(
                "POST http://origin.test/upload HTTP/1.1\r\nHost: origin.test\r\nProxy-Authorization: Basic {}\r\nContent-Length: {}\r\n\r\n",
                b64("user:pass"),
                req_body.len()
            );
            let t0 = tokio::time::Instant::now();
            io.write_all(head.as_bytes()).await.map_err(|e| herr(e.to_string()))?;
            io.write_all(&req_body[..req_body.len() - 1]).await.map_err(|e| herr(e.to_string()))?;
            let mut origin = None;
            for _ in 0..200 {
                if let Some((_, h)) = scripted.peers.lock().unwrap().first() {
                    origin = Some(h.clone());
                    break;
                }
                tokio::time::sleep(Duration::from_millis(1)).await;
            }
            let Some(origin) = origin else {
                return Err(herr("the endpoint never connected to the origin".into()));
            };
            let total: usize = c.pieces.iter().map(|p| *p as usize).sum();
            let body = pat(0x9c, total);
            let what = format!("response body of {} bytes in pieces {:?} (one every 300 ms), client transport {} bytes, client reads from {} ms on, idle timeout 1000 ms, request body {} bytes with the last one held back", total, c.pieces, c.transport, c.resume_ms, req_body.len());
            // the origin answers at once, piece by piece
            let o2 = origin.clone();
            let pieces = c.pieces.clone();
            let body2 = body.clone();
            let feeder = tokio::spawn(async move {
                let _ = o2.to_client.send(PeerMsg::Data(Bytes::from(format!("HTTP/1.1 200 OK\r\nContent-Type: application/x-test\r\nContent-Length: {}\r\n\r\n", body2.len()))));
                let mut off = 0;
                for (k, p) in pieces.iter().enumerate() {
                    if k > 0 {
                        tokio::time::sleep(Duration::from_millis(300)).await;
                    }
                    let _ = o2.to_client.send(PeerMsg::Data(Bytes::copy_from_slice(&body2[off..off + *p as usize])));
                    off += *p as usize;
                }
            });
            tokio::time::sleep_until(t0 + Duration::from_millis(c.resume_ms as u64)).await;
            // the held-back byte completes the request (a complete response would otherwise end the
            // exchange before the request is over, which HTTP/1.1 allows) ...
            io.write_all(&req_body[req_body.len() - 1..]).await.map_err(|e| herr(e.to_string()))?;
            // ... and now the client reads: head, then Content-Length bytes
            let mut buf = vec![];
            let deadline = tokio::time::Instant::now() + Duration::from_secs(6);
            let mut tmp = vec![0u8; 4096];
            let mut ended = None;
            loop {
                if let Some(p) = buf.windows(4).position(|w| w == b"\r\n\r\n") {
                    if buf.len() - (p + 4) >= total {
                        break;
                    }
                }
                match tokio::time::timeout_at(deadline, io.read(&mut tmp)).await {
                    Err(_) => {
                        ended = Some("nothing more for 6 s".to_string());
                        break;
                    }
                    Ok(Ok(0)) => {
                        ended = Some("the connection was closed".to_string());
                        break;
                    }
                    Ok(Ok(n)) => buf.extend_from_slice(&tmp[..n]),
                    Ok(Err(e)) => {
                        ended = Some(e.to_string());
                        break;
                    }
                }
            }
            let _ = feeder.await;
            let Some(p) = buf.windows(4).position(|w| w == b"\r\n\r\n") else {
                return Err(Violation { sig: "forward:response-broken".into(), msg: format!("{}: no response head at the client ({:?}; {} bytes)", what, ended, buf.len()) });
            };
            ensure!(buf.starts_with(b"HTTP/1.1 200"), "forward:response-broken", "{}: response starts with {:?}", what, String::from_utf8_lossy(&buf[..buf.len().min(40)]));
            let got = &buf[p + 4..];
            let same = got.iter().zip(&body).take_while(|(a, b)| a == b).count();
            ensure!(
                got == &body[..],
                "forward:body-differs",
                "{}: the client has {} of {} body bytes, equal up to offset {} ({})",
                what,
                got.len(),
                total,
                same,
                ended.unwrap_or_else(|| "complete by length".into())
            );
            // The response is complete: the endpoint may end the exchange without having read the
            // byte the client sent last (a server may answer and close before a request is over), so
            // the origin holds the request body or all but its last byte - never anything else.
            tokio::time::sleep(Duration::from_millis(200)).await;
            let r = origin.received.lock().unwrap().clone();
            let p = r.windows(4).position(|w| w == b"\r\n\r\n").map(|p| p + 4).unwrap_or(r.len());
            let at_origin = &r[p..];
            ensure!(
                at_origin.len() >= req_body.len() - 1 && at_origin.len() <= req_body.len() && req_body.starts_with(at_origin),
                "forward:request-body-framing",
                "{}: the origin holds {} request body bytes (equal prefix {}), the client sent {}",
                what,
                at_origin.len(),
                at_origin.iter().zip(&req_body).take_while(|(a, b)| a == b).count(),
                req_body.len()
            );
            let _ = origin.to_client.send(PeerMsg::Eof);
            Ok(())
        });
        if debug {
            for l in crate::engine::logcap::stop() {
                eprintln!("LOG {}", l);
            }
        }
        r
    }
}
