//! C09 on the real listeners: garbage to the TCP port (instead of, or around, a ClientHello) and
//! garbage datagrams to the UDP port (QUIC), then well-behaved clients must still be served and
//! no thread or task of the endpoint may have panicked.

use crate::engine::networld::{ManualTls, NetWorld};
use crate::engine::quic::h3_request;
use crate::engine::world::CoreSpec;
use crate::engine::{aio, idx, viol, Suite, Tier, Verdict};
use crate::ensure;
use crate::props::tunnelreq::b64;
use proptest::prelude::*;
use serde::{Deserialize, Serialize};
use std::time::Duration;
use tokio::io::AsyncWriteExt;

#[derive(Serialize, Deserialize, Debug, Clone)]
pub enum Blob {
    Random(Vec<u8>),
    /// a real first flight (TLS ClientHello record / QUIC Initial datagram) with these mutations:
    /// (position, xor) pairs, then truncated to `keep` per mille of its length
    Mutated(Vec<(u16, u8)>, u16),
    /// a real first flight followed by this garbage
    Followed(Vec<u8>),
    /// a TLS record / QUIC long header announcing more than it carries
    Oversized(u16),
}

#[derive(Serialize, Deserialize, Debug, Clone)]
pub struct Case {
    pub tcp: Vec<Blob>,
    pub udp: Vec<Blob>,
}

fn blob_strategy() -> BoxedStrategy<Blob> {
    prop_oneof![
        3 => prop::collection::vec(any::<u8>(), 0..300).prop_map(Blob::Random),
        5 => (prop::collection::vec((any::<u16>(), 1u8..=255), 1..6), 100u16..=1000).prop_map(|(m, k)| Blob::Mutated(m, k)),
        2 => prop::collection::vec(any::<u8>(), 1..2000).prop_map(Blob::Followed),
        1 => any::<u16>().prop_map(Blob::Oversized),
    ]
    .boxed()
}

fn render(b: &Blob, genuine: &[u8], quic: bool) -> Vec<u8> {
    match b {
        Blob::Random(v) => v.clone(),
        Blob::Mutated(m, keep) => {
            let mut v = genuine.to_vec();
            for (p, x) in m {
                if !v.is_empty() {
                    let i = idx(*p, v.len());
                    v[i] ^= x;
                }
            }
            let n = v.len() * (*keep as usize) / 1000;
            v.truncate(n.max(1));
            v
        }
        Blob::Followed(tail) => {
            let mut v = genuine.to_vec();
            v.extend_from_slice(tail);
            v
        }
        Blob::Oversized(n) => {
            if quic {
                // long header, version 1, connection id lengths at their maximum, nothing behind
                let mut v = vec![0xc0 | (*n as u8 & 0x0f), 0, 0, 0, 1, 20];
                v.extend_from_slice(&[0xaa; 8]);
                v
            } else {
                let mut v = vec![22, 3, 1];
                v.extend_from_slice(&n.to_be_bytes());
                v.extend_from_slice(&genuine[5..genuine.len().min(60)]);
                v
            }
        }
    }
}

pub struct ListenerGarbageSuite;

impl Suite for ListenerGarbageSuite {
    type Case = Case;
    fn name(&self) -> &'static str {
        "listeners-garbage"
    }
    fn rule(&self) -> String {
        "the real Core::listen (TCP/TLS and QUIC on one loopback port): 0-3 TCP connections that send random bytes, a real rustls ClientHello mutated in 1-5 bytes and truncated, a real ClientHello followed by garbage, or a TLS record header announcing more than follows; 0-6 UDP datagrams of the same kinds built from a real quiche Initial packet; afterwards a well-behaved TLS client (CONNECT _check) and a well-behaved HTTP/3 client (x-ping) must both be answered 200, and no thread or task of the process may have panicked (process-wide panic counter); non-trivial = at least one mutated genuine first flight".into()
    }
    fn strategy(&self, _: Tier) -> BoxedStrategy<Case> {
        (prop::collection::vec(blob_strategy(), 0..=3), prop::collection::vec(blob_strategy(), 0..=6)).prop_map(|(tcp, udp)| Case { tcp, udp }).boxed()
    }
    fn cases(&self, tier: Tier) -> u64 {
        tier.pick(800, 40_000)
    }
    fn classify(&self, c: &Case) -> Vec<&'static str> {
        let mut v = vec![];
        if c.tcp.iter().any(|b| matches!(b, Blob::Mutated(..))) {
            v.push("mutated-client-hello");
        }
        if c.udp.iter().any(|b| matches!(b, Blob::Mutated(..))) {
            v.push("mutated-quic-initial");
        }
        if !v.is_empty() {
            v.push("nontrivial");
        }
        v
    }
    fn required_classes(&self) -> Vec<&'static str> {
        vec!["nontrivial", "mutated-client-hello", "mutated-quic-initial"]
    }
    fn check(&self, c: &Case) -> Verdict {
        let c = c.clone();
        aio::block_on_real(async move {
            let spec = CoreSpec { quic: true, handshake_timeout: Duration::from_millis(300), ..CoreSpec::default() };
            let net = match NetWorld::start(&spec).await {
                Ok(n) => n,
                Err(e) => return viol("harness:networld", e),
            };
            // genuine first flights to mutate
            let hello = {
                let (mut conn, _) = crate::engine::networld::client_conn(Some("main.x"), &[b"http/1.1".to_vec()]);
                let mut v = vec![];
                while conn.wants_write() {
                    let _ = conn.write_tls(&mut v);
                }
                v
            };
            let initial = {
                let mut scid = [7u8; quiche::MAX_CONN_ID_LEN];
                scid[0] = c.udp.len() as u8;
                let mut config = quiche::Config::new(quiche::PROTOCOL_VERSION).unwrap();
                config.verify_peer(false);
                let _ = config.set_application_protos(&[b"h3"]);
                let mut out = vec![0u8; 1350];
                match quiche::connect(Some("main.x"), &quiche::ConnectionId::from_ref(&scid), "127.0.0.1:9".parse().unwrap(), net.addr, &mut config) {
                    Ok(mut conn) => match conn.send(&mut out) {
                        Ok((n, _)) => out[..n].to_vec(),
                        Err(_) => vec![0xc0, 0, 0, 0, 1],
                    },
                    Err(_) => vec![0xc0, 0, 0, 0, 1],
                }
            };
            for b in &c.tcp {
                if let Ok(mut s) = tokio::net::TcpStream::connect(net.addr).await {
                    let _ = s.write_all(&render(b, &hello, false)).await;
                    let _ = s.flush().await;
                    tokio::time::sleep(Duration::from_millis(2)).await;
                }
            }
            if !c.udp.is_empty() {
                if let Ok(u) = tokio::net::UdpSocket::bind("127.0.0.1:0").await {
                    for b in &c.udp {
                        let d = render(b, &initial, true);
                        let _ = u.send_to(&d[..d.len().min(1400)], net.addr).await;
                    }
                }
            }
            tokio::time::sleep(Duration::from_millis(10)).await;
            // the listeners still serve
            let what = format!("after {} garbage TCP connections and {} garbage datagrams", c.tcp.len(), c.udp.len());
            let mut good = match ManualTls::connect(net.addr, Some("main.x"), &[b"http/1.1".to_vec()]).await {
                Ok(x) => x,
                Err(e) => return viol("listener:tcp-not-serving", format!("{}: connect: {}", what, e)),
            };
            if let Err(e) = good.handshake(Duration::from_secs(4)).await {
                return viol("listener:tcp-not-serving", format!("{}: TLS handshake of a well-behaved client: {:?}", what, e));
            }
            let req = format!("CONNECT _check HTTP/1.1\r\nHost: _check\r\nProxy-Authorization: Basic {}\r\n\r\n", b64("user:pass"));
            let _ = good.send(req.as_bytes()).await;
            let (got, _) = good.recv_until(Duration::from_secs(4), |b| b.windows(4).any(|w| w == b"\r\n\r\n")).await;
            ensure!(got.starts_with(b"HTTP/1.1 200"), "listener:tcp-not-serving", "{}: CONNECT _check answered {:?}", what, String::from_utf8_lossy(&got[..got.len().min(80)]));
            let authority = format!("main.x:{}", net.addr.port());
            let headers: Vec<(Vec<u8>, Vec<u8>)> = vec![
                (b":method".to_vec(), b"GET".to_vec()),
                (b":scheme".to_vec(), b"https".to_vec()),
                (b":authority".to_vec(), authority.into_bytes()),
                (b":path".to_vec(), b"/".to_vec()),
                (b"x-ping".to_vec(), b"1".to_vec()),
            ];
            let out = h3_request(net.addr, "main.x", &[b"h3".to_vec()], &headers, Duration::from_secs(4)).await;
            ensure!(out.status == Some(200), "listener:quic-not-serving", "{}: an HTTP/3 x-ping got {:?} (established {}, error {:?})", what, out.status, out.established, out.error);
            ensure!(!net.listen.is_finished(), "listener:ended", "{}: Core::listen returned", what);
            Ok(())
        })
    }
}
