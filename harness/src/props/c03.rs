//! C03 — private-network egress policy is exact for every destination spelling.

use crate::engine::{self, Ctx, Tier, Violation};
use crate::reference::iana::{self, Class};
use serde_json::{json, Value};
use std::net::{IpAddr, Ipv4Addr, Ipv6Addr};
use trusttunnel::verif::codecs::is_global_ip;

fn judge(ip: IpAddr) -> Result<(), Violation> {
    let class = iana::classify(&ip);
    let global = is_global_ip(&ip);
    let fam = match ip {
        IpAddr::V4(_) => "v4",
        IpAddr::V6(a) if a.to_ipv4_mapped().is_some() => "v4-mapped",
        IpAddr::V6(_) => "v6",
    };
    match (class, global) {
        (Class::MustRefuse, true) => Err(Violation {
            sig: format!("classifier:{}:non-global-address-allowed", fam),
            msg: format!("{} is loopback/private/link-local/ULA/unspecified/shared/reserved/documentation but is classified as global (would be connected to)", ip),
        }),
        (Class::MustAllow, false) => Err(Violation {
            sig: format!("classifier:{}:global-unicast-refused", fam),
            msg: format!("{} is globally routable unicast but is classified as non-global (would be refused)", ip),
        }),
        _ => Ok(()),
    }
}

struct Acc {
    evals: u64,
    nontrivial: u64,
    refuse: u64,
    allow: u64,
    dontcare: u64,
    samples: Vec<Value>,
}

impl Acc {
    fn new() -> Self {
        Self {
            evals: 0,
            nontrivial: 0,
            refuse: 0,
            allow: 0,
            dontcare: 0,
            samples: vec![],
        }
    }
    fn one(&mut self, ctx: &mut Ctx, suite: &str, ip: IpAddr, near_boundary: bool) {
        self.evals += 1;
        let class = iana::classify(&ip);
        match class {
            Class::MustRefuse => self.refuse += 1,
            Class::MustAllow => self.allow += 1,
            Class::DontCare => self.dontcare += 1,
        }
        if class != Class::MustAllow || near_boundary {
            self.nontrivial += 1;
            if self.samples.len() < 3 && self.nontrivial % 1001 == 1 {
                self.samples
                    .push(json!({"ip": ip.to_string(), "reference": format!("{:?}", class), "is_global_ip": is_global_ip(&ip)}));
            }
        }
        if let Err(v) = judge(ip) {
            ctx.violation(suite, json!({"ip": ip.to_string()}), v);
        }
    }
    fn flush(self, ctx: &mut Ctx, suite: &str) {
        ctx.record_bulk(
            suite,
            self.evals,
            self.nontrivial,
            &[
                ("nontrivial", self.nontrivial),
                ("must-refuse", self.refuse),
                ("must-allow", self.allow),
                ("dont-care", self.dontcare),
            ],
            self.samples,
        );
    }
}

fn near_v4_boundary(bounds: &[u32], ip: u32) -> bool {
    match bounds.binary_search(&ip) {
        Ok(_) => true,
        Err(i) => {
            (i > 0 && ip - bounds[i - 1] <= 2) || (i < bounds.len() && bounds[i] - ip <= 2)
        }
    }
}

fn classifier_v4(ctx: &mut Ctx, mapped: bool) {
    let suite = if mapped { "classifier-v4-mapped" } else { "classifier-v4" };
    if !ctx.suite_enabled(suite) {
        return;
    }
    let bounds = iana::v4_boundaries();
    let mk = |x: u32| -> IpAddr {
        if mapped {
            IpAddr::V6(Ipv4Addr::from(x).to_ipv6_mapped())
        } else {
            IpAddr::V4(Ipv4Addr::from(x))
        }
    };
    let mut acc = Acc::new();
    engine::watchdog::begin_case(ctx.prop, suite, &json!("enumeration"));
    // plain IPv4 is enumerated completely in both tiers (about 10 s on 16 cores)
    let exhaustive = ctx.tier == Tier::Thorough || !mapped;
    if exhaustive {
        // all 2^32, split by shard
        let n = ctx.nshards as u64;
        let lo = (1u64 << 32) * ctx.shard as u64 / n;
        let hi = (1u64 << 32) * (ctx.shard as u64 + 1) / n;
        for x in lo..hi {
            let x = x as u32;
            if x & 0xff_ffff == 0 {
                engine::watchdog::heartbeat();
            }
            acc.one(ctx, suite, mk(x), near_v4_boundary(&bounds, x));
        }
    } else {
        // every /16 prefix x 16 low parts, plus all block boundaries +-2
        const LOWS: [u32; 16] = [
            0, 1, 2, 9, 10, 0xff, 0x100, 0x1ff, 0x200, 0x6300, 0x6400, 0x7100, 0x7fff, 0x8000, 0xfffe,
            0xffff,
        ];
        for hi in 0..=0xffffu32 {
            if hi % ctx.nshards != ctx.shard {
                continue;
            }
            for lo in LOWS {
                let x = (hi << 16) | lo;
                acc.one(ctx, suite, mk(x), near_v4_boundary(&bounds, x));
            }
        }
        if ctx.shard == 0 {
            for b in &bounds {
                for d in [-2i64, -1, 0, 1, 2] {
                    let x = (*b as i64 + d).rem_euclid(1 << 32) as u32;
                    acc.one(ctx, suite, mk(x), true);
                }
            }
        }
    }
    engine::watchdog::end_case();
    acc.flush(ctx, suite);
    let s = ctx.suite_mut(suite);
    s.exhaustive = Some(exhaustive);
    s.rule = format!(
        "{}: {}; each address classified by the real is_global_ip and by a three-valued table built from the IANA special-purpose registries (must-refuse / must-allow / don't-care); non-trivial = address inside a special-purpose block or within 2 of a block boundary",
        if mapped { "::ffff:a.b.c.d for IPv4 a.b.c.d" } else { "IPv4 a.b.c.d" },
        if exhaustive { "all 2^32 addresses" } else { "every /16 prefix x 16 low parts plus every block boundary +-2" }
    );
}

fn classifier_v6(ctx: &mut Ctx) {
    let suite = "classifier-v6";
    if !ctx.suite_enabled(suite) {
        return;
    }
    const IIDS: [u128; 4] = [0, 1, u64::MAX as u128, 0x0123_4567_89ab_cdef_u128];
    // bits 32..64 variants
    const MID: [u128; 3] = [0, 1 << 64, 0xdead_beef_u128 << 64];
    let mut acc = Acc::new();
    engine::watchdog::begin_case(ctx.prop, suite, &json!("enumeration"));
    let exhaustive = ctx.tier == Tier::Thorough;
    let special = |lead: u32| -> bool {
        let h0 = lead >> 16;
        // leading hextets around the interesting blocks
        lead == 0
            || lead == 0xffff
            || h0 == 0x2001
            || h0 == 0x2002
            || (0x3ff0..=0x4000).contains(&h0)
            || (0xfc00..=0xfec0).contains(&h0)
            || h0 == 0x1fff
            || h0 == 0x2000
    };
    let mut visit = |ctx: &mut Ctx, lead: u32, acc: &mut Acc| {
        for (k, iid) in IIDS.iter().enumerate() {
            let ip = ((lead as u128) << 96) | MID[k % MID.len()] | iid;
            acc.one(ctx, suite, IpAddr::V6(Ipv6Addr::from(ip)), special(lead));
        }
    };
    if exhaustive {
        let n = ctx.nshards as u64;
        let lo = (1u64 << 32) * ctx.shard as u64 / n;
        let hi = (1u64 << 32) * (ctx.shard as u64 + 1) / n;
        for lead in lo..hi {
            let lead = lead as u32;
            if lead & 0x3f_ffff == 0 {
                engine::watchdog::heartbeat();
            }
            visit(ctx, lead, &mut acc);
        }
    } else {
        const SECOND: [u32; 20] = [
            0, 1, 0x01ff, 0x0200, 0x0db7, 0x0db8, 0x0db9, 0x4860, 0x7fff, 0x8000, 0xfffe, 0xffff, 0x0010,
            0x0002, 0x0100, 0x1000, 0x2000, 0xfe80, 0xfc00, 0x00ff,
        ];
        for h0 in 0..=0xffffu32 {
            if h0 % ctx.nshards != ctx.shard {
                continue;
            }
            for h1 in SECOND {
                visit(ctx, (h0 << 16) | h1, &mut acc);
            }
        }
        if ctx.shard == 0 {
            // low space: ::/96 neighbourhood, mapped boundary, loopback neighbours
            for x in [0u128, 1, 2, 0xffff, 0x1_0000, 0xfffe_ffff_ffff, 0xffff_0000_0000, 0xffff_ffff_ffff, 0x1_0000_0000_0000] {
                acc.one(ctx, suite, IpAddr::V6(Ipv6Addr::from(x)), true);
            }
        }
    }
    engine::watchdog::end_case();
    acc.flush(ctx, suite);
    let s = ctx.suite_mut(suite);
    s.exhaustive = Some(exhaustive);
    s.rule = format!(
        "IPv6 by structural class: {} x 4 interface identifiers (0, 1, all-ones, pseudo-random) with varied bits 32..64; same oracle as IPv4; non-trivial = leading bits in or next to a special block (::/32, 2001::/16, 2002::/16, 3ff0::-4000::, fc00::-fec0::, 1fff::, 2000::)",
        if exhaustive { "every value of the leading 32 bits" } else { "every leading hextet x 20 second hextets" }
    );
}

pub fn run(ctx: &mut Ctx) {
    super::replay_corpus(ctx, replay);
    classifier_v4(ctx, false);
    classifier_v4(ctx, true);
    classifier_v6(ctx);
    ctx.run_suite(&super::c03conn::ConnectorSuite);
    ctx.assume("reference table: must-refuse = 0/8, 10/8, 100.64/10, 127/8, 169.254/16, 172.16/12, 192.0.2/24, 192.168/16, 198.51.100/24, 203.0.113/24, 240/4, ::, ::1, fe80::/10, fc00::/7, 2001:db8::/32 and ::ffff: of those; must-allow = other unicast IPv4 outside 192.0.0/24, 192.88.99/24, 198.18/15, 224/4 and 2000::/3 minus 2001::/23, 2002::/16, 3fff::/20; everything else is don't-care");
}

pub fn replay(ctx: &mut Ctx, suite: &str, case: &Value) -> bool {
    match suite {
        "classifier-v4" | "classifier-v4-mapped" | "classifier-v6" => {
            let Some(ip) = case["ip"].as_str().and_then(|s| s.parse::<IpAddr>().ok()) else {
                return false;
            };
            ctx.record(suite, &["replayed"], || case.clone());
            if let Err(v) = judge(ip) {
                ctx.violation(suite, case.clone(), v);
            }
            true
        }
        "connector-spellings" => ctx.replay_suite(&super::c03conn::ConnectorSuite, case),
        _ => false,
    }
}
