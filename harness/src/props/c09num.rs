//! C09, "no byte sequence ... makes the endpoint panic, overflow arithmetic, ...": requests and
//! origin responses that are well-formed except for one number a peer chooses freely - a
//! speedtest size, a Content-Length, a port, a chunk size - taken from where arithmetic breaks.

use crate::engine::world::{CoreSpec, Outcome, PeerMsg, Scripted};
use crate::engine::{aio, viol, Suite, Tier, Verdict, Violation};
use crate::ensure;
use crate::props::tunnelreq::b64;
use bytes::Bytes;
use proptest::prelude::*;
use serde::{Deserialize, Serialize};
use std::time::Duration;
use tokio::io::{AsyncReadExt, AsyncWriteExt};
use trusttunnel::verif::session::{ChannelView, Proto};

#[derive(Serialize, Deserialize, Debug, Clone, PartialEq)]
pub enum Field {
    /// GET /<n>mb.bin on the speedtest host
    DownloadSize,
    /// GET /speed/<n>mb.bin on the main host
    DownloadSizeMainHost,
    /// POST /upload.html with Content-Length: <n> (no body follows)
    UploadLength,
    /// CONNECT host:<n>
    ConnectPort,
    /// Content-Length: <n> on a CONNECT request
    ConnectContentLength,
    /// plain-HTTP request with Content-Length: <n> (a few body bytes follow)
    ForwardedRequestLength,
    /// origin answers a forwarded request with Content-Length: <n>
    OriginContentLength,
    /// origin answers chunked, first chunk-size line is <n> (hexadecimal on the wire as given)
    OriginChunkSize,
    /// origin answers with a head of <n> header fields (capped at 3000)
    OriginHeaderCount,
    /// origin answers with one header field whose value is <n> bytes long (capped at 300000)
    OriginHeaderLength,
}

#[derive(Serialize, Deserialize, Debug, Clone)]
pub struct Case {
    pub field: Field,
    pub number: String,
    pub h2: bool,
}

pub struct HostileNumbersSuite;

fn herr(what: &str, e: impl std::fmt::Display) -> Violation {
    Violation { sig: format!("harness:{}", what), msg: e.to_string() }
}

/// numbers around every place where a u8/u16/u32/u64/usize computation can leave its type
fn number_strategy(hex: bool) -> BoxedStrategy<String> {
    let fmt = move |v: u128| if hex { format!("{:x}", v) } else { v.to_string() };
    prop_oneof![
        2 => (0u128..300).prop_map(fmt),
        6 => (7u32..=65, -2i64..=2).prop_map(move |(k, d)| fmt(((1u128 << k) as i128 + d as i128) as u128)),
        // a size in MiB / KiB that overflows only after scaling
        3 => (10u32..=54, 0u128..3).prop_map(move |(k, d)| fmt((1u128 << k) + d)),
        2 => any::<u32>().prop_map(move |v| fmt(v as u128)),
        2 => any::<u64>().prop_map(move |v| fmt(v as u128)),
        1 => any::<u128>().prop_map(fmt),
        1 => if hex { "[1-9a-f][0-9a-f]{16,40}".boxed() } else { "[1-9][0-9]{19,40}".boxed() },
        1 => if hex { "-[0-9a-f]{1,8}".boxed() } else { "-[0-9]{1,19}".boxed() },
        1 => if hex { "0x[0-9a-f]{1,17}".boxed() } else { "\\+[0-9]{1,20}".boxed() },
        1 => "0{1,30}[0-9]{1,20}",
    ]
    .boxed()
}

impl Suite for HostileNumbersSuite {
    type Case = Case;
    fn name(&self) -> &'static str {
        "hostile-numbers"
    }
    fn rule(&self) -> String {
        "requests and origin responses that are well-formed except for one peer-chosen number: speedtest download size (speedtest host and /speed/ on the main host), upload Content-Length, CONNECT port, Content-Length on a CONNECT, Content-Length of a forwarded plain-HTTP request, and - as the origin of a forwarded request - the response's Content-Length or first chunk size (hexadecimal), the number of its header fields (0-300, 2^k-2..2^k+2 for k = 4..11, up to 3000) or the length of one field (up to 2^18+1 bytes); numbers: 0..300, 2^k-2..2^k+2 for k = 7..65, 2^k..2^k+2 for k = 10..54 (overflow only after scaling to bytes), any u32 / u64 / u128, 17-41 digits, negative, signed / 0x-prefixed, leading zeros; sent over real HTTP/1.1 and HTTP/2 sessions in memory (virtual clock, arithmetic overflow checks on); oracle: no panic anywhere in the process (panic-hook counter), the client has a response or a closed connection / stream within 40 virtual seconds, a download size above 100 or an upload above 120 MiB is never answered 200, a port above 65535 never reaches the forwarder; non-trivial = the number is at or beyond 2^16 (32 header fields, 1024 bytes of one field)".into()
    }
    fn strategy(&self, _: Tier) -> BoxedStrategy<Case> {
        let field = prop_oneof![
            3 => Just(Field::DownloadSize),
            2 => Just(Field::DownloadSizeMainHost),
            2 => Just(Field::UploadLength),
            1 => Just(Field::ConnectPort),
            1 => Just(Field::ConnectContentLength),
            1 => Just(Field::ForwardedRequestLength),
            2 => Just(Field::OriginContentLength),
            2 => Just(Field::OriginChunkSize),
            2 => Just(Field::OriginHeaderCount),
            1 => Just(Field::OriginHeaderLength),
        ];
        (field, any::<bool>())
            .prop_flat_map(|(field, h2)| {
                let hex = field == Field::OriginChunkSize;
                let numbers = match field {
                    // around every size at which a header table may be grown, and far beyond
                    Field::OriginHeaderCount => prop_oneof![3 => (0u32..300).prop_map(|n| n.to_string()), 3 => (4u32..=11, -2i32..=2).prop_map(|(k, d)| ((1i32 << k) + d).to_string()), 1 => (300u32..3000).prop_map(|n| n.to_string())].boxed(),
                    Field::OriginHeaderLength => prop_oneof![(0u32..2000).prop_map(|n| n.to_string()), (8u32..=18, -1i32..=1).prop_map(|(k, d)| ((1i32 << k) + d).to_string())].boxed(),
                    _ => number_strategy(hex),
                };
                numbers.prop_map(move |number| Case { field: field.clone(), number, h2 })
            })
            .boxed()
    }
    fn cases(&self, tier: Tier) -> u64 {
        tier.pick(12_000, 400_000)
    }
    fn classify(&self, c: &Case) -> Vec<&'static str> {
        let mut v = vec![match c.field {
            Field::DownloadSize | Field::DownloadSizeMainHost => "download-size",
            Field::UploadLength => "upload-length",
            Field::ConnectPort => "connect-port",
            Field::ConnectContentLength | Field::ForwardedRequestLength => "request-content-length",
            Field::OriginContentLength => "origin-content-length",
            Field::OriginChunkSize => "origin-chunk-size",
            Field::OriginHeaderCount | Field::OriginHeaderLength => "origin-head-size",
        }];
        v.push(if c.h2 { "h2" } else { "h1" });
        let radix = if c.field == Field::OriginChunkSize { 16 } else { 10 };
        let threshold = match c.field {
            Field::OriginHeaderCount => 32,
            Field::OriginHeaderLength => 1024,
            _ => 65_536,
        };
        let big = match u128::from_str_radix(c.number.trim_start_matches('+'), radix) {
            Ok(x) => x >= threshold,
            Err(_) => c.number.len() > 20,
        };
        if big {
            v.push("nontrivial");
        }
        v
    }
    fn required_classes(&self) -> Vec<&'static str> {
        vec!["nontrivial", "download-size", "upload-length", "connect-port", "request-content-length", "origin-content-length", "origin-chunk-size", "origin-head-size", "h1", "h2"]
    }
    fn check(&self, c: &Case) -> Verdict {
        let c = c.clone();
        aio::block_on_paused(async move {
            aio::skew_clock().await;
            let spec = CoreSpec {
                speedtest: true,
                speed_hosts: vec![("speed.x".into(), 2)],
                ..CoreSpec::default()
            };
            let world = spec.build().map_err(|e| herr("core", e))?;
            let scripted = Scripted::new(|_| Outcome::Silent);
            let _g = scripted.install(&world);
            let auth = format!("Basic {}", b64("user:pass"));
            let (channel, sni) = match c.field {
                Field::DownloadSize | Field::UploadLength => (ChannelView::Speedtest, "speed.x"),
                _ => (ChannelView::Tunnel, "main.x"),
            };
            // the request
            let (method, target, mut headers, body): (&str, String, Vec<(String, String)>, &[u8]) = match c.field {
                Field::DownloadSize => ("GET", format!("/{}mb.bin", c.number), vec![], b""),
                Field::DownloadSizeMainHost => ("GET", format!("/speed/{}mb.bin", c.number), vec![], b""),
                Field::UploadLength => ("POST", "/upload.html".into(), vec![("content-length".into(), c.number.clone())], b""),
                Field::ConnectPort => ("CONNECT", format!("dest.example:{}", c.number), vec![], b""),
                Field::ConnectContentLength => ("CONNECT", "dest.example:443".into(), vec![("content-length".into(), c.number.clone())], b""),
                Field::ForwardedRequestLength => ("POST", "http://origin.example/submit".into(), vec![("content-length".into(), c.number.clone())], b"abc"),
                Field::OriginContentLength | Field::OriginChunkSize | Field::OriginHeaderCount | Field::OriginHeaderLength => ("GET", "http://origin.example/page".into(), vec![], b""),
            };
            if channel == ChannelView::Tunnel {
                headers.push(("proxy-authorization".into(), auth));
            }
            let what = format!("{} {:?} = {:?}", if c.h2 { "h2" } else { "h1" }, c.field, c.number);
            let (io, _srv) = world.serve(if c.h2 { Proto::Http2 } else { Proto::Http1 }, channel, sni, None, crate::engine::world::peer_v4(), 64 * 1024);

            // the origin's answer, once the endpoint has connected to it
            let origin_reply: Option<Vec<u8>> = match c.field {
                Field::OriginContentLength => Some(format!("HTTP/1.1 200 OK\r\nContent-Length: {}\r\n\r\nhello world", c.number).into_bytes()),
                Field::OriginChunkSize => Some(format!("HTTP/1.1 200 OK\r\nTransfer-Encoding: chunked\r\n\r\n{}\r\nhello world\r\n0\r\n\r\n", c.number).into_bytes()),
                Field::ForwardedRequestLength => Some(b"HTTP/1.1 200 OK\r\nContent-Length: 2\r\n\r\nok".to_vec()),
                Field::OriginHeaderCount => {
                    let n: usize = c.number.parse::<usize>().unwrap_or(0).min(3000);
                    let mut r = b"HTTP/1.1 200 OK\r\n".to_vec();
                    for i in 0..n {
                        r.extend_from_slice(format!("X-H{}: v{}\r\n", i, i).as_bytes());
                    }
                    r.extend_from_slice(b"Content-Length: 2\r\n\r\nok");
                    Some(r)
                }
                Field::OriginHeaderLength => {
                    let n: usize = c.number.parse::<usize>().unwrap_or(0).min(300_000);
                    let mut r = b"HTTP/1.1 200 OK\r\nX-Long: ".to_vec();
                    r.extend(std::iter::repeat(b'q').take(n));
                    r.extend_from_slice(b"\r\nContent-Length: 2\r\n\r\nok");
                    Some(r)
                }
                _ => None,
            };
            let sc = scripted.clone();
            let feeder = tokio::spawn(async move {
                for _ in 0..4000 {
                    let p = sc.peers.lock().unwrap().first().cloned();
                    if let Some((_, h)) = p {
                        if let Some(r) = &origin_reply {
                            let _ = h.to_client.send(PeerMsg::Data(Bytes::from(r.clone())));
                            tokio::time::sleep(Duration::from_millis(20)).await;
                            let _ = h.to_client.send(PeerMsg::Eof);
                        }
                        return;
                    }
                    tokio::time::sleep(Duration::from_millis(5)).await;
                }
            });

            let limit = Duration::from_secs(40);
            let mut status: Option<u16> = None;
            let mut ended = false;
            if c.h2 {
                let (send, conn) = h2::client::handshake(io).await.map_err(|e| herr("h2", e))?;
                let conn = tokio::spawn(async move {
                    let _ = conn.await;
                });
                let uri: Result<http::Uri, _> = if method == "CONNECT" { target.parse() } else if target.starts_with("http://") { target.parse() } else { format!("https://{}{}", sni, target).parse() };
                let built = uri.map_err(|e| e.to_string()).and_then(|u| {
                    let mut b = http::Request::builder().method(method).uri(u);
                    for (n, v) in &headers {
                        b = b.header(n.as_str(), v.as_str());
                    }
                    b.body(()).map_err(|e| e.to_string())
                });
                match built {
                    Err(_) => {
                        // the client library refuses to send it: nothing reaches the endpoint
                        crate::engine::bump("not-sendable-over-h2", 1);
                        conn.abort();
                        feeder.abort();
                        return Ok(());
                    }
                    Ok(req) => {
                        let mut sr = send.ready().await.map_err(|e| herr("h2", e))?;
                        match sr.send_request(req, body.is_empty() && method != "POST") {
                            Err(_) => {
                                crate::engine::bump("not-sendable-over-h2", 1);
                                conn.abort();
                                feeder.abort();
                                return Ok(());
                            }
                            Ok((fut, mut stream)) => {
                                if !body.is_empty() {
                                    let _ = stream.send_data(Bytes::copy_from_slice(body), false);
                                }
                                // the client promises a body and never delivers it: it ends its stream after 1 s
                                let ender = tokio::spawn(async move {
                                    tokio::time::sleep(Duration::from_secs(1)).await;
                                    let _ = stream.send_data(Bytes::new(), true);
                                    tokio::time::sleep(Duration::from_secs(60)).await;
                                });
                                let r = tokio::time::timeout(limit, fut).await;
                                ender.abort();
                                match r {
                                    Err(_) => {}
                                    Ok(Err(_)) => ended = true,
                                    Ok(Ok(resp)) => {
                                        status = Some(resp.status().as_u16());
                                        let mut b = resp.into_body();
                                        // do not read a 100 MiB download to its end: a few frames will do
                                        for _ in 0..4 {
                                            match tokio::time::timeout(Duration::from_secs(5), b.data()).await {
                                                Ok(Some(Ok(d))) => {
                                                    let _ = b.flow_control().release_capacity(d.len());
                                                }
                                                _ => break,
                                            }
                                        }
                                        ended = true;
                                    }
                                }
                            }
                        }
                    }
                }
                conn.abort();
            } else {
                let mut io = io;
                let mut head = format!("{} {} HTTP/1.1\r\nHost: {}\r\n", method, target, if method == "CONNECT" { target.as_str() } else if target.starts_with("http://") { "origin.example" } else { sni });
                for (n, v) in &headers {
                    head.push_str(&format!("{}: {}\r\n", n, v));
                }
                head.push_str("\r\n");
                let mut bytes = head.into_bytes();
                bytes.extend_from_slice(body);
                io.write_all(&bytes).await.map_err(|e| herr("io", e))?;
                let (mut io, mut wr) = tokio::io::split(io);
                // the client promises a body and never delivers it: it ends its direction after 1 s
                let ender = tokio::spawn(async move {
                    tokio::time::sleep(Duration::from_secs(1)).await;
                    let _ = wr.shutdown().await;
                    tokio::time::sleep(Duration::from_secs(60)).await;
                });
                let mut buf = vec![];
                let deadline = tokio::time::Instant::now() + limit;
                let mut tmp = vec![0u8; 4096];
                loop {
                    match tokio::time::timeout_at(deadline, io.read(&mut tmp)).await {
                        Err(_) => break,
                        Ok(Ok(0)) | Ok(Err(_)) => {
                            ended = true;
                            break;
                        }
                        Ok(Ok(n)) => {
                            buf.extend_from_slice(&tmp[..n]);
                            if buf.len() >= 12 {
                                if let Ok(s) = std::str::from_utf8(&buf[9..12]) {
                                    status = s.parse().ok();
                                }
                                ended = true;
                                break;
                            }
                        }
                    }
                }
                ender.abort();
            }
            feeder.abort();
            ensure!(status.is_some() || ended, "numbers:no-answer", "{}: neither a response nor the end of the connection / stream within 40 s", what);
            let radix = if c.field == Field::OriginChunkSize { 16 } else { 10 };
            let canonical = !c.number.is_empty() && c.number.bytes().all(|b| b.is_ascii_digit());
            let value = if canonical { u128::from_str_radix(&c.number, radix).ok() } else { None };
            match c.field {
                Field::DownloadSize | Field::DownloadSizeMainHost => {
                    if canonical && !value.is_some_and(|v| v <= 100) {
                        ensure!(status != Some(200), "numbers:oversized-download-accepted", "{}: answered 200", what);
                    }
                }
                Field::UploadLength => {
                    if canonical && !value.is_some_and(|v| v <= 120 * 1024 * 1024) {
                        ensure!(status != Some(200), "numbers:oversized-upload-accepted", "{}: answered 200", what);
                    }
                }
                Field::ConnectPort => {
                    if canonical && !value.is_some_and(|v| v <= 65_535) {
                        let n = scripted.peers.lock().unwrap().len();
                        ensure!(n == 0 && status != Some(200), "numbers:port-out-of-range-connected", "{}: status {:?}, {} outbound connections", what, status, n);
                    }
                }
                _ => {}
            }
            // let the session finish whatever it still does (a panic there is counted by the engine)
            tokio::time::sleep(Duration::from_secs(2)).await;
            if status.is_none() && !ended {
                return viol("numbers:no-answer", what);
            }
            Ok(())
        })
    }
}
