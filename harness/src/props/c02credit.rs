//! C02, "the receive-window credit returned to a sender equals the number of its bytes actually
//! forwarded": HTTP/2 connection-level credit. Bytes forwarded on one tunnel must come back to the
//! window all tunnels of the session share - also those of a stream's last frame.

use crate::engine::world::{CoreSpec, Outcome, Scripted};
use crate::engine::{aio, viol, Suite, Tier, Verdict, Violation};
use crate::ensure;
use crate::props::tunnelreq::b64;
use bytes::Bytes;
use proptest::prelude::*;
use serde::{Deserialize, Serialize};
use std::time::Duration;
use trusttunnel::verif::session::{ChannelView, Proto};

#[derive(Serialize, Deserialize, Debug, Clone)]
pub struct Case {
    /// the endpoint's connection-level receive window
    pub conn_window: u32,
    /// bytes each tunnel sends before its last frame
    pub body: u16,
    /// bytes of the last DATA frame, which also carries END_STREAM (0 = END_STREAM on an empty frame)
    pub last: u16,
    /// the forwarded bytes of all these tunnels together are this many times the window (x10)
    pub times_x10: u8,
}

pub struct CreditSuite;

fn herr(what: &str, e: impl std::fmt::Display) -> Violation {
    Violation { sig: format!("harness:{}", what), msg: e.to_string() }
}

impl Suite for CreditSuite {
    type Case = Case;
    fn name(&self) -> &'static str {
        "h2-connection-window-credit"
    }
    fn rule(&self) -> String {
        "one real HTTP/2 session in memory (virtual clock) whose endpoint advertises a connection window of 65535-300000 bytes; as many CONNECT tunnels as it takes to forward 1.2-4 times that window in total, each uploading 0-20000 bytes and then a last DATA frame of 0-16384 bytes that carries END_STREAM, to scripted destinations that accept everything and stay open (so every tunnel stays half-closed); then one more tunnel uploads a full window's worth; oracle: every destination receives exactly its tunnel's bytes, and the last tunnel's upload arrives completely within 5 virtual seconds - i.e. every forwarded byte, last frames included, was credited back to the shared window; non-trivial = the last frames alone add up to more than the window".into()
    }
    fn strategy(&self, _: Tier) -> BoxedStrategy<Case> {
        (65_535u32..300_000, prop_oneof![Just(0u16), 1u16..20_000], prop_oneof![1 => Just(0u16), 2 => 1u16..2000, 4 => 8000u16..=16_384], 12u8..40)
            .prop_map(|(conn_window, body, last, times_x10)| Case { conn_window, body, last, times_x10 })
            .boxed()
    }
    fn cases(&self, tier: Tier) -> u64 {
        tier.pick(640, 12_800)
    }
    fn classify(&self, c: &Case) -> Vec<&'static str> {
        let per = c.body as u64 + c.last as u64;
        let n = if per == 0 { 0 } else { (c.conn_window as u64 * c.times_x10 as u64 / 10).div_ceil(per) };
        let mut v = vec![];
        if n * c.last as u64 > c.conn_window as u64 {
            v.push("nontrivial");
        }
        v
    }
    fn check(&self, c: &Case) -> Verdict {
        let c = c.clone();
        aio::block_on_paused(async move {
            aio::skew_clock().await;
            let per = c.body as usize + c.last as usize;
            if per == 0 {
                return Ok(());
            }
            let n = ((c.conn_window as usize * c.times_x10 as usize / 10).div_ceil(per)).min(900);
            let spec = CoreSpec { h2_conn_window: Some(c.conn_window), tcp_timeout: Duration::from_secs(600), ..CoreSpec::default() };
            let world = spec.build().map_err(|e| herr("core", e))?;
            let scripted = Scripted::new(|_| Outcome::Silent);
            let _g = scripted.install(&world);
            let (io, _srv) = world.serve(Proto::Http2, ChannelView::Tunnel, "main.x", None, crate::engine::world::peer_v4(), 1 << 20);
            let (send, conn) = h2::client::handshake(io).await.map_err(|e| herr("h2", e))?;
            let conn = tokio::spawn(async move {
                let _ = conn.await;
            });
            let auth = format!("Basic {}", b64("user:pass"));
            let what = format!("HTTP/2 session with a connection window of {} bytes, {} tunnels of {} + {} bytes (END_STREAM on the last frame), destinations stay open", c.conn_window, n, c.body, c.last);
            async fn upload(stream: &mut h2::SendStream<Bytes>, data: &[u8], end: bool) -> Result<(), String> {
                if data.is_empty() {
                    return stream.send_data(Bytes::new(), end).map_err(|e| e.to_string());
                }
                let mut off = 0;
                while off < data.len() {
                    stream.reserve_capacity(data.len() - off);
                    let cap = tokio::time::timeout(Duration::from_secs(5), futures::future::poll_fn(|cx| stream.poll_capacity(cx))).await;
                    let Ok(Some(Ok(cap))) = cap else { return Err(format!("no send window after {} of {} bytes", off, data.len())) };
                    let k = cap.min(data.len() - off);
                    let last_piece = off + k == data.len();
                    stream.send_data(Bytes::copy_from_slice(&data[off..off + k]), end && last_piece).map_err(|e| e.to_string())?;
                    off += k;
                }
                Ok(())
            }
            let mut keep = vec![];
            for k in 0..=n {
                let probe = k == n;
                let req = http::Request::builder().method("CONNECT").uri(format!("d{}.example:443", k)).header("proxy-authorization", auth.as_str()).body(()).unwrap();
                let mut sr = send.clone().ready().await.map_err(|e| herr("h2", e))?;
                let (fut, mut stream) = sr.send_request(req, false).map_err(|e| herr("h2", e))?;
                let resp = tokio::time::timeout(Duration::from_secs(5), fut).await.map_err(|_| herr("h2", "no response"))?.map_err(|e| herr("h2", e))?;
                ensure!(resp.status() == 200, "harness:connect", "CONNECT #{} answered {}", k, resp.status());
                let (body, last): (Vec<u8>, Vec<u8>) = if probe {
                    ((0..c.conn_window as usize).map(|i| (i * 3) as u8).collect(), vec![])
                } else {
                    ((0..c.body as usize).map(|i| (i + k) as u8).collect(), (0..c.last as usize).map(|i| (i * 7 + k) as u8).collect())
                };
                if let Err(e) = upload(&mut stream, &body, false).await {
                    return viol(
                        "credit:connection-window-not-returned",
                        format!("{}: tunnel #{}{} cannot send: {} ({} bytes forwarded on the session so far)", what, k, if probe { " (the one that follows them)" } else { "" }, e, k * per),
                    );
                }
                if !probe {
                    if let Err(e) = upload(&mut stream, &last, true).await {
                        return viol("credit:connection-window-not-returned", format!("{}: tunnel #{} cannot send its last frame: {}", what, k, e));
                    }
                }
                // everything this tunnel sent must be at its destination
                let want: Vec<u8> = body.iter().chain(last.iter()).copied().collect();
                let mut ok = false;
                for _ in 0..1000 {
                    let peer = scripted.peers.lock().unwrap().get(k).map(|(_, h)| h.clone());
                    if let Some(p) = peer {
                        if p.received.lock().unwrap().len() >= want.len() {
                            ensure!(*p.received.lock().unwrap() == want, "tunnel:upload-differs", "{}: destination #{} received other bytes than its tunnel sent", what, k);
                            ok = true;
                            break;
                        }
                    }
                    tokio::time::sleep(Duration::from_millis(5)).await;
                }
                ensure!(ok, "tunnel:upload-stalled", "{}: destination #{} has not received its {} bytes 5 s after they were sent", what, k, want.len());
                keep.push((stream, resp.into_body()));
            }
            conn.abort();
            Ok(())
        })
    }
}
