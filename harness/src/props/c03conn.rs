//! C03, second part: the real `TcpForwarder::connect` behind real in-memory sessions; resolver
//! answers are generated and every outbound connection attempt is observed (net door).

use crate::engine::world::{mem_peer, CoreSpec, PeerHandle};
use crate::engine::{aio, idx, viol, Suite, Tier, Verdict};
use crate::ensure;
use crate::props::tunnelreq::{b64, run_h1, run_h2, AuthHeader, Obs, Req};
use crate::reference::iana::{self, Class};
use proptest::prelude::*;
use serde::{Deserialize, Serialize};
use std::net::{IpAddr, Ipv4Addr, Ipv6Addr, SocketAddr};
use std::sync::{Arc, Mutex};
use std::time::Duration;
use trusttunnel::verif::net::NetPlan;
use trusttunnel::verif::session::{ConnErrView, PipeHalves};

#[derive(Serialize, Deserialize, Debug, Clone)]
pub enum Dest {
    /// `a.b.c.d`
    V4(u32),
    /// bracketed IPv6 literal in one of several spellings
    V6(Ipv6Addr, u8),
    /// a name in an inet_aton form that every resolver turns into this IPv4 address without a query
    NumericName(u32, u8),
    /// a host name whose resolver answer is the generated list
    Name(u8, Vec<IpAddr>),
}

#[derive(Serialize, Deserialize, Debug, Clone)]
pub struct Case {
    pub h2: bool,
    pub allow: bool,
    pub ipv6_available: bool,
    /// absolute-form GET (plain-HTTP forwarding) instead of CONNECT
    pub get: bool,
    /// GET only: leave the port out (port 80 is implied)
    pub no_port: bool,
    pub dest: Dest,
    pub port: u16,
    pub connect_ok: bool,
}

pub fn v6_text(a: Ipv6Addr, style: u8) -> String {
    let s = a.segments();
    match style % 5 {
        0 => a.to_string(),
        1 => format!("{:x}:{:x}:{:x}:{:x}:{:x}:{:x}:{:x}:{:x}", s[0], s[1], s[2], s[3], s[4], s[5], s[6], s[7]),
        2 => a.to_string().to_ascii_uppercase(),
        3 => format!(
            "{:04x}:{:04x}:{:04x}:{:04x}:{:04x}:{:04x}:{:04X}:{:04X}",
            s[0], s[1], s[2], s[3], s[4], s[5], s[6], s[7]
        ),
        _ => {
            // dotted-quad tail, legal for every IPv6 address
            let o = a.octets();
            format!("{:x}:{:x}:{:x}:{:x}:{:x}:{:x}:{}.{}.{}.{}", s[0], s[1], s[2], s[3], s[4], s[5], o[12], o[13], o[14], o[15])
        }
    }
}

pub fn numeric_name(ip: u32, form: u8) -> String {
    let [a, b, c, d] = ip.to_be_bytes();
    match form % 6 {
        0 => format!("{}", ip),
        1 => format!("0x{:08x}", ip),
        2 => format!("{}.{}.{}", a, b, ((c as u32) << 8) | d as u32),
        3 => format!("{}.{}", a, ip & 0x00ff_ffff),
        4 => format!("0{:o}.{}.{}.{}", a, b, c, d),
        _ => format!("0x{:x}.0x{:x}.0x{:x}.0x{:x}", a, b, c, d),
    }
}

const NAMES: [&str; 3] = ["localhost", "LOCALHOST", "LocalHost"];

impl Case {
    pub fn host_text(&self) -> String {
        match &self.dest {
            Dest::V4(x) => Ipv4Addr::from(*x).to_string(),
            Dest::V6(x, style) => format!("[{}]", v6_text(*x, *style)),
            Dest::NumericName(x, form) => numeric_name(*x, *form),
            Dest::Name(n, _) => NAMES[*n as usize % NAMES.len()].to_string(),
        }
    }
    pub fn effective_port(&self) -> u16 {
        if self.get && self.no_port {
            80
        } else {
            self.port
        }
    }
    pub fn request(&self) -> Req {
        let auth = AuthHeader::Raw(format!("Basic {}", b64("user:pass")).into_bytes());
        if self.get {
            let target = if self.no_port {
                format!("http://{}/x", self.host_text())
            } else {
                format!("http://{}:{}/x", self.host_text(), self.port)
            };
            let mut r = Req::connect(&target, auth);
            r.method = "GET".into();
            r.payload = vec![];
            r
        } else {
            Req::connect(&format!("{}:{}", self.host_text(), self.port), auth)
        }
    }
}

#[derive(Default, Debug, Clone, Serialize, Deserialize)]
pub struct NetLog {
    /// (host, port, real answer, answer handed to the selection loop)
    pub resolves: Vec<(String, u16, Vec<SocketAddr>, Vec<SocketAddr>)>,
    pub connects: Vec<SocketAddr>,
}

pub struct Plan {
    answers: Option<Vec<IpAddr>>,
    connect_ok: bool,
    pub log: Mutex<NetLog>,
    peers: Mutex<Vec<PeerHandle>>,
}

impl NetPlan for Plan {
    fn resolve(&self, host: &str, port: u16, real: &[SocketAddr]) -> Option<Vec<SocketAddr>> {
        let o: Option<Vec<SocketAddr>> = self
            .answers
            .as_ref()
            .map(|a| a.iter().map(|ip| SocketAddr::new(*ip, port)).collect());
        self.log.lock().unwrap().resolves.push((
            host.to_string(),
            port,
            real.to_vec(),
            o.clone().unwrap_or_else(|| real.to_vec()),
        ));
        o
    }
    fn connect(&self, peer: SocketAddr) -> Result<PipeHalves, ConnErrView> {
        self.log.lock().unwrap().connects.push(peer);
        if self.connect_ok {
            let (halves, h) = mem_peer(true);
            self.peers.lock().unwrap().push(h);
            Ok(halves)
        } else {
            Err(ConnErrView::Io(std::io::Error::from(std::io::ErrorKind::ConnectionRefused)))
        }
    }
}

pub fn execute(c: &Case) -> (Obs, NetLog) {
    let spec = CoreSpec {
        allow_private: c.allow,
        ipv6_available: c.ipv6_available,
        ..CoreSpec::default()
    };
    let plan = Arc::new(Plan {
        answers: match &c.dest {
            Dest::Name(_, a) => Some(a.clone()),
            _ => None,
        },
        connect_ok: c.connect_ok && !c.get,
        log: Default::default(),
        peers: Default::default(),
    });
    let p2 = plan.clone();
    let obs = aio::block_on_real(async move {
        let world = spec.build().expect("core");
        let _guard = world.core.verif_install_net_plan(p2);
        let req = c.request();
        let wait = Duration::from_secs(8);
        let obs = if c.h2 {
            run_h2(&world, "main.x", None, &[req], wait).await.remove(0)
        } else {
            run_h1(&world, "main.x", None, &req, wait).await
        };
        tokio::time::sleep(Duration::from_millis(2)).await;
        obs
    });
    let log = plan.log.lock().unwrap().clone();
    (obs, log)
}

fn plain_loopback(ip: &IpAddr) -> bool {
    match ip {
        IpAddr::V4(a) => a.octets()[0] == 127,
        IpAddr::V6(a) => *a == Ipv6Addr::LOCALHOST,
    }
}

pub fn judge(c: &Case, obs: &Obs, log: &NetLog) -> Verdict {
    let what = format!(
        "{} {} allow_private={} ipv6_available={} connect_ok={}",
        if c.h2 { "h2" } else { "h1" },
        {
            let r = c.request();
            format!("{} {}", r.method, r.target)
        },
        c.allow,
        c.ipv6_available,
        c.connect_ok
    );
    if let Some(e) = &obs.error {
        if e.starts_with("cannot build request") {
            return Ok(()); // the client library refuses this spelling
        }
    }
    let port = c.effective_port();
    // what the selection saw
    let via_resolver = !log.resolves.is_empty();
    let candidates: Vec<SocketAddr> = if via_resolver {
        ensure!(
            log.resolves.len() == 1,
            "connector:resolved-more-than-once",
            "{}: the resolver ran {} times: {:?}",
            what,
            log.resolves.len(),
            log.resolves
        );
        log.resolves[0].3.clone()
    } else {
        match &c.dest {
            Dest::V4(x) => vec![SocketAddr::new(IpAddr::V4(Ipv4Addr::from(*x)), port)],
            Dest::V6(x, _) => vec![SocketAddr::new(IpAddr::V6(*x), port)],
            // a name must have gone through the resolver before anything is connected
            Dest::NumericName(..) | Dest::Name(..) => vec![],
        }
    };
    // 1. safety: never an attempt to a must-refuse address, never to an address that was not checked
    for a in &log.connects {
        ensure!(
            c.allow || iana::classify(&a.ip()) != Class::MustRefuse,
            "connector:private-address-connected",
            "{}: connection attempt to {} which is loopback/private/link-local/ULA/unspecified/shared/reserved/documentation (resolver: {:?})",
            what,
            a,
            log.resolves
        );
        // (an IPv4-mapped address and its IPv4 form are the same destination)
        let canon = |x: &SocketAddr| SocketAddr::new(x.ip().to_canonical(), x.port());
        ensure!(
            candidates.iter().any(|x| canon(x) == canon(a)),
            "connector:connected-address-is-not-the-checked-one",
            "{}: connection attempt to {} but the destination / resolver answer was {:?}",
            what,
            a,
            candidates
        );
        if via_resolver && !c.ipv6_available {
            ensure!(
                a.is_ipv4(),
                "connector:ipv6-selected-while-unavailable",
                "{}: resolver answer {:?}, connected to {} with ipv6_available=false",
                what,
                candidates,
                a
            );
        }
    }
    ensure!(
        log.connects.len() <= 1,
        "connector:several-attempts",
        "{}: {} connection attempts: {:?}",
        what,
        log.connects.len(),
        log.connects
    );
    // 2. exactness
    let eligible: Vec<&SocketAddr> = candidates
        .iter()
        .filter(|a| !via_resolver || a.is_ipv4() || c.ipv6_available)
        .collect();
    let class = |a: &&SocketAddr| iana::classify(&a.ip());
    let must_connect = if c.allow {
        !eligible.is_empty()
    } else {
        eligible.iter().any(|a| class(a) == Class::MustAllow)
    };
    let must_not_connect = eligible.is_empty() || (!c.allow && eligible.iter().all(|a| class(a) == Class::MustRefuse));
    let status = obs.status;
    if must_connect {
        ensure!(
            log.connects.len() == 1,
            "connector:global-destination-refused",
            "{}: destination / resolver answer {:?} contains a connectable address but no connection attempt was made (status {:?}, headers {:?})",
            what,
            candidates,
            status,
            obs.headers
        );
    }
    if must_not_connect {
        ensure!(
            log.connects.is_empty(),
            "connector:private-address-connected",
            "{}: no admissible address in {:?} but a connection attempt was made to {:?}",
            what,
            candidates,
            log.connects
        );
    }
    // 3. what the client is told
    let Some(status) = status else {
        return viol("connector:no-response", format!("{}: no response ({:?})", what, obs.error));
    };
    if log.connects.is_empty() {
        ensure!(
            status == 502,
            "connector:refusal-not-502",
            "{}: nothing was connected but the status is {} ({:?})",
            what,
            status,
            obs.headers
        );
        let refused: Vec<&&SocketAddr> = eligible.iter().filter(|a| class(a) != Class::MustAllow).collect();
        if !c.allow && !eligible.is_empty() && !refused.is_empty() {
            let w = obs.header("x-warning").unwrap_or("");
            let code = w.split_whitespace().next().unwrap_or("");
            let all_plain_loopback = eligible.iter().all(|a| plain_loopback(&a.ip()));
            let none_loopback = !eligible.iter().any(|a| iana::is_loopback(&a.ip()));
            let want: &[&str] = if eligible.len() == 1 && all_plain_loopback {
                &["311"]
            } else if none_loopback {
                &["310"]
            } else {
                &["310", "311"]
            };
            ensure!(
                want.contains(&code),
                "connector:refusal-warning-code",
                "{}: policy refusal of {:?} reported with X-Warning {:?}, want code {:?}",
                what,
                eligible,
                w,
                want
            );
        }
    } else if c.connect_ok && !c.get {
        ensure!(
            status == 200 && obs.echoed == Some(true),
            "connector:connected-but-not-relaying",
            "{}: connected to {:?} but status {} echoed {:?}",
            what,
            log.connects,
            status,
            obs.echoed
        );
    } else {
        ensure!(
            status == 502,
            "connector:failed-connect-not-502",
            "{}: the connection attempt failed but the status is {}",
            what,
            status
        );
        let w = obs.header("x-warning").unwrap_or("");
        ensure!(
            !w.starts_with("310") && !w.starts_with("311"),
            "connector:attempt-reported-as-policy-refusal",
            "{}: a connection was attempted to {:?} yet the client is told {:?}",
            what,
            log.connects,
            w
        );
    }
    Ok(())
}

pub fn v4_strategy() -> BoxedStrategy<u32> {
    let bounds = iana::v4_boundaries();
    prop_oneof![
        4 => (any::<u16>(), any::<u32>()).prop_map(|(i, r)| {
            let ((n, m), _) = iana::V4_REFUSE[idx(i, iana::V4_REFUSE.len())];
            n | (r & !m)
        }),
        2 => (any::<u16>(), -2i64..=2).prop_map(move |(i, d)| (bounds[idx(i, bounds.len())] as i64 + d).rem_euclid(1 << 32) as u32),
        1 => (any::<u16>(), any::<u32>()).prop_map(|(i, r)| {
            let ((n, m), _) = iana::V4_DONT_CARE[idx(i, iana::V4_DONT_CARE.len())];
            n | (r & !m)
        }),
        4 => any::<u32>(),
    ]
    .boxed()
}

pub fn v6_strategy() -> BoxedStrategy<u128> {
    let pre = |prefix: u128, len: u32| {
        any::<u128>().prop_map(move |r| {
            let mask = u128::MAX << (128 - len);
            (prefix & mask) | (r & !mask)
        })
    };
    prop_oneof![
        1 => Just(0u128),
        2 => Just(1u128),
        2 => pre(0xfe80u128 << 112, 10),
        2 => pre(0xfc00u128 << 112, 7),
        2 => pre((0x2001u128 << 112) | (0x0db8u128 << 96), 32),
        4 => v4_strategy().prop_map(|x| (0xffffu128 << 32) | x as u128),
        // other ways of embedding an IPv4 address: IPv4-compatible ::a.b.c.d, NAT64 64:ff9b::a.b.c.d, 6to4 2002:ab:cd::
        2 => v4_strategy().prop_map(|x| x as u128),
        1 => v4_strategy().prop_map(|x| (0x0064_ff9bu128 << 96) | x as u128),
        1 => (v4_strategy(), any::<u64>()).prop_map(|(x, r)| (0x2002u128 << 112) | ((x as u128) << 80) | r as u128),
        3 => pre((0x2606u128 << 112) | (0x4700u128 << 96), 32),
        2 => pre(0x2a00u128 << 112, 12),
        1 => pre(0x2000u128 << 112, 3),
        1 => any::<u128>(),
    ]
    .boxed()
}

fn ip_strategy() -> BoxedStrategy<IpAddr> {
    prop_oneof![
        3 => v4_strategy().prop_map(|x| IpAddr::V4(Ipv4Addr::from(x))),
        2 => v6_strategy().prop_map(|x| IpAddr::V6(Ipv6Addr::from(x))),
    ]
    .boxed()
}

pub struct ConnectorSuite;

impl Suite for ConnectorSuite {
    type Case = Case;
    fn name(&self) -> &'static str {
        "connector-spellings"
    }
    fn rule(&self) -> String {
        "CONNECT host:port and absolute-form GET (with and without port) on HTTP/1.1 and HTTP/2 sessions served in memory by the real tunnel with the real DirectForwarder / TcpForwarder::connect; destination spelled as IPv4 literal, bracketed IPv6 literal in 5 spellings (canonical, expanded, upper case, zero-padded, dotted-quad tail; incl. ::ffff:a.b.c.d and the IPv4-compatible, NAT64 and 6to4 embeddings of special IPv4 addresses), inet_aton-style numeric names (decimal, 0x hex, 2- and 3-part, octal, hex octets) resolved by the real resolver, or a host name whose resolver answer is a generated list of 0-4 addresses in generated order; addresses drawn from every special-purpose block, block boundaries +-2 and global space; both values of allow_private_network_connections and ipv6_available; the connection attempt itself is intercepted (net door) and succeeds (echo) or is refused. Oracle: no attempt to a must-refuse address, the attempted address is one of the checked ones (literal itself / resolver answer, v4 only when IPv6 is unavailable), at most one attempt, an attempt is made whenever an admissible must-allow address exists, none when none can be admissible, refusals answer 502 with X-Warning 311 (single plain loopback) or 310 (no loopback involved) or either (mixed), an attempted connection is never reported as 310/311; non-trivial = destination or some resolver answer outside must-allow, or a name".into()
    }
    fn strategy(&self, _: Tier) -> BoxedStrategy<Case> {
        let dest = prop_oneof![
            3 => v4_strategy().prop_map(Dest::V4),
            4 => (v6_strategy(), 0u8..5).prop_map(|(x, s)| Dest::V6(Ipv6Addr::from(x), s)),
            3 => (v4_strategy(), 0u8..6).prop_map(|(x, f)| Dest::NumericName(x, f)),
            5 => (0u8..3, prop::collection::vec(ip_strategy(), 0..5)).prop_map(|(n, a)| Dest::Name(n, a)),
        ];
        (
            any::<bool>(),
            prop_oneof![5 => Just(false), 1 => Just(true)],
            prop_oneof![3 => Just(true), 1 => Just(false)],
            prop_oneof![4 => Just(false), 1 => Just(true)],
            any::<bool>(),
            dest,
            prop_oneof![Just(80u16), Just(443u16), 1u16..=65535],
            prop_oneof![2 => Just(true), 1 => Just(false)],
        )
            .prop_map(|(h2, allow, ipv6_available, get, no_port, dest, port, connect_ok)| Case {
                h2,
                allow,
                ipv6_available,
                get,
                no_port,
                dest,
                port,
                connect_ok,
            })
            .boxed()
    }
    fn cases(&self, tier: Tier) -> u64 {
        tier.pick(48_000, 800_000)
    }
    fn classify(&self, c: &Case) -> Vec<&'static str> {
        let mut v = vec![];
        let special = |ip: &IpAddr| iana::classify(ip) != Class::MustAllow;
        let nontrivial = match &c.dest {
            Dest::V4(x) => {
                v.push("ipv4-literal");
                special(&IpAddr::V4(Ipv4Addr::from(*x)))
            }
            Dest::V6(x, _) => {
                let a = *x;
                v.push(if a.to_ipv4_mapped().is_some() { "ipv4-mapped-literal" } else { "ipv6-literal" });
                special(&IpAddr::V6(a))
            }
            Dest::NumericName(..) => {
                v.push("numeric-name");
                true
            }
            Dest::Name(_, a) => {
                v.push("resolved-name");
                if a.len() >= 2 {
                    v.push("multi-address-answer");
                    let s: Vec<bool> = a.iter().map(special).collect();
                    if s.iter().any(|x| *x) && s.iter().any(|x| !*x) {
                        v.push("mixed-private-and-global-answer");
                    }
                }
                true
            }
        };
        if c.get {
            v.push("absolute-form-get");
        }
        if !c.ipv6_available {
            v.push("ipv6-unavailable");
        }
        v.push(if c.allow { "policy-off" } else { "policy-on" });
        if nontrivial && !c.allow {
            v.push("nontrivial");
        }
        v
    }
    fn required_classes(&self) -> Vec<&'static str> {
        vec![
            "nontrivial",
            "ipv4-literal",
            "ipv6-literal",
            "ipv4-mapped-literal",
            "numeric-name",
            "resolved-name",
            "mixed-private-and-global-answer",
            "absolute-form-get",
            "ipv6-unavailable",
            "policy-off",
        ]
    }
    fn check(&self, c: &Case) -> Verdict {
        let (obs, log) = execute(c);
        judge(c, &obs, &log)
    }
}
