//! C13 — configured credentials and settings mean exactly what the files say.

use crate::engine::world::{cert_path, CoreSpec};
use crate::engine::{self, idx, viol, Ctx, Suite, Tier, Verdict};
use crate::ensure;
use crate::props::c04::TempFile;
use base64::Engine;
use proptest::prelude::*;
use serde::{Deserialize, Serialize};
use serde_json::Value;
use trusttunnel::authentication::registry_based::RegistryBasedAuthenticator;
use trusttunnel::authentication::{Authenticator, Source, Status};
use trusttunnel::settings::{Settings, TlsHostsSettings};

// ---------------------------------------------------------------------------------------------
// reference TOML string renderer (TOML 1.0, "String" section)

#[derive(Serialize, Deserialize, Debug, Clone, Copy, PartialEq, Eq)]
pub enum Form {
    Basic,
    BasicUnicodeEscapes,
    Literal,
    MultiBasic,
    MultiLiteral,
}

fn basic_escape(s: &str, all_unicode: bool) -> String {
    let mut out = String::new();
    for c in s.chars() {
        match c {
            '"' => out.push_str("\\\""),
            '\\' => out.push_str("\\\\"),
            '\n' => out.push_str("\\n"),
            '\r' => out.push_str("\\r"),
            '\t' => out.push_str("\\t"),
            '\u{8}' => out.push_str("\\b"),
            '\u{c}' => out.push_str("\\f"),
            c if (c as u32) < 0x20 || c as u32 == 0x7f => out.push_str(&format!("\\u{:04X}", c as u32)),
            c if all_unicode && !c.is_ascii() => {
                if (c as u32) <= 0xffff {
                    out.push_str(&format!("\\u{:04X}", c as u32))
                } else {
                    out.push_str(&format!("\\U{:08X}", c as u32))
                }
            }
            c => out.push(c),
        }
    }
    out
}

/// Render `s` in the requested form, falling back to a basic string when the form cannot
/// express it (literal strings cannot hold ' or control characters, ...).
pub fn render(s: &str, form: Form) -> (String, Form) {
    let has_ctl = s.chars().any(|c| ((c as u32) < 0x20 && c != '\t') || c as u32 == 0x7f);
    match form {
        Form::Literal if !s.contains('\'') && !has_ctl => (format!("'{}'", s), Form::Literal),
        Form::MultiLiteral
            if !s.contains("'''") && !s.ends_with('\'') && !s.chars().any(|c| ((c as u32) < 0x20 && c != '\t' && c != '\n') || c as u32 == 0x7f) && !s.contains('\r') =>
        {
            // a newline right after the opening delimiter is trimmed by the parser
            (format!("'''\n{}'''", s), Form::MultiLiteral)
        }
        Form::MultiBasic => {
            let mut body = String::new();
            for c in s.chars() {
                match c {
                    '"' => body.push_str("\\\""),
                    '\\' => body.push_str("\\\\"),
                    '\n' => body.push('\n'),
                    '\r' => body.push_str("\\r"),
                    c if ((c as u32) < 0x20 && c != '\t') || c as u32 == 0x7f => body.push_str(&format!("\\u{:04X}", c as u32)),
                    c => body.push(c),
                }
            }
            (format!("\"\"\"\n{}\"\"\"", body), Form::MultiBasic)
        }
        Form::BasicUnicodeEscapes => (format!("\"{}\"", basic_escape(s, true)), Form::BasicUnicodeEscapes),
        _ => (format!("\"{}\"", basic_escape(s, false)), Form::Basic),
    }
}

fn secret_strategy() -> BoxedStrategy<String> {
    prop_oneof![
        4 => "[a-zA-Z0-9_.-]{1,16}",
        3 => "[ -~]{1,20}",
        2 => "[\"'\\\\#= \t]{1,4}[a-z]{1,6}[\"'\\\\#= \t]{0,4}",
        2 => " {1,2}[a-z]{1,8} {0,2}",
        1 => "[a-z]{1,5}\"[a-z]{1,5}",
        1 => "[a-z]{1,5}\\\\[a-z\"]{1,5}",
        2 => "\\PC{1,16}",
        1 => "[a-zé€😀ß]{1,8}",
        1 => "[a-z]{1,4}\n[a-z]{1,4}",
        1 => "[a-z]{1,4}\t[a-z]{0,4}",
    ]
    .prop_filter("non-empty", |s| !s.is_empty())
    .boxed()
}

fn form_strategy() -> BoxedStrategy<Form> {
    prop_oneof![
        4 => Just(Form::Basic),
        1 => Just(Form::BasicUnicodeEscapes),
        2 => Just(Form::Literal),
        1 => Just(Form::MultiBasic),
        1 => Just(Form::MultiLiteral),
    ]
    .boxed()
}

#[derive(Serialize, Deserialize, Debug, Clone)]
pub struct ClientSpec {
    pub username: String,
    pub password: String,
    pub uform: Form,
    pub pform: Form,
    /// 0: username first, 1: password first, 2: quoted keys, 3: with comments
    pub layout: u8,
}

#[derive(Serialize, Deserialize, Debug, Clone)]
pub struct CredCase {
    pub clients: Vec<ClientSpec>,
    pub export_index: u16,
    /// the last client carries the first one's user name (one user, a password per device): the
    /// file then defines two pairs with that name, and both are pairs "written in the file"
    #[serde(default)]
    pub same_user: bool,
}

pub fn credentials_doc(clients: &[ClientSpec]) -> String {
    let mut doc = String::from("# credentials\n");
    for c in clients {
        let (u, _) = render(&c.username, c.uform);
        let (p, _) = render(&c.password, c.pform);
        let (ku, kp) = if c.layout == 2 { ("\"username\"", "'password'") } else { ("username", "password") };
        let mut lines = vec![format!("{} = {}", ku, u), format!("{} = {}", kp, p)];
        if c.layout == 1 {
            lines.reverse();
        }
        doc.push_str("\n[[client]]\n");
        if c.layout == 3 {
            doc.push_str("# a user\n");
            doc.push_str(&format!("{}   # trailing comment\n{}\n", lines[0], lines[1]));
        } else {
            doc.push_str(&lines.join("\n"));
            doc.push('\n');
        }
    }
    doc
}

fn settings_doc(credentials_path: Option<&str>, listen: &str, protocols: &str, extra: &str) -> String {
    let mut s = format!("listen_address = \"{}\"\n", listen);
    if let Some(p) = credentials_path {
        s.push_str(&format!("credentials_file = {}\n", render(p, Form::Basic).0));
    }
    s.push_str(extra);
    s.push_str("[listen_protocols]\n");
    s.push_str(protocols);
    s
}

pub struct CredentialsSuite;

impl Suite for CredentialsSuite {
    type Case = CredCase;
    fn name(&self) -> &'static str {
        "credentials-file"
    }
    fn rule(&self) -> String {
        "1-4 clients (in one case in four the last one repeats the first one's user name with a password of its own: both pairs are written in the file and both must be accepted) whose user names and passwords are drawn from all Unicode scalar values (biased to quotes, backslashes, '#', '=', edge whitespace, tabs, newlines, emoji), each written by a reference TOML renderer in a randomly chosen legal form (basic with escapes, \\uXXXX escapes, literal, multi-line basic / literal, quoted keys, comments, either key order) and checked against the independent `toml` parser first; the file is loaded the way the endpoint does (toml::from_str::<Settings> with credentials_file); ground truth is the generated string: get_clients() must equal the pairs, RegistryBasedAuthenticator must pass exactly base64(user:pass) of each pair and reject a trimmed / de-quoted variant, and client_config::build(..).compose_toml() must carry the same pair; non-trivial = a value containing a quote, backslash, escape, or edge whitespace".into()
    }
    fn strategy(&self, _: Tier) -> BoxedStrategy<CredCase> {
        let client = (secret_strategy(), secret_strategy(), form_strategy(), form_strategy(), 0u8..4).prop_map(
            |(username, password, uform, pform, layout)| ClientSpec {
                username,
                password,
                uform,
                pform,
                layout,
            },
        );
        (prop::collection::vec(client, 1..=4), any::<u16>(), prop::bool::weighted(0.25))
            .prop_map(|(mut clients, export_index, same_user)| {
                // distinct user names, except for the one deliberate repetition
                let mut seen = std::collections::BTreeSet::new();
                clients.retain(|c| seen.insert(c.username.clone()));
                let same_user = same_user && clients.len() >= 2;
                if same_user {
                    let (u, f) = (clients[0].username.clone(), clients[0].uform);
                    let last = clients.last_mut().unwrap();
                    last.username = u;
                    last.uform = f;
                }
                CredCase { clients, export_index, same_user }
            })
            .boxed()
    }
    fn cases(&self, tier: Tier) -> u64 {
        tier.pick(40_000, 1_200_000)
    }
    fn classify(&self, c: &CredCase) -> Vec<&'static str> {
        let tricky = |s: &str| {
            s.contains('"') || s.contains('\'') || s.contains('\\') || s.starts_with(char::is_whitespace) || s.ends_with(char::is_whitespace) || s.chars().any(|c| (c as u32) < 0x20)
        };
        let mut v = vec![];
        if c.clients.iter().any(|x| tricky(&x.username) || tricky(&x.password)) {
            v.push("tricky-value");
            v.push("nontrivial");
        }
        if c.same_user {
            v.push("one-user-two-passwords");
        }
        if c.clients.iter().any(|x| x.uform != Form::Basic || x.pform != Form::Basic) {
            v.push("non-basic-form");
            if !v.contains(&"nontrivial") {
                v.push("nontrivial");
            }
        }
        v
    }
    fn check(&self, c: &CredCase) -> Verdict {
        let doc = credentials_doc(&c.clients);
        // harness self-check: the independent parser must read back what the renderer meant
        let parsed: toml::Value = match toml::from_str(&doc) {
            Ok(v) => v,
            Err(e) => return viol("harness:renderer-produced-invalid-toml", format!("{}\n{}", e, doc)),
        };
        let arr = parsed.get("client").and_then(|v| v.as_array()).cloned().unwrap_or_default();
        for (i, cl) in c.clients.iter().enumerate() {
            let u = arr.get(i).and_then(|t| t.get("username")).and_then(|v| v.as_str());
            let p = arr.get(i).and_then(|t| t.get("password")).and_then(|v| v.as_str());
            if u != Some(cl.username.as_str()) || p != Some(cl.password.as_str()) {
                return viol("harness:renderer-disagrees-with-toml-crate", format!("client #{}: {:?} {:?}\n{}", i, u, p, doc));
            }
        }
        let cred_file = TempFile::new("cred", &doc);
        let sdoc = settings_doc(Some(&cred_file.path()), "0.0.0.0:443", "[listen_protocols.http1]\n", "");
        let settings: Result<Settings, _> = engine::no_panic("credentials:panic", || toml::from_str(&sdoc))?;
        let settings = match settings {
            Ok(s) => s,
            Err(e) => {
                return viol(
                    "credentials:valid-file-rejected",
                    format!("a valid credentials file was rejected: {}\n{}", e, doc),
                )
            }
        };
        let got: Vec<(String, String)> = settings
            .get_clients()
            .iter()
            .map(|c| (c.username.clone(), c.password.clone()))
            .collect();
        let want: Vec<(String, String)> = c.clients.iter().map(|c| (c.username.clone(), c.password.clone())).collect();
        ensure!(
            got == want,
            "credentials:value-differs-from-toml-string",
            "the file says {:?}, the endpoint reads {:?}\n{}",
            want,
            got,
            doc
        );
        // the authenticator built from them accepts exactly base64(user:pass)
        let auth = RegistryBasedAuthenticator::new(settings.get_clients());
        let id = trusttunnel::log_utils::IdChain::empty();
        let b64 = |s: String| base64::engine::general_purpose::STANDARD.encode(s.as_bytes());
        for (u, p) in &want {
            let tok = b64(format!("{}:{}", u, p));
            ensure!(
                auth.authenticate(&Source::ProxyBasic(tok.into()), &id) == Status::Pass,
                "credentials:configured-pair-rejected",
                "the authenticator rejects the configured pair {:?}:{:?}",
                u,
                p
            );
            let mangled = (u.replace('"', "").trim().to_string(), p.replace('"', "").trim().to_string());
            if (&mangled.0, &mangled.1) != (u, p) && !want.iter().any(|w| *w == mangled) {
                let tok = b64(format!("{}:{}", mangled.0, mangled.1));
                ensure!(
                    auth.authenticate(&Source::ProxyBasic(tok.into()), &id) == Status::Reject,
                    "credentials:unconfigured-pair-accepted",
                    "the authenticator accepts {:?}:{:?}, which is not configured",
                    mangled.0,
                    mangled.1
                );
            }
        }
        // exported client configuration
        let who = &c.clients[idx(c.export_index, c.clients.len())];
        let hosts = CoreSpec::default().hosts().map_err(|e| engine::Violation { sig: "harness:hosts".into(), msg: e })?;
        let exported = engine::no_panic("export:panic", || {
            trusttunnel::client_config::build(
                &who.username,
                vec!["203.0.113.1:443".parse().unwrap()],
                settings.get_clients(),
                &hosts,
            )
            .compose_toml()
        })?;
        let ev: toml::Value = toml::from_str(&exported).map_err(|e| engine::Violation {
            sig: "export:invalid-toml".into(),
            msg: format!("{}\n{}", e, exported),
        })?;
        ensure!(
            ev.get("username").and_then(|v| v.as_str()) == Some(who.username.as_str())
                && (ev.get("password").and_then(|v| v.as_str()) == Some(who.password.as_str())
                    // a user name written twice: the export carries one of the pairs of that name
                    || (c.same_user && want.iter().any(|(u, p)| *u == who.username && ev.get("password").and_then(|v| v.as_str()) == Some(p.as_str())))),
            "export:credentials-differ",
            "exported client configuration carries {:?}:{:?}, configured {:?}:{:?}",
            ev.get("username"),
            ev.get("password"),
            who.username,
            who.password
        );
        Ok(())
    }
}

// ---------------------------------------------------------------------------------------------
// start-up refusals

#[derive(Serialize, Deserialize, Debug, Clone)]
pub struct RefusalCase {
    pub credentials: bool,
    pub listen: String,
    pub h1: bool,
    pub h2: bool,
    pub quic: bool,
    /// 0 ok, 1 duplicate host name (classes given by `dup`), 3 missing cert file,
    /// 4 key file that is not a key, 5 no main host
    pub hosts_defect: u8,
    /// the two host classes (0 main, 1 ping, 2 speedtest, 3 reverse proxy) sharing a name
    pub dup: (u8, u8),
    /// 0 none, 1 valid, 2 port 0, 3 empty mask, 4 mask without slash
    pub reverse_proxy: u8,
}

pub struct RefusalSuite;

fn expect_refusal(c: &RefusalCase) -> Option<&'static str> {
    let loopback = c.listen.starts_with("127.") || c.listen.starts_with("[::1]");
    if !c.h1 && !c.h2 && !c.quic {
        return Some("no listen protocol");
    }
    if !c.credentials && !loopback {
        return Some("no credentials on a non-loopback address");
    }
    if c.reverse_proxy >= 2 {
        return Some("invalid reverse proxy section");
    }
    match c.hosts_defect {
        0 => None,
        1 => Some("duplicate TLS host"),
        3 | 4 | 6 | 7 | 8 | 9 => Some("unloadable TLS host"),
        _ => Some("no main host"),
    }
}

impl Suite for RefusalSuite {
    type Case = RefusalCase;
    fn name(&self) -> &'static str {
        "startup-refusals"
    }
    fn rule(&self) -> String {
        "cross product of {credentials present / absent} x {loopback / non-loopback / wildcard listen address, IPv4 and IPv6} x every subset of listen protocols x TLS hosts {valid, a host name duplicated inside or across any pair of the four host classes, missing certificate file, key file that is not a key, certificate chain file without a single certificate, certificate chain damaged at the PEM level (a block cut off, characters outside base64, a mangled BEGIN line - each behind a good certificate), no main host} x reverse proxy {absent, valid, port 0, empty mask, mask without slash}, loaded from TOML exactly as the endpoint does and handed to Core::new; the start must be refused iff the reference predicate says so (the statement's list); non-trivial = exactly one refusal reason present".into()
    }
    fn strategy(&self, _: Tier) -> BoxedStrategy<RefusalCase> {
        (
            any::<bool>(),
            prop::sample::select(vec!["127.0.0.1:8443", "0.0.0.0:443", "192.0.2.2:443", "[::1]:8443", "[::]:443", "127.8.8.8:1", "[2001:db8::1]:443"]),
            any::<[bool; 3]>(),
            prop_oneof![5 => Just(0u8), 4 => Just(1u8), 1 => Just(3u8), 1 => Just(4u8), 1 => Just(5u8), 1 => Just(6u8), 1 => Just(7u8), 1 => Just(8u8), 1 => Just(9u8)],
            prop_oneof![4 => Just(0u8), 2 => Just(1u8), 1 => Just(2u8), 1 => Just(3u8), 1 => Just(4u8)],
            (0u8..4, 0u8..4),
        )
            .prop_map(|(credentials, listen, p, hosts_defect, reverse_proxy, dup)| RefusalCase {
                credentials,
                listen: listen.to_string(),
                h1: p[0],
                h2: p[1],
                quic: p[2],
                hosts_defect,
                reverse_proxy,
                dup,
            })
            .boxed()
    }
    fn cases(&self, tier: Tier) -> u64 {
        tier.pick(6000, 60_000)
    }
    fn classify(&self, c: &RefusalCase) -> Vec<&'static str> {
        let loopback = c.listen.starts_with("127.") || c.listen.starts_with("[::1]");
        let reasons = [
            !c.h1 && !c.h2 && !c.quic,
            !c.credentials && !loopback,
            c.reverse_proxy >= 2,
            c.hosts_defect != 0,
        ]
        .iter()
        .filter(|x| **x)
        .count();
        match reasons {
            0 => vec!["must-start"],
            1 => vec!["single-refusal-reason", "nontrivial"],
            _ => vec!["several-refusal-reasons"],
        }
    }
    fn required_classes(&self) -> Vec<&'static str> {
        vec!["nontrivial", "must-start"]
    }
    fn check(&self, c: &RefusalCase) -> Verdict {
        let cred_doc = "[[client]]\nusername = \"u\"\npassword = \"p\"\n";
        let cred_file = TempFile::new("cred", cred_doc);
        let garbage = TempFile::new("garbage", "not a key\n");
        let mut protocols = String::new();
        if c.h1 {
            protocols.push_str("[listen_protocols.http1]\n");
        }
        if c.h2 {
            protocols.push_str("[listen_protocols.http2]\n");
        }
        if c.quic {
            protocols.push_str("[listen_protocols.quic]\n");
        }
        let rp = match c.reverse_proxy {
            0 => String::new(),
            1 => "[reverse_proxy]\nserver_address = \"127.0.0.1:8080\"\npath_mask = \"/api\"\n".to_string(),
            2 => "[reverse_proxy]\nserver_address = \"127.0.0.1:0\"\npath_mask = \"/api\"\n".to_string(),
            3 => "[reverse_proxy]\nserver_address = \"127.0.0.1:8080\"\npath_mask = \"\"\n".to_string(),
            _ => "[reverse_proxy]\nserver_address = \"127.0.0.1:8080\"\npath_mask = \"api\"\n".to_string(),
        };
        // top-level keys first, then tables
        let mut sdoc = format!("listen_address = \"{}\"\n", c.listen);
        if c.credentials {
            sdoc.push_str(&format!("credentials_file = \"{}\"\n", cred_file.path()));
        }
        sdoc.push_str("[listen_protocols]\n");
        sdoc.push_str(&protocols);
        sdoc.push_str(&rp);
        let host = |table: &str, name: &str, cert: &str, key: &str| {
            format!("[[{}]]\nhostname = \"{}\"\ncert_chain_path = \"{}\"\nprivate_key_path = \"{}\"\n\n", table, name, cert, key)
        };
        let good = cert_path(0);
        let damaged_chain;
        const TABLES: [&str; 4] = ["main_hosts", "ping_hosts", "speedtest_hosts", "reverse_proxy_hosts"];
        let all_classes = host("main_hosts", "a.x", &good, &good)
            + &host("ping_hosts", "ping.x", &good, &good)
            + &host("speedtest_hosts", "speed.x", &good, &good)
            + &host("reverse_proxy_hosts", "rp.x", &good, &good);
        let hdoc = match c.hosts_defect {
            0 => all_classes,
            1 => {
                // one more entry in each of the two classes, both called dup.x
                all_classes
                    + &host(TABLES[c.dup.0 as usize % 4], "dup.x", &good, &good)
                    + &host(TABLES[c.dup.1 as usize % 4], "dup.x", &good, &good)
            }
            3 => host("main_hosts", "a.x", "/nonexistent/cert.pem", &good),
            4 => host("main_hosts", "a.x", &good, &garbage.path()),
            // a certificate chain file without a single certificate in it
            9 => host("main_hosts", "a.x", &garbage.path(), &good),
            // a certificate chain that is damaged at the PEM level: the good certificate followed by
            // a block that is cut off, a block with characters outside base64, a mangled BEGIN line
            6 | 7 | 8 => {
                let pem = std::fs::read_to_string(&good).unwrap_or_default();
                let first_cert: String = {
                    let end = pem.find("-----END CERTIFICATE-----").map(|i| i + "-----END CERTIFICATE-----".len()).unwrap_or(pem.len());
                    pem[..end].to_string() + "\n"
                };
                let body_start = first_cert.find('\n').map(|i| i + 1).unwrap_or(0);
                let damaged = match c.hosts_defect {
                    6 => format!("{}{}", first_cert, &first_cert[..first_cert.len() * 2 / 3]),
                    7 => {
                        let mut second = first_cert.clone();
                        second.insert_str(body_start + 20, "!!!! not base64 !!!!");
                        format!("{}{}", first_cert, second)
                    }
                    _ => format!("{}{}", first_cert, first_cert.replacen("-----BEGIN CERTIFICATE-----", "-----BEGIN CERTIFICATE----", 1)),
                };
                damaged_chain = Some(TempFile::new("chain", &damaged));
                host("main_hosts", "a.x", &damaged_chain.as_ref().unwrap().path(), &good)
            }
            _ => "main_hosts = []\n".to_string() + &host("ping_hosts", "ping.x", &good, &good),
        };
        let started = engine::no_panic("startup:panic", || -> Result<(), String> {
            let settings: Settings = toml::from_str(&sdoc).map_err(|e| format!("settings: {}", e))?;
            let hosts: TlsHostsSettings = toml::from_str(&hdoc).map_err(|e| format!("hosts: {}", e))?;
            let auth: Option<std::sync::Arc<dyn Authenticator>> = if settings.get_clients().is_empty() {
                None
            } else {
                Some(std::sync::Arc::new(RegistryBasedAuthenticator::new(settings.get_clients())))
            };
            trusttunnel::core::Core::new(settings, auth, hosts, trusttunnel::shutdown::Shutdown::new())
                .map(|_| ())
                .map_err(|e| format!("core: {:?}", e))
        })?;
        match (expect_refusal(c), started) {
            (None, Ok(())) | (Some(_), Err(_)) => Ok(()),
            (None, Err(e)) => viol("startup:valid-configuration-refused", format!("{:?}: refused: {}", c, e)),
            (Some(why), Ok(())) => viol(
                "startup:invalid-configuration-accepted",
                format!("{:?}: the endpoint starts although: {}", c, why),
            ),
        }
    }
}

pub fn run(ctx: &mut Ctx) {
    super::replay_corpus(ctx, replay);
    ctx.run_suite(&CredentialsSuite);
    ctx.run_suite(&RefusalSuite);
    ctx.run_suite(&super::c13bin::ExportSuite);
    ctx.run_suite(&super::c13bin::StartSuite);
    ctx.run_suite(&super::c13bin::WizardSuite);
    ctx.assume("TOML renderer of the harness follows TOML 1.0 and is cross-checked against the `toml` crate on every case; empty user names / passwords are not generated (the endpoint documents them as rejected)");
}

pub fn replay(ctx: &mut Ctx, suite: &str, case: &Value) -> bool {
    match suite {
        "credentials-file" => ctx.replay_suite(&CredentialsSuite, case),
        "startup-refusals" => ctx.replay_suite(&RefusalSuite, case),
        "binary-client-config" => ctx.replay_suite(&super::c13bin::ExportSuite, case),
        "binary-startup" => ctx.replay_suite(&super::c13bin::StartSuite, case),
        "wizard-roundtrip" => ctx.replay_suite(&super::c13bin::WizardSuite, case),
        _ => false,
    }
}
