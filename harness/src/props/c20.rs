//! C20 — secrets never reach the log, at any level.

use crate::engine::world::{read_h1_response, read_to_end, AuthKind, CoreSpec, Outcome, Scripted, World};
use crate::engine::{self, aio, logcap, viol, Ctx, Suite, Tier, Verdict};
use crate::props::tunnelreq::{b64, run_h1, run_h2, AuthHeader, Req};
use base64::Engine;
use proptest::prelude::*;
use serde::{Deserialize, Serialize};
use serde_json::Value;
use std::time::Duration;
use tokio::io::{AsyncReadExt, AsyncWriteExt};
use trusttunnel::verif::session::{ChannelView, Proto};

#[derive(Serialize, Deserialize, Debug, Clone, PartialEq, Eq)]
pub enum Scenario {
    /// request on the tunnel channel
    Tunnel,
    Ping,
    Speedtest,
    ReverseProxy,
    /// TLS demultiplexer decision for an SNI carrying a credentials label
    SniSelect,
    /// endpoint start-up with configured passwords
    Startup,
    /// a tunnel request forwarded through a SOCKS5 upstream (real forwarder, mock server on
    /// loopback) that refuses the method, rejects the credentials, fails the request or talks
    /// nonsense: the credentials the forwarder derives from the client's are in play
    SocksUpstream,
    /// a request head the HTTP/1.1 parser refuses (or never completes), carrying the secrets, with
    /// CRLF, bare LF or mixed line ends, on one of the HTTP/1.1 channels (all chosen from `nonce`)
    RawHead,
}

#[derive(Serialize, Deserialize, Debug, Clone)]
pub struct Case {
    pub scenario: Scenario,
    pub h2: bool,
    pub method: String,
    pub target: String,
    /// how the Proxy-Authorization header is written: valid / wrong / bearer / malformed / absent /
    /// non-basic-scheme / duplicate
    pub auth_form: String,
    pub with_authorization: bool,
    pub with_cookie: bool,
    pub outcome: Outcome,
    /// connection carries SNI credentials (accepted by the authenticator or not)
    pub sni_creds: Option<bool>,
    pub nonce: u32,
}

struct Canaries {
    user: String,
    pass: String,
    token: String,
    authorization: String,
    cookie: String,
    sni_label: String,
    configured_pass: String,
}

fn canaries(nonce: u32) -> Canaries {
    let user = format!("usr{:08x}", nonce);
    let pass = format!("PwCanary{:08x}Zq", nonce ^ 0x5a5a_5a5a);
    Canaries {
        token: b64(&format!("{}:{}", user, pass)),
        authorization: format!("AuthzCanary{:08x}Kw", nonce.rotate_left(7)),
        cookie: format!("CookieCanary{:08x}Xv", nonce.rotate_left(13)),
        sni_label: format!("snicanary{:08x}", nonce.rotate_left(19)),
        configured_pass: format!("CfgPwCanary{:08x}Jm", nonce.rotate_left(23)),
        user,
        pass,
    }
}

impl Canaries {
    /// every string that must not show up in a log record
    fn needles(&self) -> Vec<(String, &'static str)> {
        let enc = |s: &str| base64::engine::general_purpose::STANDARD.encode(s.as_bytes());
        vec![
            (self.token.clone(), "proxy-authorization token"),
            (format!("{}:{}", self.user, self.pass), "proxy-authorization value, base64-decoded"),
            (self.pass.clone(), "password"),
            (self.authorization.clone(), "authorization header value"),
            (enc(&self.authorization), "authorization header value, base64"),
            (self.cookie.clone(), "cookie header value"),
            (enc(&self.cookie), "cookie header value, base64"),
            (self.sni_label.clone(), "SNI credentials label"),
            (self.configured_pass.clone(), "configured password"),
            (enc(&self.configured_pass), "configured password, base64"),
            (enc(&format!("user:{}", self.configured_pass)), "proxy-authorization token of the configured credentials"),
        ]
    }

    /// A secret inside any base64 run of the line (whatever it was concatenated with before encoding)
    fn decoded_leak(&self, line: &str) -> Option<&'static str> {
        use base64::Engine;
        let raw: [(&str, &'static str); 5] = [
            (&self.pass, "password, base64-decoded"),
            (&self.configured_pass, "configured password, base64-decoded"),
            (&self.authorization, "authorization header value, base64-decoded"),
            (&self.cookie, "cookie header value, base64-decoded"),
            (&self.sni_label, "SNI credentials label, base64-decoded"),
        ];
        let bytes = line.as_bytes();
        let is_b64 = |b: u8| b.is_ascii_alphanumeric() || b == b'+' || b == b'/' || b == b'-' || b == b'_';
        let mut i = 0;
        while i < bytes.len() {
            if !is_b64(bytes[i]) {
                i += 1;
                continue;
            }
            let start = i;
            while i < bytes.len() && is_b64(bytes[i]) {
                i += 1;
            }
            let run = &line[start..i];
            if run.len() < 16 {
                continue;
            }
            // the secret may start at any offset of the encoded text: try the four alignments
            for skip in 0..4.min(run.len()) {
                let part = &run[skip..];
                let part = &part[..part.len() - part.len() % 4];
                for engine in [&base64::engine::general_purpose::STANDARD_NO_PAD, &base64::engine::general_purpose::URL_SAFE_NO_PAD] {
                    if let Ok(d) = engine.decode(part) {
                        let text = String::from_utf8_lossy(&d);
                        for (secret, what) in &raw {
                            if text.contains(*secret) {
                                return Some(what);
                            }
                        }
                    }
                }
            }
        }
        None
    }
}

fn build_request(c: &Case, k: &Canaries) -> Req {
    let auth = match c.auth_form.as_str() {
        "valid" => vec![AuthHeader::Raw(format!("Basic {}", b64(&format!("user:{}", k.configured_pass))).into_bytes())],
        "wrong" => vec![AuthHeader::Raw(format!("Basic {}", k.token).into_bytes())],
        "bearer" => vec![AuthHeader::Raw(format!("Bearer {}", k.token).into_bytes())],
        "lowercase-scheme" => vec![AuthHeader::Raw(format!("basic {}", k.token).into_bytes())],
        "no-scheme" => vec![AuthHeader::Raw(k.token.clone().into_bytes())],
        "malformed" => vec![AuthHeader::Raw(format!("Basic {}!!", k.token).into_bytes())],
        "duplicate" => vec![
            AuthHeader::Raw(format!("Basic {}", k.token).into_bytes()),
            AuthHeader::Raw(format!("Basic {}", b64(&format!("user:{}", k.configured_pass))).into_bytes()),
        ],
        _ => vec![AuthHeader::Absent],
    };
    let mut extra = vec![];
    if c.with_authorization {
        extra.push(("Authorization".to_string(), format!("Bearer {}", k.authorization).into_bytes()));
        if c.nonce % 2 == 0 {
            // a repeated field: every value is a secret, not only the first
            extra.push(("Authorization".to_string(), format!("Basic {}", b64(&k.authorization)).into_bytes()));
        }
    }
    if c.with_cookie {
        extra.push(("Cookie".to_string(), format!("sid={}", k.cookie).into_bytes()));
        if c.nonce % 2 == 0 {
            extra.push(("Cookie".to_string(), format!("theme=dark; token={}", b64(&k.cookie)).into_bytes()));
        }
    }
    Req {
        method: c.method.clone(),
        target: c.target.clone(),
        host: None,
        auth,
        extra_headers: extra,
        payload: if c.method == "CONNECT" { b"ping".to_vec() } else { vec![] },
        early_payload: false,
            early_delay_ms: 0,
    }
}

/// A head the parser refuses, with the secrets in it
async fn raw_head(world: &World, c: &Case, k: &Canaries) {
    let n = c.nonce;
    let eol = ["\r\n", "\n", "\n", "\r\n"][(n % 4) as usize];
    // mixed: the request line ends properly, the header lines do not (or the other way round)
    let (eol_first, eol_rest) = match (n >> 2) % 3 {
        0 => (eol, eol),
        1 => ("\r\n", "\n"),
        _ => ("\n", "\r\n"),
    };
    let (channel, sni) = match (n >> 4) % 4 {
        0 => (ChannelView::Tunnel, "main.x"),
        1 => (ChannelView::Ping, "ping.x"),
        2 => (ChannelView::Speedtest, "speed.x"),
        _ => (ChannelView::ReverseProxy, "rp.x"),
    };
    let request_line = match (n >> 6) % 4 {
        0 => "CONNECT dest.test:443 HTTP/1.1",
        1 => "GET http://plain.test/index.html HTTP/1.1",
        2 => "GET /1mb.bin HTTP/1.1",
        _ => "CONNECT dest.test:443 HTTP/1.7",
    };
    let secrets = vec![
        format!("Proxy-Authorization: Basic {}", k.token),
        format!("Authorization: Bearer {}", k.authorization),
        format!("Cookie: sid={}", k.cookie),
    ];
    let mut lines: Vec<String> = vec![format!("Host: {}", sni)];
    let defect = (n >> 8) % 6;
    match defect {
        // the offending line after / before / between the secrets
        0 => {
            lines.extend(secrets.clone());
            lines.push("Bad Header: 1".into());
        }
        1 => {
            lines.push("Bad Header: 1".into());
            lines.extend(secrets.clone());
        }
        2 => {
            lines.push(secrets[0].clone());
            lines.push("X-Ctl: a\u{1}b".into());
            lines.extend(secrets[1..].iter().cloned());
        }
        // more header fields than the codec takes
        3 => {
            lines.extend(secrets.clone());
            for i in 0..40 {
                lines.push(format!("X-Pad-{}: {}", i, i));
            }
        }
        // a head beyond the size limit
        4 => {
            lines.extend(secrets.clone());
            lines.push(format!("X-Long: {}", "z".repeat(1500)));
        }
        // no end of head at all: the client stops in the middle
        _ => lines.extend(secrets.clone()),
    }
    let mut wire = format!("{}{}", request_line, eol_first);
    for l in &lines {
        wire.push_str(l);
        wire.push_str(eol_rest);
    }
    if defect != 5 {
        wire.push_str(eol_rest);
    }
    let (mut io, _srv) = world.serve(Proto::Http1, channel, sni, None, crate::engine::world::peer_v4(), 64 * 1024);
    let _ = io.write_all(wire.as_bytes()).await;
    if defect == 5 {
        tokio::time::sleep(Duration::from_millis(100)).await;
        let _ = io.shutdown().await;
    }
    let mut buf = vec![0u8; 4096];
    let deadline = tokio::time::Instant::now() + Duration::from_secs(3);
    loop {
        match tokio::time::timeout_at(deadline, io.read(&mut buf)).await {
            Ok(Ok(n)) if n > 0 => {}
            _ => break,
        }
    }
}

async fn service_request(world: &World, c: &Case, k: &Canaries, channel: ChannelView, sni: &str) {
    let proto = if c.h2 && channel != ChannelView::ReverseProxy { Proto::Http2 } else { Proto::Http1 };
    let (mut io, _srv) = world.serve(proto, channel, sni, None, crate::engine::world::peer_v4(), 64 * 1024);
    let req = build_request(c, k);
    if proto == Proto::Http1 {
        let mut r = req.clone();
        r.host = Some(sni.to_string());
        if channel == ChannelView::ReverseProxy {
            r.extra_headers.push(("Upgrade".into(), b"test".to_vec()));
        }
        let _ = io.write_all(&r.h1_bytes()).await;
        let _ = read_h1_response(&mut io, Duration::from_secs(3)).await;
        let _ = io.shutdown().await;
        let _ = read_to_end(&mut io, Duration::from_secs(1)).await;
    } else if let Ok((send, conn)) = h2::client::handshake(io).await {
        let t = tokio::spawn(async move {
            let _ = conn.await;
        });
        let mut r = req.clone();
        if !r.target.starts_with("http") && r.method != "CONNECT" {
            r.target = format!("https://{}{}", sni, r.target);
        }
        if let (Ok(request), Ok(mut sr)) = (r.h2_request(), send.ready().await) {
            if let Ok((fut, _s)) = sr.send_request(request, true) {
                if let Ok(Ok(resp)) = tokio::time::timeout(Duration::from_secs(3), fut).await {
                    let mut body = resp.into_body();
                    let mut n = 0;
                    while let Ok(Some(Ok(b))) = tokio::time::timeout(Duration::from_secs(1), body.data()).await {
                        let _ = body.flow_control().release_capacity(b.len());
                        n += b.len();
                        if n > (1 << 21) {
                            break;
                        }
                    }
                }
            }
        }
        t.abort();
    }
}

fn run_scenario(c: &Case) -> Vec<String> {
    let k = canaries(c.nonce);
    let spec = CoreSpec {
        clients: vec![("user".into(), k.configured_pass.clone())],
        auth: AuthKind::WithSni(Some(k.sni_label.clone())),
        speedtest: true,
        ping_hosts: vec![("ping.x".into(), 1)],
        speed_hosts: vec![("speed.x".into(), 2)],
        rp_hosts: vec![("rp.x".into(), 3)],
        // nothing listens there: the reverse proxy request fails after it has been logged
        reverse_proxy: Some(("127.0.0.1:9".parse().unwrap(), "/api".into())),
        establishment_timeout: Duration::from_secs(2),
        ..CoreSpec::default()
    };
    let c = c.clone();
    logcap::start();
    let r = std::panic::catch_unwind(std::panic::AssertUnwindSafe(|| match c.scenario {
        Scenario::Startup => {
            let _ = spec.build();
            let settings = spec.settings();
            if let Ok(s) = settings {
                log::trace!("settings loaded for {}", s.get_listen_address());
            }
        }
        Scenario::SniSelect => {
            let world = spec.build().expect("core");
            for sni in [format!("{}.main.x", k.sni_label), format!("{}.ping.x", k.sni_label), format!("{}.other.y", k.sni_label)] {
                match world.core.verif_select(&[b"h2".to_vec()], &sni) {
                    // the connection handler logs the meta with {:?} at debug level
                    Ok(m) => log::debug!("Connection meta: {}", m.debug),
                    Err(e) => log::debug!("Dropping connection due to error: {}", trusttunnel_scrub(&e, &k)),
                }
            }
        }
        Scenario::SocksUpstream => aio::block_on_real(async {
            let Ok(listener) = tokio::net::TcpListener::bind("127.0.0.1:0").await else { return };
            let proxy_addr = listener.local_addr().unwrap();
            let behaviour = c.nonce % 6;
            let reply_code = 1 + ((c.nonce >> 8) % 8) as u8;
            let server = tokio::spawn(async move {
                let Ok((mut s, _)) = listener.accept().await else { return };
                let mut buf = vec![0u8; 600];
                // greeting
                let _ = tokio::time::timeout(Duration::from_secs(2), s.read(&mut buf)).await;
                match behaviour {
                    0 => {
                        let _ = s.write_all(&[5, 0xff]).await;
                    }
                    1 | 2 | 3 => {
                        let _ = s.write_all(&[5, if behaviour == 3 { 0x80 } else { 2 }]).await;
                        let _ = tokio::time::timeout(Duration::from_secs(2), s.read(&mut buf)).await;
                        if behaviour == 1 {
                            let _ = s.write_all(&[1, 1]).await;
                        } else {
                            let _ = s.write_all(&[1, 0]).await;
                            let _ = tokio::time::timeout(Duration::from_secs(2), s.read(&mut buf)).await;
                            let _ = s.write_all(&[5, reply_code, 0, 1, 0, 0, 0, 0, 0, 0]).await;
                        }
                    }
                    4 => {
                        let _ = s.write_all(b"HTTP/1.1 400 Bad Request\r\n\r\n").await;
                    }
                    _ => {}
                }
                tokio::time::sleep(Duration::from_millis(50)).await;
            });
            // one case in four: no authenticator at all, the client's token goes to the forwarder unchecked
            let no_authenticator = (c.nonce >> 12) % 4 == 0;
            let spec = CoreSpec {
                socks5: Some((proxy_addr, (c.nonce >> 4) % 2 == 1)),
                auth: if no_authenticator { AuthKind::None } else { spec.auth.clone() },
                clients: if no_authenticator { vec![] } else { spec.clients.clone() },
                ..spec.clone()
            };
            let Ok(world) = spec.build() else { return };
            let mut req = build_request(&c, &k);
            req.method = "CONNECT".into();
            req.target = "dest.test:443".into();
            // either the SNI label or the configured pair is what the forwarder turns into SOCKS credentials
            let (sni, creds) = if c.sni_creds.is_some() { (format!("{}.main.x", k.sni_label), Some(k.sni_label.clone())) } else { ("main.x".to_string(), None) };
            if creds.is_none() {
                req.auth = vec![AuthHeader::Raw(format!("Basic {}", b64(&format!("user:{}", k.configured_pass))).into_bytes())];
            }
            if no_authenticator && (c.nonce >> 14) % 2 == 0 {
                // a token that decodes to something without a colon: no user / password halves
                req.auth = vec![AuthHeader::Raw(format!("Basic {}", b64(&k.pass)).into_bytes())];
            }
            let wait = Duration::from_secs(3);
            if c.h2 {
                let _ = run_h2(&world, &sni, creds, &[req], wait).await;
            } else {
                let _ = run_h1(&world, &sni, creds, &req, wait).await;
            }
            let _ = tokio::time::timeout(Duration::from_secs(1), server).await;
        }),
        _ => aio::block_on_real(async {
            let world = spec.build().expect("core");
            let outcome = c.outcome.clone();
            let scripted = Scripted::new(move |_| outcome.clone());
            let _g = scripted.install(&world);
            match c.scenario {
                Scenario::Tunnel => {
                    let req = build_request(&c, &k);
                    let (sni, creds) = match c.sni_creds {
                        Some(true) => (format!("{}.main.x", k.sni_label), Some(k.sni_label.clone())),
                        Some(false) => (format!("x{}.main.x", k.sni_label), Some(format!("x{}", k.sni_label))),
                        None => ("main.x".to_string(), None),
                    };
                    let wait = Duration::from_secs(4);
                    if c.h2 {
                        let _ = run_h2(&world, &sni, creds, &[req], wait).await;
                    } else {
                        let _ = run_h1(&world, &sni, creds, &req, wait).await;
                    }
                }
                Scenario::Ping => service_request(&world, &c, &k, ChannelView::Ping, "ping.x").await,
                Scenario::Speedtest => service_request(&world, &c, &k, ChannelView::Speedtest, "speed.x").await,
                Scenario::ReverseProxy => service_request(&world, &c, &k, ChannelView::ReverseProxy, "rp.x").await,
                Scenario::RawHead => raw_head(&world, &c, &k).await,
                _ => {}
            }
            tokio::time::sleep(Duration::from_millis(20)).await;
        }),
    }));
    let logs = logcap::stop();
    if r.is_err() {
        let mut l = logs;
        l.push("PANIC in scenario".into());
        return l;
    }
    logs
}

/// error texts of select() are logged as they are; nothing to scrub on the harness side
fn trusttunnel_scrub(e: &str, _k: &Canaries) -> String {
    e.to_string()
}

pub struct LeakSuite;

impl Suite for LeakSuite {
    type Case = Case;
    fn name(&self) -> &'static str {
        "log-canaries"
    }
    fn rule(&self) -> String {
        "scenarios of the other properties re-run under a capturing log::Log at Trace with a unique canary in every secret-bearing field: tunnel requests forwarded through the real SOCKS5 forwarder to a mock upstream that refuses the method, rejects the credentials (which the forwarder derives from the SNI label or the Basic pair), fails the request with reply codes 1-8 or answers nonsense; request heads the HTTP/1.1 parser refuses or never completes (invalid header name before / after / between the secrets, control byte, unsupported version, 40+ fields, 1.5 KB field, client stops mid-head) with CRLF, bare LF or mixed line ends on the tunnel, ping, speedtest and reverse-proxy channels; tunnel requests over HTTP/1.1 and HTTP/2 (CONNECT to hosts / literals / reserved names / look-alikes / without port, absolute-URI GET and POST) with Proxy-Authorization written as valid, wrong, Bearer, lower-case scheme, bare token, malformed, duplicate or absent, optional Authorization and Cookie headers, every scripted connect outcome, connections with accepted / rejected SNI credentials; ping, speedtest and reverse-proxy requests carrying the same headers; the TLS demultiplexer's connection meta for <credentials>.<host> SNIs; start-up with configured passwords; oracle: no captured record contains a canary verbatim, base64-encoded or (for Proxy-Authorization) base64-decoded; non-trivial = scenario that took an error path or a non-tunnel channel".into()
    }
    fn strategy(&self, _: Tier) -> BoxedStrategy<Case> {
        let target = prop_oneof![
            4 => Just(("CONNECT", "dest.test:443")),
            1 => Just(("CONNECT", "93.184.216.34:80")),
            1 => Just(("CONNECT", "_check")),
            1 => Just(("CONNECT", "_udp2")),
            1 => Just(("CONNECT", "_icmp")),
            1 => Just(("CONNECT", "noport.test")),
            1 => Just(("GET", "http://_check/")),
            2 => Just(("GET", "http://plain.test/index.html")),
            1 => Just(("POST", "http://plain.test:8080/submit")),
            1 => Just(("GET", "/relative/path")),
            1 => Just(("GET", "/1mb.bin")),
            1 => Just(("GET", "/api/x")),
        ];
        (
            prop_oneof![
                8 => Just(Scenario::Tunnel),
                2 => Just(Scenario::Ping),
                2 => Just(Scenario::Speedtest),
                2 => Just(Scenario::ReverseProxy),
                1 => Just(Scenario::SniSelect),
                1 => Just(Scenario::Startup),
                3 => Just(Scenario::RawHead),
                3 => Just(Scenario::SocksUpstream),
            ],
            any::<bool>(),
            target,
            prop::sample::select(vec!["valid", "wrong", "bearer", "lowercase-scheme", "no-scheme", "malformed", "duplicate", "absent"]),
            any::<bool>(),
            any::<bool>(),
            prop::sample::select(vec![
                Outcome::Echo,
                Outcome::Refused,
                Outcome::HostUnreachable,
                Outcome::Timeout,
                Outcome::DnsLoopback,
                Outcome::DnsNonroutable,
                Outcome::ResolveFail,
                Outcome::Other,
            ]),
            prop_oneof![4 => Just(None), 1 => Just(Some(true)), 1 => Just(Some(false))],
            any::<u32>(),
        )
            .prop_map(|(scenario, h2, (method, target), auth_form, with_authorization, with_cookie, outcome, sni_creds, nonce)| Case {
                scenario,
                h2,
                method: method.to_string(),
                target: target.to_string(),
                auth_form: auth_form.to_string(),
                with_authorization,
                with_cookie,
                outcome,
                sni_creds,
                nonce,
            })
            .boxed()
    }
    fn cases(&self, tier: Tier) -> u64 {
        tier.pick(6000, 120_000)
    }
    fn classify(&self, c: &Case) -> Vec<&'static str> {
        let mut v = vec![];
        let error_path = c.auth_form != "valid" || c.outcome != Outcome::Echo || c.target.starts_with('_') || c.target == "noport.test";
        match c.scenario {
            Scenario::Tunnel => v.push("tunnel"),
            Scenario::Ping => v.push("ping"),
            Scenario::Speedtest => v.push("speedtest"),
            Scenario::ReverseProxy => v.push("reverse-proxy"),
            Scenario::SniSelect => v.push("sni-select"),
            Scenario::Startup => v.push("startup"),
            Scenario::RawHead => v.push("refused-head"),
            Scenario::SocksUpstream => v.push("socks5-upstream"),
        }
        if c.sni_creds.is_some() && c.scenario == Scenario::Tunnel {
            v.push("sni-credentials");
        }
        if error_path || c.scenario != Scenario::Tunnel {
            v.push("nontrivial");
        }
        v
    }
    fn required_classes(&self) -> Vec<&'static str> {
        vec!["nontrivial", "tunnel", "ping", "speedtest", "reverse-proxy", "sni-select", "startup", "sni-credentials", "refused-head", "socks5-upstream"]
    }
    fn check(&self, c: &Case) -> Verdict {
        let logs = run_scenario(c);
        engine::bump("log-records", logs.len() as u64);
        let k = canaries(c.nonce);
        for line in &logs {
            if line == "PANIC in scenario" {
                return viol("leak:scenario-panicked", "the scenario panicked");
            }
            if let Some(what) = k.decoded_leak(line) {
                let target = line.split(' ').nth(1).unwrap_or("?").to_string();
                return viol(&format!("leak:{}:{}", target, what.replace(' ', "-")), format!("{} appears in a log record: {}", what, &line[..line.len().min(400)]));
            }
            for (needle, what) in k.needles() {
                if line.contains(&needle) {
                    // name the log site by its stable part
                    let site = line
                        .split(needle.as_str())
                        .next()
                        .unwrap_or("")
                        .chars()
                        .filter(|ch| ch.is_ascii_alphabetic() || *ch == ' ' || *ch == ':')
                        .collect::<String>();
                    let site: String = site.split_whitespace().filter(|w| w.len() > 2).take(9).collect::<Vec<_>>().join(" ");
                    let target = line.split(' ').nth(1).unwrap_or("?").to_string();
                    return viol(
                        &format!("leak:{}:{}", target, what.replace(' ', "-")),
                        format!("{} appears in a log record ({}): {}", what, site, &line[..line.len().min(400)]),
                    );
                }
            }
        }
        Ok(())
    }
}

pub fn run(ctx: &mut Ctx) {
    super::replay_corpus(ctx, replay);
    ctx.run_suite(&LeakSuite);
    ctx.run_suite(&super::frontdoor::FrontDoorSuite);
    ctx.run_suite(&super::c20quic::H3LeakSuite);
    ctx.assume("covers the log records the in-memory scenarios produce (tunnel, ping, speedtest, reverse proxy, demultiplexer meta, start-up); code reached only through real TLS / QUIC sockets (e.g. the trace line with the raw SNI in on_new_tls_connection) is covered only as far as the same values pass through these paths");
    ctx.assume("the user name alone is not treated as a secret; the Proxy-Authorization value is (verbatim and decoded)");
}

pub fn replay(ctx: &mut Ctx, suite: &str, case: &Value) -> bool {
    match suite {
        "log-canaries" => ctx.replay_suite(&LeakSuite, case),
        "tls-front-door" => ctx.replay_suite(&super::frontdoor::FrontDoorSuite, case),
        "h3-log-canaries" => ctx.replay_suite(&super::c20quic::H3LeakSuite, case),
        _ => false,
    }
}
