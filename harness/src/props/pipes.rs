//! Scripted pipe endpoints and the history-based oracle shared by C02 (exact relay) and C14
//! (idle timeout). The real `DuplexPipe::exchange` runs on these endpoints under a paused clock.

use crate::engine::{viol, Verdict, Violation};
use crate::ensure;
use async_trait::async_trait;
use bytes::Bytes;
use proptest::prelude::*;
use serde::{Deserialize, Serialize};
use std::io;
use std::sync::{Arc, Mutex};
use std::time::Duration;
use tokio::time::Instant;
use trusttunnel::verif::pipes::{duplex_exchange, ByteSink, ByteSource, Direction};

/// byte `i` of direction `d`
pub fn code(d: usize, i: usize) -> u8 {
    ((i as u32).wrapping_mul(31).wrapping_add(i as u32 >> 8).wrapping_add(d as u32 * 101) & 0xff) as u8
}

#[derive(Serialize, Deserialize, Debug, Clone, PartialEq, Eq)]
pub enum End {
    Eof,
    /// read error of this kind
    Error,
    /// the source never ends
    Hang,
}

#[derive(Serialize, Deserialize, Debug, Clone, PartialEq, Eq)]
pub enum FaultAt {
    /// the n-th call of write() fails
    Write(u32),
    /// the n-th call of wait_writable() fails
    WaitWritable(u32),
    Eof,
    Flush,
}

#[derive(Serialize, Deserialize, Debug, Clone)]
pub struct SourceScript {
    /// (milliseconds after the previous event became available, chunk length)
    pub chunks: Vec<(u32, u32)>,
    /// delay of the terminating event
    pub end_delay: u32,
    pub end: End,
}

#[derive(Serialize, Deserialize, Debug, Clone)]
pub struct SinkScript {
    /// (milliseconds after the previous grant, bytes of additional capacity)
    pub grants: Vec<(u32, u32)>,
    /// after the listed grants capacity becomes unlimited at this delay (None = never)
    pub then_unlimited_after: Option<u32>,
    /// largest number of bytes a single write accepts
    pub max_per_write: u32,
    pub flush_delay: u32,
    pub fault: Option<FaultAt>,
}

#[derive(Serialize, Deserialize, Debug, Clone)]
pub struct PipeCase {
    /// idle timeout in milliseconds
    pub timeout_ms: u64,
    /// index 0: client -> peer (Outgoing), index 1: peer -> client (Incoming)
    pub sources: [SourceScript; 2],
    pub sinks: [SinkScript; 2],
}

#[derive(Debug, Clone, PartialEq, Eq)]
pub enum Ev {
    Read { d: usize, n: usize },
    ReadEof { d: usize },
    ReadErr { d: usize },
    Consume { d: usize, n: usize },
    Write { d: usize, offered: usize, accepted: usize, content_ok: bool },
    WriteErr { d: usize },
    WaitErr { d: usize },
    Eof { d: usize },
    EofErr { d: usize },
    Flush { d: usize },
    FlushErr { d: usize },
    Metrics { d: usize, n: usize },
    SourceDropped { d: usize },
    SinkDropped { d: usize },
}

#[derive(Default)]
pub struct Log {
    pub events: Vec<(u64, Ev)>,
}

pub type SharedLog = Arc<Mutex<Log>>;

fn now_ms(start: Instant) -> u64 {
    start.elapsed().as_millis() as u64
}

pub struct ScriptedSource {
    d: usize,
    start: Instant,
    /// absolute availability times of the chunks, then of the end
    avail: Vec<(u64, usize)>,
    end_at: u64,
    end: End,
    next: usize,
    offset: usize,
    log: SharedLog,
}

pub struct ScriptedSink {
    d: usize,
    start: Instant,
    grants: Vec<(u64, usize)>,
    unlimited_at: Option<u64>,
    max_per_write: usize,
    flush_delay: u64,
    fault: Option<FaultAt>,
    accepted: usize,
    writes: u32,
    waits: u32,
    log: SharedLog,
}

impl Drop for ScriptedSource {
    fn drop(&mut self) {
        let t = now_ms(self.start);
        self.log.lock().unwrap().events.push((t, Ev::SourceDropped { d: self.d }));
    }
}

impl Drop for ScriptedSink {
    fn drop(&mut self) {
        let t = now_ms(self.start);
        self.log.lock().unwrap().events.push((t, Ev::SinkDropped { d: self.d }));
    }
}

impl ScriptedSource {
    fn push(&self, e: Ev) {
        let t = now_ms(self.start);
        self.log.lock().unwrap().events.push((t, e));
    }
}

#[async_trait]
impl ByteSource for ScriptedSource {
    async fn read(&mut self) -> io::Result<Option<Bytes>> {
        if std::env::var("VERIF_DEBUG").is_ok() {
            eprintln!("  [{}] read() called d={}", now_ms(self.start), self.d);
        }
        if self.next < self.avail.len() {
            let (at, len) = self.avail[self.next];
            // cancel-safe: nothing is consumed before the chunk is available
            tokio::time::sleep_until(self.start + Duration::from_millis(at)).await;
            self.next += 1;
            let data: Vec<u8> = (0..len).map(|i| code(self.d, self.offset + i)).collect();
            self.offset += len;
            self.push(Ev::Read { d: self.d, n: len });
            return Ok(Some(Bytes::from(data)));
        }
        match self.end {
            End::Hang => futures::future::pending().await,
            End::Eof => {
                tokio::time::sleep_until(self.start + Duration::from_millis(self.end_at)).await;
                self.push(Ev::ReadEof { d: self.d });
                Ok(None)
            }
            End::Error => {
                tokio::time::sleep_until(self.start + Duration::from_millis(self.end_at)).await;
                self.push(Ev::ReadErr { d: self.d });
                Err(io::Error::from(io::ErrorKind::ConnectionReset))
            }
        }
    }

    fn consume(&mut self, n: usize) -> io::Result<()> {
        self.push(Ev::Consume { d: self.d, n });
        Ok(())
    }
}

impl ScriptedSink {
    fn push(&self, e: Ev) {
        let t = now_ms(self.start);
        self.log.lock().unwrap().events.push((t, e));
    }

    fn capacity_at(&self, t: u64) -> usize {
        if self.unlimited_at.is_some_and(|u| t >= u) {
            return usize::MAX;
        }
        let granted: usize = self.grants.iter().filter(|(at, _)| *at <= t).map(|(_, n)| *n).sum();
        granted.saturating_sub(self.accepted)
    }

    fn next_grant_after(&self, t: u64) -> Option<u64> {
        let a = self.grants.iter().map(|(at, _)| *at).filter(|at| *at > t).min();
        let b = self.unlimited_at.filter(|u| *u > t);
        match (a, b) {
            (Some(x), Some(y)) => Some(x.min(y)),
            (x, y) => x.or(y),
        }
    }
}

#[async_trait]
impl ByteSink for ScriptedSink {
    fn write(&mut self, mut data: Bytes) -> io::Result<Bytes> {
        self.writes += 1;
        if self.fault == Some(FaultAt::Write(self.writes)) {
            self.push(Ev::WriteErr { d: self.d });
            return Err(io::Error::from(io::ErrorKind::BrokenPipe));
        }
        let t = now_ms(self.start);
        let n = data.len().min(self.capacity_at(t)).min(self.max_per_write);
        let taken = data.split_to(n);
        let content_ok = taken
            .iter()
            .enumerate()
            .all(|(i, b)| *b == code(self.d, self.accepted + i));
        self.accepted += n;
        self.push(Ev::Write {
            d: self.d,
            offered: n + data.len(),
            accepted: n,
            content_ok,
        });
        Ok(data)
    }

    fn eof(&mut self) -> io::Result<()> {
        if self.fault == Some(FaultAt::Eof) {
            self.push(Ev::EofErr { d: self.d });
            return Err(io::Error::from(io::ErrorKind::BrokenPipe));
        }
        self.push(Ev::Eof { d: self.d });
        Ok(())
    }

    async fn wait_writable(&mut self) -> io::Result<()> {
        self.waits += 1;
        if self.fault == Some(FaultAt::WaitWritable(self.waits)) {
            self.push(Ev::WaitErr { d: self.d });
            return Err(io::Error::from(io::ErrorKind::BrokenPipe));
        }
        loop {
            let t = now_ms(self.start);
            if self.capacity_at(t) > 0 {
                return Ok(());
            }
            match self.next_grant_after(t) {
                Some(at) => tokio::time::sleep_until(self.start + Duration::from_millis(at)).await,
                None => futures::future::pending().await,
            }
        }
    }

    async fn flush(&mut self) -> io::Result<()> {
        tokio::time::sleep(Duration::from_millis(self.flush_delay)).await;
        if self.fault == Some(FaultAt::Flush) {
            self.push(Ev::FlushErr { d: self.d });
            return Err(io::Error::from(io::ErrorKind::BrokenPipe));
        }
        self.push(Ev::Flush { d: self.d });
        Ok(())
    }
}

#[derive(Debug)]
pub struct RunResult {
    pub result: Option<Result<(), io::ErrorKind>>,
    pub returned_at: u64,
    pub events: Vec<(u64, Ev)>,
    pub horizon: u64,
}

fn abs_times(items: &[(u32, u32)]) -> Vec<(u64, usize)> {
    let mut t = 0u64;
    items
        .iter()
        .map(|(d, n)| {
            t += *d as u64;
            (t, *n as usize)
        })
        .collect()
}

impl PipeCase {
    pub fn total(&self, d: usize) -> usize {
        self.sources[d].chunks.iter().map(|c| c.1 as usize).sum()
    }

    pub fn script_end(&self) -> u64 {
        let mut m = 0u64;
        for s in &self.sources {
            m = m.max(s.chunks.iter().map(|c| c.0 as u64).sum::<u64>() + s.end_delay as u64);
        }
        for s in &self.sinks {
            let g: u64 = s.grants.iter().map(|c| c.0 as u64).sum();
            m = m.max(g + s.then_unlimited_after.unwrap_or(0) as u64 + s.flush_delay as u64);
        }
        m
    }

    pub fn has_faults(&self) -> bool {
        self.sinks.iter().any(|s| s.fault.is_some()) || self.sources.iter().any(|s| s.end == End::Error)
    }

    /// Times at which an ideal relay (never closed, no timers) of the same scripts moves bytes,
    /// both directions merged and sorted. Only meaningful for fault-free scripts.
    pub fn ideal_transfers(&self) -> Vec<u64> {
        let mut all = vec![];
        for d in 0..2 {
            let src = &self.sources[d];
            let sink = &self.sinks[d];
            let avail = abs_times(&src.chunks);
            let grants = abs_times(&sink.grants);
            let last_grant = grants.last().map_or(0, |x| x.0);
            let unlimited_at = sink.then_unlimited_after.map(|x| last_grant + x as u64);
            let cap_at = |t: u64, accepted: usize| -> usize {
                if unlimited_at.is_some_and(|u| t >= u) {
                    return usize::MAX;
                }
                let g: usize = grants.iter().filter(|(at, _)| *at <= t).map(|(_, n)| *n).sum();
                g.saturating_sub(accepted)
            };
            let next_after = |t: u64| -> Option<u64> {
                let a = grants.iter().map(|(at, _)| *at).filter(|at| *at > t).min();
                let b = unlimited_at.filter(|u| *u > t);
                match (a, b) {
                    (Some(x), Some(y)) => Some(x.min(y)),
                    (x, y) => x.or(y),
                }
            };
            let mut t = 0u64;
            let mut accepted = 0usize;
            'chunks: for (at, len) in avail {
                t = t.max(at);
                let mut remaining = len;
                while remaining > 0 {
                    let cap = cap_at(t, accepted);
                    if cap == 0 {
                        match next_after(t) {
                            Some(n) => {
                                t = n;
                                continue;
                            }
                            None => break 'chunks,
                        }
                    }
                    let n = remaining.min(cap).min(sink.max_per_write.max(1) as usize);
                    all.push(t);
                    accepted += n;
                    remaining -= n;
                }
            }
        }
        all.sort();
        all.dedup();
        all
    }

    /// Run the real DuplexPipe on the scripted endpoints (must be called inside a paused runtime).
    pub async fn run(&self) -> RunResult {
        let log: SharedLog = Default::default();
        crate::engine::aio::skew_clock().await;
        let start = Instant::now();
        let mk_source = |d: usize| -> Box<dyn ByteSource> {
            let s = &self.sources[d];
            let avail = abs_times(&s.chunks);
            let end_at = avail.last().map_or(0, |x| x.0) + s.end_delay as u64;
            Box::new(ScriptedSource {
                d,
                start,
                avail,
                end_at,
                end: s.end.clone(),
                next: 0,
                offset: 0,
                log: log.clone(),
            })
        };
        let mk_sink = |d: usize| -> Box<dyn ByteSink> {
            let s = &self.sinks[d];
            let grants = abs_times(&s.grants);
            let last = grants.last().map_or(0, |x| x.0);
            Box::new(ScriptedSink {
                d,
                start,
                grants,
                unlimited_at: s.then_unlimited_after.map(|x| last + x as u64),
                max_per_write: s.max_per_write.max(1) as usize,
                flush_delay: s.flush_delay as u64,
                fault: s.fault.clone(),
                accepted: 0,
                writes: 0,
                waits: 0,
                log: log.clone(),
            })
        };
        // direction 0: client source -> peer sink; direction 1: peer source -> client sink
        let client = (mk_source(0), mk_sink(1));
        let peer = (mk_source(1), mk_sink(0));
        let mlog = log.clone();
        let metrics = move |dir: Direction, n: usize| {
            let d = match dir {
                Direction::Outgoing => 0,
                Direction::Incoming => 1,
            };
            let t = now_ms(start);
            mlog.lock().unwrap().events.push((t, Ev::Metrics { d, n }));
        };
        let horizon = self.script_end() + 2 * self.timeout_ms + 10_000;
        let fut = duplex_exchange(client, peer, Duration::from_millis(self.timeout_ms), metrics);
        let r = tokio::time::timeout(Duration::from_millis(horizon), fut).await;
        let returned_at = now_ms(start);
        // endpoints are dropped with the future; let the drop events land
        let events = std::mem::take(&mut log.lock().unwrap().events);
        RunResult {
            result: r.ok().map(|x| x.map_err(|e| e.kind())),
            returned_at,
            events,
            horizon,
        }
    }
}

pub struct Facts {
    pub accepted: [usize; 2],
    pub read: [usize; 2],
    pub consumed: [usize; 2],
    pub metrics: [usize; 2],
    pub first_eof: [Option<u64>; 2],
    pub flushed_after_eof: [bool; 2],
    pub fault_at: Option<u64>,
    pub last_transfer: u64,
    pub last_activity: u64,
    /// last step (read, end of stream, accepted write) of each direction
    pub last_step: [u64; 2],
    pub partial_writes: usize,
    pub restarts_likely: bool,
    pub dropped: usize,
}

/// Invariants over the recorded history that hold whatever the result (C02 clauses 1, 4, 5 and
/// the ordering part of 2).
pub fn check_history(case: &PipeCase, r: &RunResult) -> Result<Facts, Violation> {
    let mut f = Facts {
        accepted: [0; 2],
        read: [0; 2],
        consumed: [0; 2],
        metrics: [0; 2],
        first_eof: [None; 2],
        flushed_after_eof: [false; 2],
        fault_at: None,
        last_transfer: 0,
        last_activity: 0,
        last_step: [0; 2],
        partial_writes: 0,
        restarts_likely: false,
        dropped: 0,
    };
    let mut pending_consume: [Option<usize>; 2] = [None; 2];
    let mut pending_metrics: [Option<usize>; 2] = [None; 2];
    for (t, e) in &r.events {
        match e {
            Ev::Read { d, n } => {
                f.read[*d] += n;
                f.last_activity = f.last_activity.max(*t);
                f.last_step[*d] = f.last_step[*d].max(*t);
            }
            Ev::ReadEof { d, .. } => {
                f.last_activity = f.last_activity.max(*t);
                f.last_step[*d] = f.last_step[*d].max(*t);
            }
            Ev::Write { d, offered, accepted, content_ok } => {
                ensure!(
                    f.first_eof[*d].is_none(),
                    "relay:write-after-eof",
                    "direction {}: write of {} bytes at {} ms after eof() at {:?} ms",
                    d,
                    offered,
                    t,
                    f.first_eof[*d]
                );
                ensure!(
                    *content_ok,
                    "relay:bytes-lost-duplicated-or-reordered",
                    "direction {}: at {} ms the sink was offered bytes that do not continue the stream at offset {}",
                    d,
                    t,
                    f.accepted[*d]
                );
                ensure!(
                    pending_consume[*d].is_none(),
                    "credit:write-not-followed-by-consume",
                    "direction {}: two writes without a consume() in between",
                    d
                );
                f.accepted[*d] += accepted;
                ensure!(
                    f.accepted[*d] <= f.read[*d],
                    "relay:bytes-lost-duplicated-or-reordered",
                    "direction {}: sink accepted {} bytes but only {} were read",
                    d,
                    f.accepted[*d],
                    f.read[*d]
                );
                pending_consume[*d] = Some(*accepted);
                pending_metrics[*d] = Some(*accepted);
                if accepted < offered {
                    f.partial_writes += 1;
                }
                if *accepted > 0 {
                    f.last_transfer = f.last_transfer.max(*t);
                    f.last_activity = f.last_activity.max(*t);
                    f.last_step[*d] = f.last_step[*d].max(*t);
                }
            }
            Ev::Consume { d, n } => {
                match pending_consume[*d].take() {
                    Some(a) => ensure!(
                        a == *n,
                        "credit:consume-differs-from-accepted",
                        "direction {}: sink accepted {} bytes but the source was credited {}",
                        d,
                        a,
                        n
                    ),
                    None => {
                        return viol(
                            "credit:consume-without-write",
                            format!("direction {}: consume({}) without a preceding write", d, n),
                        )
                    }
                }
                f.consumed[*d] += n;
                ensure!(
                    f.consumed[*d] <= f.read[*d],
                    "credit:consume-exceeds-read",
                    "direction {}: credited {} bytes, read only {}",
                    d,
                    f.consumed[*d],
                    f.read[*d]
                );
            }
            Ev::Metrics { d, n } => {
                match pending_metrics[*d].take() {
                    Some(a) => ensure!(
                        a == *n,
                        "metrics:differs-from-accepted",
                        "direction {}: sink accepted {} bytes but {} were accounted",
                        d,
                        a,
                        n
                    ),
                    None => {
                        return viol(
                            "metrics:differs-from-accepted",
                            format!("direction {}: {} bytes accounted without a write", d, n),
                        )
                    }
                }
                f.metrics[*d] += n;
            }
            Ev::Eof { d } => {
                ensure!(
                    f.accepted[*d] == case.total(*d),
                    "relay:eof-before-all-bytes-delivered",
                    "direction {}: eof() at {} ms after {} of {} bytes",
                    d,
                    t,
                    f.accepted[*d],
                    case.total(*d)
                );
                if f.first_eof[*d].is_none() {
                    f.first_eof[*d] = Some(*t);
                }
                f.flushed_after_eof[*d] = false;
                f.last_activity = f.last_activity.max(*t);
            }
            Ev::Flush { d } => {
                if f.first_eof[*d].is_some() {
                    f.flushed_after_eof[*d] = true;
                }
            }
            Ev::ReadErr { .. } | Ev::WriteErr { .. } | Ev::WaitErr { .. } | Ev::EofErr { .. } | Ev::FlushErr { .. } => {
                if f.fault_at.is_none() {
                    f.fault_at = Some(*t);
                }
            }
            Ev::SourceDropped { .. } | Ev::SinkDropped { .. } => f.dropped += 1,
        }
    }
    // a write whose consume never came is only acceptable when the write itself was the last thing
    // before a fault elsewhere tore the pipe down; the pipe credits synchronously after write
    for d in 0..2 {
        ensure!(
            pending_consume[d].is_none(),
            "credit:write-not-followed-by-consume",
            "direction {}: the last write was never credited to the source",
            d
        );
        ensure!(
            f.metrics[d] == f.accepted[d] && f.consumed[d] == f.accepted[d],
            "credit:totals-differ",
            "direction {}: accepted {} consumed {} accounted {}",
            d,
            f.accepted[d],
            f.consumed[d],
            f.metrics[d]
        );
    }
    f.restarts_likely = r.returned_at > case.timeout_ms;
    Ok(f)
}

/// The verdict for one run. `timing` = also judge whether an idle-timer close was legitimate
/// and in time (property C14); without it only the relay clauses of C02 are judged.
pub fn judge(case: &PipeCase, r: &RunResult, timing: bool) -> Verdict {
    let f = check_history(case, r)?;
    let t = case.timeout_ms;
    const TOL: u64 = 5;
    let Some(result) = &r.result else {
        return viol(
            "liveness:exchange-never-returned",
            format!(
                "exchange() still running {} ms of virtual time after the scripts ended (idle timeout {} ms)",
                r.horizon, t
            ),
        );
    };
    ensure!(
        f.dropped == 4,
        "resources:endpoints-not-released",
        "exchange() returned but only {} of 4 endpoints were dropped",
        f.dropped
    );
    match result {
        Ok(()) => {
            ensure!(
                f.fault_at.is_none(),
                "failure:error-swallowed",
                "an endpoint failed at {:?} ms but exchange() returned Ok",
                f.fault_at
            );
            for d in 0..2 {
                ensure!(
                    case.sources[d].end == End::Eof,
                    "relay:finished-without-eof",
                    "direction {} never ended but exchange() returned Ok",
                    d
                );
                ensure!(
                    f.accepted[d] == case.total(d),
                    "relay:truncated",
                    "direction {}: Ok with {} of {} bytes delivered",
                    d,
                    f.accepted[d],
                    case.total(d)
                );
                ensure!(
                    f.first_eof[d].is_some() && f.flushed_after_eof[d],
                    "relay:eof-not-passed-on",
                    "direction {}: Ok but eof={:?} flushed_after_eof={}",
                    d,
                    f.first_eof[d],
                    f.flushed_after_eof[d]
                );
            }
        }
        Err(io::ErrorKind::TimedOut) if f.fault_at.is_none() => {
            let idle = r.returned_at.saturating_sub(f.last_transfer);
            if timing && idle + TOL < t && !case.has_faults() {
                // Closed less than T after the last transfer. That breaks the property only when the
                // tunnel really is one that transfers at least once every T: the ideal relay of the
                // same scripts performs a further transfer, and no gap up to it reaches T.
                let ideal = case.ideal_transfers();
                if let Some(next) = ideal.iter().copied().find(|x| *x > r.returned_at + TOL) {
                    let mut prev = 0u64;
                    let mut steady = true;
                    for x in ideal.iter().copied().take_while(|x| *x <= next) {
                        if x - prev + TOL >= t {
                            steady = false;
                        }
                        prev = x;
                    }
                    if steady {
                        // the known finding: one direction has finished and the survivor's own timer
                        // expired (it made no step for T); a half-closed tunnel closed while the
                        // survivor itself was moving is something else
                        let half_closed = (0..2).any(|d| f.first_eof[d].is_some() && f.first_eof[1 - d].is_none() && r.returned_at.saturating_sub(f.last_step[1 - d]) + TOL >= t);
                        return viol(
                            if half_closed {
                                "timeout:closed-while-active:one-direction-finished"
                            } else {
                                "timeout:closed-while-active"
                            },
                            format!(
                                "closed by the idle timer at {} ms although bytes were transferred at {} ms and the next transfer was due at {} ms (T = {} ms, no gap between transfers reaches T)",
                                r.returned_at, f.last_transfer, next, t
                            ),
                        );
                    }
                }
            }
            let idle_activity = r.returned_at.saturating_sub(f.last_activity);
            ensure!(
                !timing || idle_activity <= 2 * t + TOL,
                "timeout:closed-too-late",
                "closed only {} ms after the last activity at {} ms (T = {} ms)",
                idle_activity,
                f.last_activity,
                t
            );
        }
        Err(kind) => {
            let Some(ft) = f.fault_at else {
                return viol(
                    "failure:spurious-error",
                    format!("exchange() failed with {:?} at {} ms but no endpoint failed", kind, r.returned_at),
                );
            };
            ensure!(
                r.returned_at <= ft + TOL,
                "failure:teardown-late",
                "endpoint failed at {} ms, exchange() returned only at {} ms",
                ft,
                r.returned_at
            );
        }
    }
    Ok(())
}

// ---------------------------------------------------------------------------------------------
// generators

fn delay(t: u64) -> BoxedStrategy<u32> {
    let t = t.min(100_000) as u32;
    prop_oneof![
        6 => Just(0u32),
        3 => 1u32..50,
        2 => Just(t / 3),
        2 => Just(t * 9 / 10),
        1 => Just(t + t / 2),
        1 => Just(3 * t),
    ]
    .boxed()
}

pub fn source_strategy(t: u64, allow_fault: bool) -> BoxedStrategy<SourceScript> {
    let len = prop_oneof![5 => 1u32..64, 3 => 64u32..1500, 1 => 1500u32..4096];
    (
        prop::collection::vec((delay(t), len), 0..8),
        delay(t),
        if allow_fault {
            prop_oneof![8 => Just(End::Eof), 2 => Just(End::Error), 1 => Just(End::Hang)].boxed()
        } else {
            prop_oneof![8 => Just(End::Eof), 1 => Just(End::Hang)].boxed()
        },
    )
        .prop_map(|(chunks, end_delay, end)| SourceScript {
            chunks,
            end_delay,
            end,
        })
        .boxed()
}

pub fn sink_strategy(t: u64, allow_fault: bool) -> BoxedStrategy<SinkScript> {
    let grant = prop_oneof![3 => 1u32..32, 3 => 32u32..2000, 1 => 2000u32..20_000];
    (
        prop_oneof![
            3 => Just(vec![]),
            5 => prop::collection::vec((delay(t), grant), 1..8),
        ],
        prop_oneof![8 => delay(t).prop_map(Some), 1 => Just(None)],
        prop_oneof![4 => Just(u32::MAX), 2 => 1u32..16, 2 => 16u32..1024],
        prop_oneof![3 => Just(0u32), 1 => 1u32..40, 1 => delay(t)],
        if allow_fault {
            prop_oneof![
                12 => Just(None),
                1 => (1u32..6).prop_map(|n| Some(FaultAt::Write(n))),
                1 => (1u32..4).prop_map(|n| Some(FaultAt::WaitWritable(n))),
                1 => Just(Some(FaultAt::Eof)),
                1 => Just(Some(FaultAt::Flush)),
            ]
            .boxed()
        } else {
            Just(None).boxed()
        },
    )
        .prop_map(|(grants, then_unlimited_after, max_per_write, flush_delay, fault)| SinkScript {
            grants,
            then_unlimited_after,
            max_per_write,
            flush_delay,
            fault,
        })
        .boxed()
}

pub fn case_strategy(allow_fault: bool) -> BoxedStrategy<PipeCase> {
    prop_oneof![2 => Just(3_600_000u64), 3 => Just(200u64), 2 => Just(1000u64), 1 => Just(50u64)]
        .prop_flat_map(move |t| {
            (
                Just(t),
                source_strategy(t, allow_fault),
                source_strategy(t, allow_fault),
                sink_strategy(t, allow_fault),
                sink_strategy(t, allow_fault),
            )
        })
        .prop_map(|(timeout_ms, s0, s1, k0, k1)| PipeCase {
            timeout_ms,
            sources: [s0, s1],
            sinks: [k0, k1],
        })
        .boxed()
}
